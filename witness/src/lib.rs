//! Compile-fail witnesses for the type-level clauses (thorough tier; `cargo +nightly test --doc`).
//! Every `compile_fail,E....` item has a compiling twin that differs only in the offending line,
//! so a witness cannot pass merely because a path is wrong.

/// C20: a partition hides mutation behind `find(&self)` in an UnsafeCell, so it must not be `Sync`.
/// ```compile_fail,E0277
/// fn needs_sync<T: Sync>() {}
/// needs_sync::<rust_dsymbols::util::partitions::Partition<usize>>();
/// ```
pub struct C20PartitionNotSync;

/// twin of C20PartitionNotSync: the same type is `Send` (moving it between threads is fine).
/// ```no_run
/// fn needs_send<T: Send>() {}
/// needs_send::<rust_dsymbols::util::partitions::Partition<usize>>();
/// ```
pub struct C20PartitionNotSyncTwin;

/// C20: same for the integer partition.
/// ```compile_fail,E0277
/// fn needs_sync<T: Sync>() {}
/// needs_sync::<rust_dsymbols::util::partitions::IntPartition>();
/// ```
pub struct C20IntPartitionNotSync;

/// twin of C20IntPartitionNotSync
/// ```no_run
/// fn needs_send<T: Send>() {}
/// needs_send::<rust_dsymbols::util::partitions::IntPartition>();
/// ```
pub struct C20IntPartitionNotSyncTwin;

/// C20: `unite` needs exclusive access.
/// ```compile_fail,E0596
/// let p = rust_dsymbols::util::partitions::Partition::<usize>::new();
/// p.unite(&1, &2);
/// ```
pub struct C20UniteNeedsMut;

/// twin of C20UniteNeedsMut
/// ```no_run
/// let mut p = rust_dsymbols::util::partitions::Partition::<usize>::new();
/// p.unite(&1, &2);
/// assert_eq!(p.find(&1), p.find(&2));
/// ```
pub struct C20UniteNeedsMutTwin;

/// C10: the letters of a free word cannot be reached from outside the module.
/// ```compile_fail,E0616
/// let w = rust_dsymbols::fpgroups::free_words::FreeWord::from([1, 2]);
/// let _ = w.w.len();
/// ```
pub struct C10FieldPrivate;

/// twin of C10FieldPrivate
/// ```no_run
/// let w = rust_dsymbols::fpgroups::free_words::FreeWord::from([1, 2]);
/// let _ = w.len();
/// ```
pub struct C10FieldPrivateTwin;

/// C10: a free word cannot be built from raw letters.
/// ```compile_fail,E0451
/// let _ = rust_dsymbols::fpgroups::free_words::FreeWord { w: vec![1, -1] };
/// ```
pub struct C10NoRawConstruction;

/// twin of C10NoRawConstruction
/// ```no_run
/// let _ = rust_dsymbols::fpgroups::free_words::FreeWord::new(vec![1, -1]);
/// ```
pub struct C10NoRawConstructionTwin;

/// C18: a residue class cannot be built from a raw value.
/// ```compile_fail,E0451
/// let _ = rust_dsymbols::geometry::prime_residue_classes::PrimeResidueClass::<61> { value: 61 };
/// ```
pub struct C18NoRawResidue;

/// twin of C18NoRawResidue
/// ```no_run
/// let _: rust_dsymbols::geometry::prime_residue_classes::PrimeResidueClass<61> = 61i64.into();
/// ```
pub struct C18NoRawResidueTwin;
