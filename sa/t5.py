"""T5 RANGE-GUARD / UNTRUSTED-INPUT (DESIGN 3/T5).

A *clause* describes one way a function can panic, as a conjunction of normalised atoms over the function's
parameters: the path condition that leads to the panic site plus the trigger (the panic condition itself).
Callee clauses are substituted into the caller's term space at each call site and dropped when a fact that
dominates the call (and is still valid there) contradicts one of their atoms; what is left propagates upward.
At an entry point every remaining clause whose trigger mentions a *tracked* value (an integer parameter, or a
number taken from untrusted input) is an obligation: discharged or a violation.
"""
from .core import *

STD_PANICKY = {
    # callee suffix -> kind
    "option::Option::<T>::unwrap": "unwrap-none",
    "option::Option::<T>::expect": "unwrap-none",
    "result::Result::<T, E>::unwrap": "unwrap-err",
    "result::Result::<T, E>::expect": "unwrap-err",
    "ops::Index::index": "index",
    "ops::IndexMut::index_mut": "index",
}
STD_OPAQUE_PANICKY = ("Vec::<T, A>::remove", "Vec::<T, A>::insert", "Vec::<T, A>::swap_remove", "slice::<impl [T]>::swap",
                      "copy_from_slice", "clone_from_slice", "split_at", "Vec::<T, A>::drain", "Iterator::step_by",
                      "::pow", "::abs", "VecDeque::<T, A>::remove")

UBCHECK = ("MisalignedPointerDereference", "NullPointerDereference", "InvalidEnumConstruction")


class Clause:
    __slots__ = ("kind", "chain", "path", "trig", "span", "where", "fpath")

    def __init__(self, kind, chain, path, trig, span, where, fpath=()):
        self.fpath = list(fpath)  # path atoms that come from callees (evaluated at callee time)
        self.kind = kind          # Overflow(Sub) | assert | index | unwrap-none | ...
        self.chain = chain        # tuple of function names from the function that owns the clause down to the panic
        self.path = path          # normalised atoms (conjunction) leading to the site
        self.trig = trig          # normalised atoms: the panic condition
        self.span = span
        self.where = where        # bb in the owning function where it was instantiated

    def atoms(self):
        return list(self.path) + list(self.fpath) + list(self.trig)

    def foreign(self):
        return len(self.chain) > 1


def subst(t, mapping, owner):
    """replace params by caller terms; make callee locals unmatchable"""
    if not isinstance(t, tuple) or not t:
        return t
    k = t[0]
    if k == "param":
        r = mapping.get(t[1])
        return r if r is not None else ("glocal", owner, "param%d" % t[1])
    if k == "local":
        return ("glocal", owner, t[1], t[2])
    if k == "field":
        # closure capture:  (param1).k -> captured operand
        b = t[1]
        if b[0] == "param" and ("cap", b[1], t[2]) in mapping:
            return mapping[("cap", b[1], t[2])]
        return (k, subst(t[1], mapping, owner), t[2])
    if k == "variant":
        return (k, subst(t[1], mapping, owner), t[2])
    if k == "cast":
        return (k, subst(t[1], mapping, owner), t[2])
    if k == "discr":
        return (k, subst(t[1], mapping, owner))
    if k == "index":
        return (k, subst(t[1], mapping, owner), subst(t[2], mapping, owner))
    if k == "binop":
        return (k, t[1], subst(t[2], mapping, owner), subst(t[3], mapping, owner))
    if k == "unop":
        return (k, t[1], subst(t[2], mapping, owner))
    if k == "call":
        # a call inside a callee's clause is evaluated at callee time: mark it, so that it is only matched with a
        # caller-side evaluation of the same call when nothing changed in between (deep validity)
        return ("call", t[1], tuple(subst(a, mapping, owner) for a in t[2]), "@")
    if k == "agg":
        return (k, t[1], tuple(subst(a, mapping, owner) for a in t[2]))
    if k == "phi":
        return ("phi", tuple(subst(a, mapping, owner) for a in t[1]))
    return t


def subst_atom(a, mapping, owner):
    k = a[0]
    if k == "rel":
        return ("rel", a[1], subst(a[2], mapping, owner), subst(a[3], mapping, owner))
    if k == "bool":
        return ("bool", subst(a[1], mapping, owner), a[2])
    if k in ("variant", "notvariant", "invariant", "relnotin", "relin"):
        return (k, subst(a[1], mapping, owner), a[2])
    if k == "ovf":
        return ("ovf", a[1], subst(a[2], mapping, owner), subst(a[3], mapping, owner))
    if k == "oob":
        return ("oob", subst(a[1], mapping, owner), subst(a[2], mapping, owner))
    if k == "opaque":
        return ("opaque", a[1], tuple(subst(x, mapping, owner) for x in a[2]))
    return a


def unmark(t):
    if not isinstance(t, tuple) or not t:
        return t
    if t[0] == "call":
        return ("call", t[1], tuple(unmark(a) for a in t[2]))
    return tuple(unmark(x) if isinstance(x, tuple) else x for x in t)


def has_marked(t):
    return contains_any(t, lambda s: isinstance(s, tuple) and len(s) == 4 and s[0] == "call" and s[3] == "@")


def contains_any(t, pred):
    if not isinstance(t, tuple):
        return False
    if pred(t):
        return True
    return any(contains_any(x, pred) for x in t if isinstance(x, tuple))


def atom_terms(a):
    k = a[0]
    if k == "rel":
        return [a[2], a[3]]
    if k in ("bool", "variant", "notvariant", "invariant", "relnotin", "relin"):
        return [a[1]]
    if k == "ovf":
        return [a[2], a[3]]
    if k == "oob":
        return [a[2]]          # only the index is examined
    if k == "opaque":
        return list(a[2])
    return []


def mentions_param(a):
    return any(contains(t, lambda s: isinstance(s, tuple) and s and s[0] == "param") for t in atom_terms(a))


def arith_leaves(t, acc=None):
    """maximal non-arithmetic subterms of an integer expression (through binop/unop/cast/overflow tuple field)"""
    if acc is None:
        acc = []
    if not isinstance(t, tuple) or not t:
        return acc
    k = t[0]
    if k == "binop":
        arith_leaves(t[2], acc)
        arith_leaves(t[3], acc)
    elif k == "unop":
        arith_leaves(t[2], acc)
    elif k == "cast":
        arith_leaves(t[1], acc)
    elif k == "field" and t[1][0] == "binop":
        arith_leaves(t[1], acc)
    elif k == "agg" and t[1] == "tuple":
        for a in t[2]:
            arith_leaves(a, acc)
    elif k == "phi":
        for a in t[1]:
            arith_leaves(a, acc)
    else:
        acc.append(t)
    return acc


def expand_phi(body, t, getters, depth=0):
    """in an index / overflow operand, replace a multi-defined local by the set of its definitions (one level)"""
    if not isinstance(t, tuple) or not t:
        return t
    k = t[0]
    if k == "local" and depth == 0:
        defs = body.all_defs_origins(t[1])
        if 1 <= len(defs) <= 4:
            return ("phi", tuple(norm(d[1], getters) for d in defs))
        return t
    if k == "binop":
        return (k, t[1], expand_phi(body, t[2], getters, depth), expand_phi(body, t[3], getters, depth))
    if k == "unop":
        return (k, t[1], expand_phi(body, t[2], getters, depth))
    if k == "cast":
        return (k, expand_phi(body, t[1], getters, depth), t[2])
    if k == "field" and t[1][0] == "binop":
        return (k, expand_phi(body, t[1], getters, depth), t[2])
    if k == "agg" and t[1] == "tuple":
        return (k, t[1], tuple(expand_phi(body, a, getters, depth) for a in t[2]))
    return t


class T5:
    def __init__(self, facts, max_depth=4):
        self.facts = facts
        self.getters = facts.getters()
        self.max_depth = max_depth
        self.memo = {}
        self.inprogress = set()
        self.stats = {"functions_summarised": 0, "sites": 0, "dropped_local": 0, "dropped_no_param": 0}

    # ---- facts available at a block (normalised, + loop range facts)
    def facts_at(self, body, bb):
        key = ("nf", body.name, bb)
        if key in self.memo:
            return self.memo[key]
        out = [atom_norm(a, self.getters) for a in body.facts_at(bb)]
        self.memo[key] = out
        return out

    def facts_at_flagged(self, body, bb):
        key = ("nff", body.name, bb)
        if key in self.memo:
            return self.memo[key]
        out = [(atom_norm(a, self.getters), dk) for a, dk in body.facts_at_flagged(bb)]
        self.memo[key] = out
        return out

    def range_atoms(self, body, term):
        """facts about payloads of Range iteration occurring in term: start <= x, x < end (or <= for inclusive)"""
        out = []
        for s in subterms(term):
            if s[0] == "field" and s[2] == "0" and s[1][0] == "variant" and s[1][2] == "Some":
                c = s[1][1]
                if c[0] == "call" and c[1].endswith("iter::Iterator::next") and len(c[2]) == 1:
                    it = c[2][0]
                    if it[0] != "local":
                        continue
                    defs = body.all_defs_origins(it[1])
                    if len(defs) != 1:
                        continue
                    d = norm(defs[0][1], self.getters)
                    if d[0] == "call" and d[1].endswith("IntoIterator::into_iter") and len(d[2]) == 1:
                        d = d[2][0]
                    lo = hi = None
                    incl = False
                    if d[0] == "agg" and d[1].endswith("ops::Range::Range") and len(d[2]) == 2:
                        lo, hi = d[2]
                    elif d[0] == "call" and d[1].endswith("RangeInclusive::<Idx>::new") and len(d[2]) == 2:
                        lo, hi = d[2]
                        incl = True
                    if lo is None:
                        continue
                    # bounds must not depend on mutable state
                    raw = defs[0][1]
                    if body.mutable_roots(raw):
                        # allow if the only mutable roots are never changed inside the loop: be conservative -> skip
                        continue
                    out.append(("rel", "Le", lo, s))
                    out.append(("rel", "Le" if incl else "Lt", s, hi))
        return out

    # ---- summaries
    def clauses_of(self, name, depth=0):
        if name in self.memo:
            return self.memo[name]
        if name in self.inprogress or depth > self.max_depth:
            return []
        body = self.facts.bodies.get(name)
        if body is None:
            return []
        self.inprogress.add(name)
        try:
            raw = self.raw_clauses(body, depth)
        finally:
            self.inprogress.discard(name)
        out = []
        for c in raw:
            # local discharge with the function's own facts, tracked = its integer parameters
            st = self.discharge(body, c, lambda t: t[0] == "param")
            if st[0] == "discharged":
                self.stats["dropped_local"] += 1
                continue
            if not any(mentions_param(a) for a in c.trig):
                lifted = self.lift_payload(body, c)
                if lifted is not None and any(mentions_param(a) for a in lifted.trig):
                    out.append(lifted)
                    continue
                self.stats["dropped_no_param"] += 1
                continue
            out.append(c)
        self.stats["functions_summarised"] += 1
        self.memo[name] = out
        return out

    def lift_payload(self, body, clause):
        """a trigger `c <= x` / `c < x` on the variable x of a loop over lo..hi (constant c) fires for some iteration iff the range reaches
        beyond c: rewrite it as a condition on the range's upper end, which may mention the function's parameters"""
        from .templates import loop_range_of_payload
        if len(clause.trig) != 1 or clause.trig[0][0] != "rel" or clause.trig[0][1] not in ("Le", "Lt") or clause.trig[0][2][0] != "int":
            return None
        op, c, x = clause.trig[0][1], clause.trig[0][2][1], clause.trig[0][3]
        r = loop_range_of_payload(body, x, self.getters)
        if r is None or r[1] is None:
            return None
        first_bad = c if op == "Le" else c + 1            # the smallest x that fires
        # some x in the range is >= first_bad  <=>  hi > first_bad (exclusive) / hi >= first_bad (inclusive)
        trig = [("rel", "Le" if r[2] else "Lt", ("int", first_bad), r[1])]
        return Clause(clause.kind, clause.chain, [], trig, clause.span, clause.where, clause.fpath)

    def raw_clauses(self, body, depth, phi=True):
        """all panic clauses visible in `body` (own sites, callee clauses substituted, closures), before discharge"""
        out = []
        g = self.getters
        pan = body.panic_blocks()
        fn = body.name
        for bi, b in body.live_blocks():
            if bi in pan:
                continue
            t = b["term"]
            k = t["k"]
            span = body.span_of(bi)
            if k == "assert":
                mk = t["msg"]["k"]
                if mk == "Other" and any(u in t["msg"].get("dbg", "") for u in UBCHECK):
                    continue
                trig = None
                if mk == "Overflow":
                    a = norm(body.origin(t["msg"]["a"]), g)
                    bb_ = norm(body.origin(t["msg"]["b"]), g)
                    op = t["msg"]["op"]
                    if op == "Sub":
                        trig = [("rel", "Lt", a, bb_)]
                    elif op in ("Shl", "Shr"):
                        # `x << n` overflows as soon as n reaches the bit width of x's type: an exact, small bound (not a "value too large
                        # to occur" overflow), so it is a relational trigger and never falls under the weak criterion
                        am = t["msg"]["a"]
                        ty = am.get("ty") if am.get("k") == "const" else (body.local_ty(am["place"]["l"]) if am.get("k") in ("copy", "move") and not am["place"]["p"] else None)
                        width = {"u8": 8, "i8": 8, "u16": 16, "i16": 16, "u32": 32, "i32": 32, "u64": 64, "i64": 64, "usize": 64, "isize": 64, "u128": 128, "i128": 128}.get(ty or "", 8)
                        trig = [("rel", "Le", ("int", width), expand_phi(body, bb_, g) if phi else bb_)]
                    else:
                        trig = [("ovf", op, expand_phi(body, a, g) if phi else a, expand_phi(body, bb_, g) if phi else bb_)]
                    kind = "Overflow(%s)" % op
                elif mk == "BoundsCheck":
                    trig = [("rel", "Le", norm(body.origin(t["msg"]["len"]), g), norm(body.origin(t["msg"]["index"]), g))]
                    kind = "BoundsCheck"
                elif mk in ("DivisionByZero", "RemainderByZero"):
                    # the message operand is the dividend; the condition tested is `divisor == 0`
                    trig = [atom_norm(a, g) for a in atoms_of(body.origin(t["cond"]), ("eq", 0 if t["expected"] else 1))]
                    kind = mk
                elif mk == "OverflowNeg":
                    trig = [("opaque", "OverflowNeg", (norm(body.origin(t["msg"]["a"]), g),))]
                    kind = mk
                else:
                    continue
                out.append(Clause(kind, (fn,), self.facts_at(body, bi), trig, span, bi))
                self.stats["sites"] += 1
            elif k == "switch" or k == "goto":
                for o in body.succ().get(bi, []):
                    if o in pan:
                        trig = [atom_norm(a, g) for a in body.edge_atoms((bi, o))]
                        kind = "assert"
                        out.append(Clause(kind, (fn,), self.facts_at(body, bi), trig, body.span_of(o), bi))
                        self.stats["sites"] += 1
            elif k == "call":
                c = t["callee"]
                name = c.get("def", "")
                if t["t"] is None and any(p in name for p in PANIC_FNS):
                    continue
                if t["t"] is not None and t["t"] in pan and False:
                    pass
                args = [norm(body.origin(a), g) for a in t["args"]]
                # std may-panic functions
                kind = None
                for suf, kd in STD_PANICKY.items():
                    if name.endswith(suf):
                        kind = kd
                if kind and not (c.get("resolved") or name) in self.facts.bodies:
                    if kind == "unwrap-none":
                        trig = [("variant", args[0], 0)]
                    elif kind == "unwrap-err":
                        trig = [("variant", args[0], 1)]
                    else:
                        trig = [("oob", args[0], expand_phi(body, args[1], g) if phi else args[1])]
                    out.append(Clause(kind, (fn,), self.facts_at(body, bi), trig, span, bi))
                    self.stats["sites"] += 1
                    continue
                if any(name.endswith(s) or s in name for s in STD_OPAQUE_PANICKY) and not c.get("local"):
                    out.append(Clause("std:" + name.split("::")[-1], (fn,), self.facts_at(body, bi), [("opaque", name, tuple(args))], span, bi))
                    self.stats["sites"] += 1
                    continue
                # local callees
                targets = []
                rn = c.get("resolved") or name
                if rn in self.facts.bodies:
                    targets = [rn]
                elif c.get("local") or name.startswith("<") or "::" in name:
                    targets = [x for x in self.facts.resolve_targets(name)]
                    if name.endswith("convert::Into::into") and len(c.get("args", [])) == 2:
                        fr = "<%s as std::convert::From<%s>>::from" % (c["args"][1], c["args"][0])
                        targets += [d for d in self.facts.bodies if d == fr]
                for tg in targets:
                    mapping = {i + 1: a for i, a in enumerate(args)}
                    for cl in self.clauses_of(tg, depth + 1):
                        fpath = [subst_atom(a, mapping, tg) for a in cl.path + cl.fpath]
                        trig = [subst_atom(a, mapping, tg) for a in cl.trig]
                        out.append(Clause(cl.kind, (fn,) + cl.chain, self.facts_at(body, bi), trig, span, bi, fpath))
            # closures created in this block: their clauses, with captures substituted
            for s in b["stmts"]:
                if s["k"] == "assign" and s["rv"]["k"] == "aggregate" and s["rv"].get("agg") == "closure":
                    cd = s["rv"]["def"]
                    ops = [norm(body.origin(o), g) for o in s["rv"]["ops"]]
                    mapping = {("cap", 1, str(i)): o for i, o in enumerate(ops)}
                    for cl in self.clauses_of(cd, depth + 1):
                        fpath = [subst_atom(a, mapping, cd) for a in cl.path + cl.fpath]
                        trig = [subst_atom(a, mapping, cd) for a in cl.trig]
                        out.append(Clause(cl.kind, (fn,) + cl.chain, self.facts_at(body, bi), trig, body.span_of(bi), bi, fpath))
        return out

    # ---- discharge
    def upper_bounded(self, leaf, facts):
        for h in facts:
            if h[0] != "rel":
                continue
            op, a, b = h[1], h[2], h[3]
            # an upper bound on leaf / c (c a positive constant) bounds leaf
            if a[0] == "binop" and a[1] == "Div" and a[2] == leaf and a[3][0] == "int" and a[3][1] > 0:
                a = leaf
            if op in ("Lt", "Le") and a == leaf and not contains(b, lambda s: s == leaf):
                return h
            if op == "Eq" and (a == leaf or b == leaf):
                other = b if a == leaf else a
                if not contains(other, lambda s: s == leaf):
                    return h
        return None

    def discharge(self, body, clause, tracked):
        """-> (status, reason)   status in discharged | open | untracked"""
        flagged = list(self.facts_at_flagged(body, clause.where))
        for a in clause.trig:
            for t in atom_terms(a):
                flagged += [(atom_norm(x, self.getters), True) for x in self.range_atoms(body, t)]
        facts = [h for h, _ in flagged]
        # 1. contradiction of a callee-side atom or of the trigger by a dominating fact.  Atoms that come from a callee are
        #    evaluated later than the guard: a guard containing calls then only counts if it is deep-valid.
        cand = list(clause.fpath) + list(clause.trig)
        for a in cand:
            if a[0] in ("ovf", "oob", "opaque"):
                continue
            need_deep = has_marked(a)
            au = unmark(a)
            for h, deep_ok in flagged:
                if need_deep and not deep_ok:
                    continue
                if contradicts(h, au):
                    return ("discharged", "%s contradicts %s" % (show_atom(h), show_atom(au)))
        # 2. weak criterion for overflow / out-of-bounds triggers
        weak = [a for a in clause.trig if a[0] in ("ovf", "oob", "opaque")]
        if weak and len(weak) == len(clause.trig):
            leaves = []
            for a in weak:
                for t in atom_terms(a):
                    leaves += [l for l in arith_leaves(unmark(t)) if l[0] != "int" and tracked(l)]
            if not leaves:
                return ("untracked", "no tracked value in the operands")
            missing = [l for l in leaves if not self.upper_bounded(l, facts)]
            if not missing:
                return ("discharged", "weak criterion: an upper bound on %s dominates" % ", ".join(sorted({show(l, 1)[:40] for l in leaves})))
            return ("open", "no dominating upper bound on %s" % ", ".join(sorted({show(l, 1)[:60] for l in missing})))
        # 3. weak criterion for a relational bound test  E <= x / E < x  whose bound E cannot be matched by substitution
        #    (e.g. the callee asserts `j < self.nr_rows` on a copy of the matrix the guard talks about): an upper bound
        #    on every tracked value of x dominates.  Decides "a guard of the right kind on the right value", not tightness.
        if len(clause.trig) == 1 and clause.trig[0][0] == "rel" and clause.trig[0][1] in ("Lt", "Le"):
            e, x = unmark(clause.trig[0][2]), unmark(clause.trig[0][3])
            xl = [l for l in arith_leaves(x) if l[0] != "int" and tracked(l)]
            el = [l for l in arith_leaves(e) if l[0] != "int" and tracked(l)]
            if xl and not el and e[0] != "int" and all(self.upper_bounded(l, facts) for l in xl):
                return ("discharged", "weak criterion: an upper bound on %s dominates (bound term %s not matched by substitution)" % (
                    ", ".join(sorted({show(l, 1)[:40] for l in xl})), show(e, 1)[:50]))
        return ("open", "no dominating fact excludes %s" % " & ".join(show_atom(a)[:90] for a in clause.trig))

    # ---- entry evaluation
    def tracked_leaves(self, clause, tracked, deep=True):
        out = []
        for a in clause.trig:
            for t in atom_terms(a):
                for s in (subterms(unmark(t)) if deep else arith_leaves(unmark(t))):
                    if isinstance(s, tuple) and s and tracked(s):
                        out.append(s)
        return out

    def evaluate_entry(self, ctx, rule, entry, tracked, name_of=None, report_invariant=True, deep=True):
        """emit one obligation per clause at the entry whose trigger mentions a tracked value"""
        body = ctx.body(entry)
        self.inprogress.add(entry)
        try:
            raw = self.raw_clauses(body, 0, phi=False)
        finally:
            self.inprogress.discard(entry)
        n = 0
        seen = set()
        rw = getattr(self, "rewrite", None)
        for c in raw:
            leaves = self.tracked_leaves(c, tracked, deep)
            if not leaves and rw is not None:
                # a clause that does not mention the input as it stands may do so after the caller's rewriting (e.g. the dimension stored in a
                # D-set that was built from parsed numbers); clauses that already mention the input are evaluated unchanged
                t2 = [tuple(map_term(x, rw) if isinstance(x, tuple) else x for x in a) for a in c.trig]
                if t2 != c.trig:
                    c2 = Clause(c.kind, c.chain, c.path, t2, c.span, c.where, [tuple(map_term(x, rw) if isinstance(x, tuple) else x for x in a) for a in c.fpath])
                    if self.tracked_leaves(c2, tracked, deep):
                        c = c2
                        leaves = self.tracked_leaves(c, tracked, deep)
            chain = ">".join(x.split("::")[-1] if not x.startswith("<") else x.rsplit("::", 1)[-1] for x in c.chain[1:])
            tsig = " & ".join(self.sig_atom(a, body, name_of) for a in c.trig)
            site = "%s%s:%s" % ((chain + ":") if chain else "", c.kind, tsig)
            if not leaves:
                if report_invariant and site not in seen:
                    ctx.ob(rule, entry, site, "invariant-justified", "trigger mentions no tracked value; rests on struct invariants / loop postconditions", c.span)
                seen.add(site)
                continue
            st, why = self.discharge(body, c, tracked)
            if st == "untracked":
                if site not in seen:
                    ctx.ob(rule, entry, site, "invariant-justified", why, c.span)
                seen.add(site)
                continue
            key = (site, st)
            if key in seen:
                continue
            seen.add(key)
            n += 1
            ctx.ob(rule, entry, site, "ok" if st == "discharged" else "violation",
                   why if st == "discharged" else "possible panic (%s via %s): %s" % (c.kind, " > ".join(c.chain), why), c.span)
        return n

    def sig_atom(self, a, body, name_of=None):
        def nm(t):
            if name_of:
                r = name_of(t)
                if r:
                    return r
            return None
        def sh(t):
            r = nm(t)
            if r:
                return r
            if not isinstance(t, tuple) or not t:
                return str(t)
            k = t[0]
            if k == "param":
                return t[2] or "p%d" % t[1]
            if k == "local":
                return t[2] or "_%d" % t[1]
            if k == "glocal":
                return "~%s" % (t[3] if len(t) > 3 and t[3] else t[2])
            if k == "int":
                return str(t[1])
            if k == "field":
                return sh(t[1]) + "." + str(t[2])
            if k == "variant":
                return sh(t[1]) + "?" + str(t[2])
            if k == "binop":
                return "%s(%s,%s)" % (t[1], sh(t[2]), sh(t[3]))
            if k == "unop":
                return "%s(%s)" % (t[1], sh(t[2]))
            if k == "cast":
                return sh(t[1])
            if k == "call":
                return "%s(%s)" % (t[1].rsplit("::", 1)[-1], ",".join(sh(x) for x in t[2]))
            if k == "index":
                return "%s[%s]" % (sh(t[1]), sh(t[2]))
            if k == "agg":
                return "(%s)" % ",".join(sh(x) for x in t[2])
            if k == "discr":
                return "discr(%s)" % sh(t[1])
            if k == "phi":
                return "phi(%s)" % "|".join(sh(x) for x in t[1])
            return k
        k = a[0]
        if k == "rel":
            return "%s(%s,%s)" % (a[1], sh(a[2]), sh(a[3]))
        if k == "bool":
            return ("" if a[2] else "!") + sh(a[1])
        if k in ("variant", "notvariant", "invariant", "relnotin", "relin"):
            return "%s(%s,%s)" % (k, sh(a[1]), a[2])
        if k == "ovf":
            return "ovf%s(%s,%s)" % (a[1], sh(a[2]), sh(a[3]))
        if k == "oob":
            return "oob(%s[%s])" % (sh(a[1]), sh(a[2]))
        if k == "opaque":
            return "%s(%s)" % (a[1].rsplit("::", 1)[-1], ",".join(sh(x) for x in a[2]))
        return str(a)[:60]
