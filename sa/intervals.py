"""T7: interval evaluation of value terms with bounds linear in a symbolic modulus P >= 2.
A bound is (a, b) meaning a*P + b, or None for +-infinity."""
from .core import *

NEG_INF = POS_INF = None
TY_RANGE = {"i32": (-(2 ** 31), 2 ** 31 - 1), "i64": (-(2 ** 63), 2 ** 63 - 1), "isize": (-(2 ** 63), 2 ** 63 - 1),
            "u32": (0, 2 ** 32 - 1), "u64": (0, 2 ** 64 - 1), "usize": (0, 2 ** 64 - 1), "i16": (-(2 ** 15), 2 ** 15 - 1), "i8": (-128, 127),
            "u8": (0, 255), "u16": (0, 65535)}


def ble(x, y):
    """x <= y for every P >= 2 ?  (x, y finite bounds)"""
    da, db = y[0] - x[0], y[1] - x[1]
    if da > 0:
        return da * 2 + db >= 0
    if da == 0:
        return db >= 0
    return False


def bmin(x, y):
    if ble(x, y):
        return x
    if ble(y, x):
        return y
    return None      # incomparable -> unknown


def badd(x, y):
    if x is None or y is None:
        return None
    return (x[0] + y[0], x[1] + y[1])


def bneg(x):
    return None if x is None else (-x[0], -x[1])


def const(c):
    return ((0, c), (0, c))


TOP = (None, None)


def show_b(b, inf):
    if b is None:
        return inf
    a, c = b
    if a == 0:
        return str(c)
    s = "P" if a == 1 else "%dP" % a
    return s if c == 0 else "%s%+d" % (s, c)


def show_iv(iv):
    return "[%s, %s]" % (show_b(iv[0], "-inf"), show_b(iv[1], "+inf"))


def within(iv, lo, hi):
    return iv[0] is not None and iv[1] is not None and ble(lo, iv[0]) and ble(iv[1], hi)


def is_modulus(t):
    return isinstance(t, tuple) and t and t[0] == "tyconst"


def eval_term(body, t, facts, depth=0):
    """interval of normalised term t given normalised atoms `facts` that hold at the point of evaluation"""
    k = t[0]
    if k == "int":
        return const(t[1])
    if is_modulus(t):
        return ((1, 0), (1, 0))
    if k == "cast":
        return eval_term(body, t[1], facts, depth)
    if k in ("param", "local"):
        ty = body.local_ty(t[1])
        lo, hi = TY_RANGE.get(ty, (None, None))
        lo = None if lo is None else (0, lo)
        hi = None if hi is None else (0, hi)
        for h in facts:
            if h[0] != "rel":
                continue
            l = lower_of(h)
            if l and l[0] == t and (lo is None or l[1] > lo[1]):
                lo = (0, l[1])
            u = upper_of(h)
            if u and u[0] == t and (hi is None or u[1] < hi[1]):
                hi = (0, u[1])
        return (lo, hi)
    if k == "field" and t[1][0] == "binop" and t[2] == "0":
        return eval_term(body, t[1], facts, depth)
    if k == "binop":
        op = t[1].replace("WithOverflow", "")
        a = eval_term(body, t[2], facts, depth + 1)
        b = eval_term(body, t[3], facts, depth + 1)
        if op == "Add":
            return (badd(a[0], b[0]), badd(a[1], b[1]))
        if op == "Sub":
            return (badd(a[0], bneg(b[1])), badd(a[1], bneg(b[0])))
        if op == "Rem" and is_modulus(t[3]):
            pm1 = (1, -1)
            nonneg = a[0] is not None and ble((0, 0), a[0])
            nonpos = a[1] is not None and ble(a[1], (0, 0))
            lo = (0, 0) if nonneg else bneg(pm1)
            hi = (0, 0) if nonpos else pm1
            return (lo, hi)
        return TOP
    if k == "unop" and t[1] == "Neg":
        a = eval_term(body, t[2], facts, depth + 1)
        return (bneg(a[1]), bneg(a[0]))
    if k == "call":
        if t[1].endswith("::rem_euclid") and len(t[2]) == 2 and is_modulus(t[2][1]):
            return ((0, 0), (1, -1))        # A2: rem_euclid(x, P) in [0, P-1] for P > 0
    return TOP
