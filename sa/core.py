"""Primitives of the rule engine: fact loading, CFG, dominators, origin terms, edge predicates,
validity windows, normalised atoms, panic regions, call graph.

Terms are nested tuples:
  ("param", n, name) ("local", n, name) ("int", v) ("str", s) ("fn", path) ("tyconst", s) ("constdef", path, v)
  ("ref", t) ("deref", t) ("field", t, name) ("variant", t, name) ("index", t, i) ("cast", t, ty)
  ("binop", op, a, b) ("unop", op, a) ("discr", t) ("agg", kind, (ops..))
  ("call", callee_def, (args..), (generic args..), bb, resolved_def)
"""
import collections, glob, json, os, re, sys

sys.setrecursionlimit(10000)


class AnchorMissing(Exception):
    pass


CMP = {"Lt", "Le", "Gt", "Ge", "Eq", "Ne"}
NEG = {"Lt": "Ge", "Le": "Gt", "Gt": "Le", "Ge": "Lt", "Eq": "Ne", "Ne": "Eq"}

PANIC_FNS = ("core::panicking::", "std::rt::begin_panic", "core::result::unwrap_failed", "core::option::unwrap_failed",
             "core::option::expect_failed", "std::rt::panic_fmt", "core::slice::index::slice_", "core::str::slice_error_fail",
             "core::cell::panic_already", "std::process::abort", "std::process::exit", "core::panicking::assert_failed")


class Facts:
    def __init__(self, path, crates=None):
        self.path = path
        self.bodies = {}
        self.promoted = {}
        self.adts = {}
        self.impls = []
        self.consts = {}
        self.statics = []
        self.crates = []
        self.test_bodies = {}      # bodies of test / bin / example crates (thorough tier), keyed (crate, def)
        files = sorted(glob.glob(os.path.join(path, "*.jsonl")))
        parsed = []
        for fn in files:
            recs = [json.loads(line) for line in open(fn)]
            inv = [r for r in recs if r["kind"] == "invocation"]
            cr = [r for r in recs if r["kind"] == "crate"][0]
            is_lib = cr["name"] == "rust_dsymbols" and inv and not inv[0]["test"] and "Rlib" in cr["crate_types"] or \
                (cr["name"] == "rust_dsymbols" and inv and not inv[0]["test"] and "lib" in str(cr["crate_types"]).lower())
            parsed.append((fn, recs, cr, inv[0] if inv else None, is_lib))
        self.root = None
        for fn, recs, cr, inv, is_lib in parsed:
            if is_lib and inv:
                self.root = inv["cwd"]
            self.crates.append({"name": cr["name"], "types": cr["crate_types"], "test": bool(inv and inv["test"]), "lib": bool(is_lib),
                                "bodies": sum(1 for r in recs if r["kind"] == "body" and "promoted" not in r)})
            for f in recs:
                k = f["kind"]
                if is_lib:
                    if k == "body":
                        if "promoted" in f:
                            self.promoted[(f["def"], f["promoted"])] = f
                        else:
                            self.bodies[f["def"]] = Body(f, self)
                    elif k == "adt":
                        self.adts[f["def"]] = f
                    elif k == "impl":
                        self.impls.append(f)
                    elif k == "const":
                        self.consts[f["def"]] = f
                    elif k == "static":
                        self.statics.append(f["def"])
                elif k == "body" and "promoted" not in f:
                    tag = cr["name"] + ("[test]" if inv and inv["test"] else "")
                    self.test_bodies[(tag, f["def"])] = Body(f, self)
        if not self.bodies:
            raise AnchorMissing("no library bodies loaded from " + path)
        self.closures = collections.defaultdict(list)
        for d, b in self.bodies.items():
            if b.f.get("closure_of"):
                self.closures[b.f["closure_of"]].append(d)
        self._cg = None
        self._getters = None

    # ---- lookup
    def body(self, name):
        b = self.bodies.get(name)
        if b is None:
            raise AnchorMissing("function not found: " + name)
        return b

    def find(self, pat):
        return sorted(d for d in self.bodies if pat in d)

    def with_closures(self, name):
        """body + all closures (transitively) defined inside it"""
        out = [self.body(name)]
        for c in sorted(self.closures.get(name, [])):
            out.append(self.bodies[c])
        return out

    def all_bodies(self, include_tests=False):
        bs = list(self.bodies.values())
        if include_tests:
            bs += list(self.test_bodies.values())
        return bs

    # ---- getters: fn(&self) -> self.field
    def getters(self):
        if self._getters is None:
            g = {}
            for d, b in self.bodies.items():
                if b.argc != 1 or b.f["def_kind"] == "Closure":
                    continue
                nb = [x for x in b.blocks.values() if not x["cleanup"]]
                if len(nb) != 1 or nb[0]["term"]["k"] != "return":
                    continue
                t = b.local_origin_at_return()
                t = strip(t)
                if t[0] == "field" and strip(t[1]) == ("param", 1, b.debug.get(1, "")):
                    g[d] = t[2]
            self._getters = g
        return self._getters

    # ---- call graph
    def callees_of(self, body):
        """list of (callee_def_or_resolved, term|None) including closures built and fn items passed"""
        out = []
        for bi, t in body.calls():
            c = t["callee"]
            if "def" in c:
                out.append((c.get("resolved") or c["def"], t))
                if c.get("resolved"):
                    out.append((c["def"], t))
                # Into::into -> From::from
                if c["def"].endswith("convert::Into::into") and len(c.get("args", [])) == 2:
                    out.append(("<%s as From<%s>>::from" % (c["args"][1], c["args"][0]), t))
                    out.append(("<%s as std::convert::From<%s>>::from" % (c["args"][1], c["args"][0]), t))
            for a in t["args"]:
                if a["k"] == "const" and "fn" in a:
                    out.append((a["fn"], None))
        for bi, si, s in body.assigns():
            rv = s["rv"]
            if rv["k"] == "aggregate" and rv.get("agg") == "closure":
                out.append((rv["def"], None))
            for o in rv_operands(rv):
                if o["k"] == "const" and "fn" in o:
                    out.append((o["fn"], None))
        return out

    def local_modules(self):
        if getattr(self, "_lm", None) is None:
            self._lm = {d.split("::")[0] for d in self.bodies if not d.startswith("<")} | {a.split("::")[0] for a in self.adts}
        return self._lm

    def resolve_targets(self, callee, local_traits_only=True):
        """local bodies a callee name may denote: itself, or (for unresolved methods of a trait defined in this
        crate) the default body + all impls.  Methods of foreign traits (Mul, Index, From ...) on a generic Self
        are not fanned out: any impl could be meant and matching by name would invent call edges."""
        if callee in self.bodies:
            res = [callee]
        else:
            res = []
        if local_traits_only:
            tp = callee
            if callee.startswith("<") and " as " in callee:
                tp = callee[callee.index(" as ") + 4:]
            if tp.split("::")[0].split("<")[0] not in self.local_modules():
                return res
        # trait method: "<X as path::Trait>::m" or "path::Trait::m"
        m = callee.rsplit("::", 1)
        if len(m) == 2:
            meth = m[1]
            tr = None
            if callee.startswith("<") and " as " in callee:
                tr = callee[callee.index(" as ") + 4: callee.rindex(">::")]
                tr = tr.split("<")[0]
            elif callee in self.bodies and self.bodies[callee].f.get("trait_default_of"):
                tr = self.bodies[callee].f["trait_default_of"]
            else:
                # maybe "path::Trait::m" naming a required method with no default body
                tr = m[0]
            for d, b in self.bodies.items():
                it = b.f.get("impl_trait")
                if it and d.endswith("::" + meth) and d.startswith("<"):
                    # impl_trait looks like "<Self as path::Trait<..>>"
                    tn = it[it.index(" as ") + 4:] if " as " in it else it
                    tn = tn.rstrip(">").split("<")[0]
                    if tn == tr and d not in res:
                        res.append(d)
        return res

    def reachable(self, entry, fanout=True, limit=None):
        seen = []
        seenset = set()
        todo = [entry]
        while todo:
            d = todo.pop()
            if d in seenset:
                continue
            b = self.bodies.get(d)
            if b is None:
                continue
            seenset.add(d)
            seen.append(d)
            for c in self.closures.get(d, []):
                todo.append(c)
            for cd, t in self.callees_of(b):
                if cd in self.bodies:
                    todo.append(cd)
                elif fanout:
                    for r in self.resolve_targets(cd):
                        todo.append(r)
        return seen


def rv_operands(rv):
    k = rv["k"]
    if k in ("use", "cast", "repeat"):
        return [rv["op"]]
    if k == "binop":
        return [rv["a"], rv["b"]]
    if k == "unop":
        return [rv["a"]]
    if k == "aggregate":
        return rv["ops"]
    return []


class Body:
    def __init__(self, f, facts=None):
        self.f = f
        self.facts = facts
        self.name = f["def"]
        self.blocks = {b["i"]: b for b in f["blocks"]}
        self.argc = f["arg_count"]
        self.debug = {}
        self.names = collections.defaultdict(list)
        for d in f["debug"]:
            v = d["val"]
            if "l" in v and not v["p"]:
                self.debug.setdefault(v["l"], d["name"])
                self.names[d["name"]].append(v["l"])
        self.defs = collections.defaultdict(list)   # local -> [(bb, idx|'term', kind, payload)]
        self.mutborrowed = set()
        for bi, b in self.blocks.items():
            if b["cleanup"]:
                continue
            for si, s in enumerate(b["stmts"]):
                if s["k"] == "assign":
                    p = s["place"]
                    if not any(e["k"] == "deref" for e in p["p"]):
                        self.defs[p["l"]].append((bi, si, "assign", s))
                    rv = s["rv"]
                    if rv["k"] in ("ref", "rawptr") and (rv.get("mut") or rv["k"] == "rawptr"):
                        if not any(e["k"] == "deref" for e in rv["place"]["p"]):
                            self.mutborrowed.add(rv["place"]["l"])
                elif s["k"] == "setdiscr":
                    self.defs[s["place"]["l"]].append((bi, si, "setdiscr", s))
            t = b["term"]
            if t["k"] == "call":
                if not any(e["k"] == "deref" for e in t["dest"]["p"]):
                    self.defs[t["dest"]["l"]].append((bi, "term", "call", t))
        self._succ = None
        self._pred = None
        self._dom = None
        self._ep = None
        self._memo = {}
        self._panic = None

    def __repr__(self):
        return "<Body %s>" % self.name

    def local_ty(self, l):
        return self.f["locals"][l]["ty"]

    # ---- iteration helpers
    def live_blocks(self):
        for bi, b in self.blocks.items():
            if not b["cleanup"]:
                yield bi, b

    def calls(self, pat=None, exact=None):
        for bi, b in self.live_blocks():
            t = b["term"]
            if t["k"] == "call":
                c = t["callee"]
                n = c.get("def", "")
                if exact is not None:
                    if n == exact or c.get("resolved") == exact:
                        yield bi, t
                elif pat is None or pat in n or pat in (c.get("resolved") or "") or pat in c.get("path_with_args", ""):
                    yield bi, t

    def assigns(self):
        for bi, b in self.live_blocks():
            for si, s in enumerate(b["stmts"]):
                if s["k"] == "assign":
                    yield bi, si, s

    # ---- CFG
    def succ(self):
        if self._succ is None:
            s = {}
            for bi, b in self.live_blocks():
                t = b["term"]
                k = t["k"]
                out = []
                if k == "goto":
                    out = [t["t"]]
                elif k == "switch":
                    out = [x[1] for x in t["targets"]] + [t["otherwise"]]
                elif k == "call":
                    if t["t"] is not None:
                        out = [t["t"]]
                elif k in ("assert", "drop"):
                    out = [t["t"]]
                s[bi] = [o for o in out if o in self.blocks and not self.blocks[o]["cleanup"]]
            self._succ = s
        return self._succ

    def pred(self):
        if self._pred is None:
            p = collections.defaultdict(list)
            for a, outs in self.succ().items():
                for o in outs:
                    p[o].append(a)
            self._pred = p
        return self._pred

    def reachable_blocks(self):
        succ = self.succ()
        reach = set()
        st = [0]
        while st:
            n = st.pop()
            if n in reach:
                continue
            reach.add(n)
            st.extend(succ.get(n, []))
        return reach

    def dom(self):
        """dict bb -> set of dominators (bb included)"""
        if self._dom is None:
            succ = self.succ()
            pred = self.pred()
            reach = self.reachable_blocks()
            dom = {n: set(reach) for n in reach}
            dom[0] = {0}
            changed = True
            order = sorted(reach)
            while changed:
                changed = False
                for n in order:
                    if n == 0:
                        continue
                    ps = [p for p in pred[n] if p in reach]
                    if not ps:
                        continue
                    new = set.intersection(*[dom[p] for p in ps]) | {n}
                    if new != dom[n]:
                        dom[n] = new
                        changed = True
            self._dom = dom
        return self._dom

    def dominates(self, a, b):
        return a in self.dom().get(b, ())

    def fwd(self, start, cut_edge=None, cut_nodes=()):
        succ = self.succ()
        seen = set()
        st = [start]
        while st:
            n = st.pop()
            if n in seen or n in cut_nodes:
                continue
            seen.add(n)
            for o in succ.get(n, []):
                if cut_edge and (n, o) == cut_edge:
                    continue
                st.append(o)
        return seen

    def bwd(self, start, cut_edge=None):
        pred = self.pred()
        seen = set()
        st = [start]
        while st:
            n = st.pop()
            if n in seen:
                continue
            seen.add(n)
            for p in pred.get(n, []):
                if cut_edge and (p, n) == cut_edge:
                    continue
                st.append(p)
        return seen

    def between(self, edge, site):
        """blocks on paths from edge target to site that do not re-traverse `edge`"""
        a, s = edge
        return self.fwd(s, cut_edge=edge) & self.bwd(site, cut_edge=edge)

    # ---- panic region
    def panic_blocks(self):
        """blocks from which every path ends in a diverging panic call / unreachable"""
        if self._panic is None:
            succ = self.succ()
            pan = set()
            for bi, b in self.live_blocks():
                t = b["term"]
                if t["k"] == "call" and t["t"] is None:
                    n = t["callee"].get("def", "")
                    if any(n.startswith(p) or p in n for p in PANIC_FNS):
                        pan.add(bi)
                if t["k"] == "unreachable":
                    pass
            changed = True
            while changed:
                changed = False
                for bi, b in self.live_blocks():
                    if bi in pan:
                        continue
                    outs = succ.get(bi, [])
                    t = b["term"]
                    if outs and all(o in pan for o in outs) and t["k"] in ("goto", "call", "drop", "switch", "assert"):
                        if t["k"] == "call" and t["t"] is None:
                            continue
                        pan.add(bi)
                        changed = True
            self._panic = pan
        return self._panic

    # ---- origin terms
    def origin(self, op, depth=24):
        k = op["k"]
        if k == "const":
            if "fn" in op:
                return ("fn", op["fn"])
            if "int" in op:
                return ("int", op["int"])
            if "str" in op:
                return ("str", op["str"])
            if "tyconst" in op:
                m = re.match(r"^(-?\d+)_[iu](?:size|\d+)$", op["tyconst"])      # a literal in a range pattern (`0..=9`)
                if m:
                    return ("int", int(m.group(1)))
                return ("tyconst", op["tyconst"])
            if "static" in op:
                return ("ref", ("static", op["static"]))
            if "uneval" in op:
                if "promoted" in op:
                    return self.promoted_origin(op["uneval"], op["promoted"])
                return ("constdef", op["uneval"], op.get("int"))
            return ("const?", op.get("dbg"))
        if k in ("copy", "move"):
            return self.place_origin(op["place"], depth)
        return ("?", str(op)[:40])

    def promoted_origin(self, defname, idx):
        f = self.facts.promoted.get((defname, idx)) if self.facts else None
        if f is None:
            return ("promoted", defname, idx)
        key = ("prom", defname, idx)
        if key not in self._memo:
            pb = Body(f, self.facts)
            self._memo[key] = ("ref", strip_ref_once(pb.local_origin(0, 12)))
        return self._memo[key]

    def place_origin(self, place, depth=24):
        t = self.local_origin(place["l"], depth)
        for e in place["p"]:
            ek = e["k"]
            if ek == "deref":
                t = t[1] if t[0] == "ref" else ("deref", t)
            elif ek == "field":
                if t[0] == "agg" and e["i"] < len(t[2]) and not t[1].startswith("closure"):
                    t = t[2][e["i"]]
                elif t[0] == "variant" and t[1][0] == "agg" and t[1][1].endswith("::" + str(t[2])) and e["i"] < len(t[1][2]):
                    t = t[1][2][e["i"]]
                else:
                    t = ("field", t, e["name"] or str(e["i"]))
            elif ek == "downcast":
                t = ("variant", t, e["name"])
            elif ek == "index":
                t = ("index", t, self.local_origin(e["l"], depth - 1))
            elif ek == "cindex":
                t = ("index", t, ("int", e["off"]))
            else:
                t = (ek, t)
        return t

    def local_ty_of_upvar(self, k):
        """type of captured variable number k of a closure body (from its debug info), references and regions stripped"""
        for dv in self.f.get("debug", []):
            v = dv.get("val") or {}
            if v.get("l") == 1:
                fl = [e for e in v.get("p", []) if e.get("k") == "field"]
                if len(fl) == 1 and fl[0].get("i") == k:
                    return fl[0].get("ty", "").replace("&'{erased} ", "&").replace("&mut ", "&")
        return None

    def is_stable_local(self, l):
        """a non-parameter local assigned exactly once, as a whole, and never mutably borrowed"""
        ds = self.defs.get(l, [])
        if len(ds) != 1 or l in self.mutborrowed:
            return False
        d = ds[0]
        if d[2] == "call":
            return not d[3]["dest"]["p"]
        if d[2] == "assign":
            return not d[3]["place"]["p"]
        return False

    def local_origin(self, l, depth=24):
        # memoised together with the depth budget it was computed with: a term cut off by a small budget (all_defs_origins uses 8) must not
        # be handed to a later caller that asks with the full budget (the result would depend on the order in which rules run)
        key = ("lo", l)
        hit = self._memo.get(key)
        if hit is not None and hit[1] >= depth:
            return hit[0]
        if 1 <= l <= self.argc:
            r = ("param", l, self.debug.get(l, ""))
            self._memo[key] = (r, 1 << 30)
            return r
        elif depth <= 0 or not self.is_stable_local(l):
            r = ("local", l, self.debug.get(l, ""))
            if depth <= 0:
                return r
            self._memo[key] = (r, 1 << 30)
            return r
        else:
            d = self.defs[l][0]
            self._memo[key] = (("local", l, self.debug.get(l, "")), 1 << 30)   # cycle guard
            if d[2] == "call":
                t = d[3]
                c = t["callee"]
                name = c.get("def") or "indirect"
                r = ("call", name, tuple(self.origin(a, depth - 1) for a in t["args"]), tuple(c.get("args", [])), d[0], c.get("resolved"))
            else:
                r = self.rv_origin(d[3]["rv"], depth - 1)
        self._memo[key] = (r, depth)
        return r

    def local_origin_at_return(self):
        return self.local_origin(0)

    def rv_origin(self, rv, depth=24):
        k = rv["k"]
        if k == "use":
            return self.origin(rv["op"], depth)
        if k == "ref":
            return ("ref", self.place_origin(rv["place"], depth))
        if k == "rawptr":
            return ("ref", self.place_origin(rv["place"], depth))
        if k == "copy_for_deref":
            return self.place_origin(rv["place"], depth)
        if k == "binop":
            return ("binop", rv["op"], self.origin(rv["a"], depth), self.origin(rv["b"], depth))
        if k == "unop":
            return ("unop", rv["op"], self.origin(rv["a"], depth))
        if k == "cast":
            return ("cast", self.origin(rv["op"], depth), rv["ty"])
        if k == "discr":
            return ("discr", self.place_origin(rv["place"], depth))
        if k == "repeat":
            return ("repeat", self.origin(rv["op"], depth), rv["n"])
        if k == "aggregate":
            kind = rv["agg"]
            if kind == "adt":
                kind = "adt:%s::%s" % (rv["adt"], rv["variant"])
            elif kind == "closure":
                kind = "closure:" + rv["def"]
            return ("agg", kind, tuple(self.origin(o, depth) for o in rv["ops"]))
        return ("rv?", k)

    def all_defs_origins(self, l, depth=24):
        """origin terms of every definition of a (possibly multi-defined) local"""
        out = []
        for d in self.defs.get(l, []):
            if d[2] == "call":
                t = d[3]
                c = t["callee"]
                if t["dest"]["p"]:
                    continue
                out.append((d[0], ("call", c.get("def") or "indirect", tuple(self.origin(a, depth) for a in t["args"]), tuple(c.get("args", [])), d[0], c.get("resolved"))))
            elif d[2] == "assign":
                if d[3]["place"]["p"]:
                    continue
                out.append((d[0], self.rv_origin(d[3]["rv"], depth)))
        return out

    # ---- edge predicates
    def edge_preds(self):
        """dict (src,dst) -> list of (term, ("eq", v) | ("ne", (vals..)))"""
        if self._ep is None:
            out = {}
            for bi, b in self.live_blocks():
                t = b["term"]
                if t["k"] == "switch":
                    d = self.origin(t["discr"])
                    vals = [v for v, _ in t["targets"]]
                    for v, tgt in t["targets"]:
                        out.setdefault((bi, tgt), []).append((d, ("eq", v)))
                    out.setdefault((bi, t["otherwise"]), []).append((d, ("ne", tuple(vals))))
                elif t["k"] == "assert":
                    d = self.origin(t["cond"])
                    out.setdefault((bi, t["t"]), []).append((d, ("eq", 1 if t["expected"] else 0)))
            self._ep = out
        return self._ep

    def dominating_edges(self, bb):
        """[(edge, (term,val))] for edges a->s with s dominating bb (or == bb), a->s the only non-back entry of s"""
        ep = self.edge_preds()
        pred = self.pred()
        dom = self.dom()
        res = []
        dset = dom.get(bb, ())
        for (a, s), ps in ep.items():
            if s not in dset:
                continue
            others = [p for p in pred[s] if p != a and s not in dom.get(p, ())]
            if others:
                continue
            if len(ps) != 1:
                # several switch values lead to the same target: values are a disjunction; keep as "in"
                terms = {p[0] for p in ps}
                if len(terms) == 1 and all(p[1][0] == "eq" for p in ps):
                    res.append(((a, s), (ps[0][0], ("in", tuple(p[1][1] for p in ps)))))
                continue
            res.append(((a, s), ps[0]))
        return res

    # ---- validity window
    def mutable_roots(self, term, acc=None, deep=True):
        """locals whose value may change over time and that the term reads: ("local",..) nodes and, when deep, locals/params
        passed by reference to calls inside the term.  A call term is a snapshot taken at its definition site: its value
        does not change afterwards, so the shallow form is enough for statements about that value; the deep form is needed
        when the term is to be matched against a *different* evaluation of the same call (e.g. inside a callee)."""
        if acc is None:
            acc = set()
        if not isinstance(term, tuple) or not term:
            return acc
        k = term[0]
        if k == "local":
            acc.add(term[1])
        elif k == "param":
            # a parameter is immutable unless assigned or mutably borrowed in the body
            if term[1] in self.mutborrowed or self.defs.get(term[1]):
                acc.add(term[1])
            elif "&mut" in self.local_ty(term[1]):
                acc.add(term[1])
        elif k in ("ref", "deref", "discr"):
            self.mutable_roots(term[1], acc, deep)
        elif k in ("field", "variant", "cast"):
            self.mutable_roots(term[1], acc, deep)
        elif k == "index":
            self.mutable_roots(term[1], acc, deep)
            self.mutable_roots(term[2], acc, deep)
        elif k == "binop":
            self.mutable_roots(term[2], acc, deep)
            self.mutable_roots(term[3], acc, deep)
        elif k == "unop":
            self.mutable_roots(term[2], acc, deep)
        elif k == "agg":
            for a in term[2]:
                self.mutable_roots(a, acc, deep)
        elif k == "call":
            if deep:
                for a in term[2]:
                    self.mutable_roots(a, acc, deep)
        return acc

    def mutations_in(self, blocks, local, site_bb=None):
        """does any statement/terminator in `blocks` possibly change the value reachable through `local`?"""
        is_mut_ref = "&mut" in self.local_ty(local)
        for bi in blocks:
            b = self.blocks[bi]
            for s in b["stmts"]:
                if s["k"] == "assign":
                    p = s["place"]
                    if p["l"] == local and (is_mut_ref or not any(e["k"] == "deref" for e in p["p"])):
                        return ("assign", bi)
                    rv = s["rv"]
                    if rv["k"] in ("ref", "rawptr") and (rv.get("mut") or rv["k"] == "rawptr") and rv["place"]["l"] == local and bi != site_bb:
                        # (in the site's own block the borrow is the one handed to the site call itself)
                        if is_mut_ref or not any(e["k"] == "deref" for e in rv["place"]["p"]):
                            return ("mutborrow", bi)
                    if is_mut_ref and rv["k"] == "use" and rv["op"]["k"] == "move" and rv["op"]["place"]["l"] == local:
                        return ("moved", bi)
                elif s["k"] == "setdiscr" and s["place"]["l"] == local:
                    return ("setdiscr", bi)
            t = b["term"]
            if bi == site_bb:
                continue          # the site itself is the terminator of its block
            if t["k"] == "call":
                if t["dest"]["l"] == local and (is_mut_ref or not any(e["k"] == "deref" for e in t["dest"]["p"])):
                    return ("calldest", bi)
                if is_mut_ref:
                    for a in t["args"]:
                        if a["k"] in ("move", "copy") and a["place"]["l"] == local:
                            return ("passed", bi)
            if t["k"] == "drop" and t["place"]["l"] == local:
                pass
        return None

    def pred_valid(self, edge, term, site_bb, deep=False):
        roots = self.mutable_roots(term, None, deep)
        if not roots:
            return True
        region = self.between(edge, site_bb)
        for l in roots:
            if self.mutations_in(region, l, site_bb):
                return False
        # reborrows: a &mut temp created from the root inside the region was caught by "mutborrow"
        return True

    # ---- atoms
    def facts_at(self, bb, deep=False):
        """atoms that hold whenever bb is entered and are still valid there.  deep=False: valid as statements about the
        values the guard looked at; deep=True: additionally nothing reachable from the arguments of calls inside the
        guard was changed between the guard and bb (needed when the guard speaks about an object's *state*)."""
        key = ("facts", bb, deep)
        if key in self._memo:
            return self._memo[key]
        out = []
        for edge, (term, val) in self.dominating_edges(bb):
            if not self.pred_valid(edge, term, bb, deep):
                continue
            for a in atoms_of(term, val):
                out.append(a)
        self._memo[key] = out
        return out

    def facts_at_flagged(self, bb):
        """[(atom, deep_ok)]"""
        key = ("factsf", bb)
        if key in self._memo:
            return self._memo[key]
        out = []
        for edge, (term, val) in self.dominating_edges(bb):
            if not self.pred_valid(edge, term, bb, False):
                continue
            dk = self.pred_valid(edge, term, bb, True)
            for a in atoms_of(term, val):
                out.append((a, dk))
        self._memo[key] = out
        return out

    def def_origin(self, t, depth=12):
        """for a ("local", l) term whose local has exactly one whole definition (it may be mutably borrowed later,
        e.g. an iterator): the origin of that definition; else the term itself"""
        t0 = strip(t)
        if t0[0] != "local":
            return t
        defs = self.all_defs_origins(t0[1], depth)
        if len(defs) == 1:
            return defs[0][1]
        return t

    def edge_atoms(self, edge):
        out = []
        for term, val in self.edge_preds().get(edge, []):
            out.extend(atoms_of(term, val))
        return out

    # ---- misc
    def return_blocks(self):
        return [bi for bi, b in self.live_blocks() if b["term"]["k"] == "return"]

    def span_of(self, bb, si=None):
        b = self.blocks[bb]
        if si is not None and si != "term":
            return short_span(b["stmts"][si].get("span", ""))
        return short_span(b["term"].get("span", self.f["span"]))


def short_span(sp):
    # "/repo/src/x.rs:10:5-10:9" -> "src/x.rs:10"
    if not sp:
        return ""
    p = sp.split(":")
    f = p[0]
    if "/src/" in f:
        f = "src/" + f.split("/src/", 1)[1]
    return "%s:%s" % (f, p[1] if len(p) > 1 else "?")


def strip_ref_once(t):
    return t[1] if t and t[0] == "ref" else t


def strip(t):
    """strip refs/derefs/copies/clone/int casts for comparison (outermost only)"""
    while True:
        if t[0] in ("ref", "deref"):
            t = t[1]
            continue
        if t[0] == "call" and t[1].endswith("clone::Clone::clone") and len(t[2]) == 1:
            t = t[2][0]
            continue
        if t[0] == "call" and (t[1].endswith("ops::Deref::deref") or t[1].endswith("borrow::Borrow::borrow") or t[1].endswith("convert::AsRef::as_ref")) and len(t[2]) == 1:
            t = t[2][0]
            continue
        return t


INT_TYS = {"usize", "isize", "u8", "u16", "u32", "u64", "u128", "i8", "i16", "i32", "i64", "i128"}


def norm(t, getters=None):
    """canonical form for comparison: no refs/derefs/clones, no bb markers, int casts removed, getters inlined"""
    if not isinstance(t, tuple) or not t:
        return t
    t = strip(t)
    k = t[0]
    if k == "cast":
        if t[2] in INT_TYS:
            return norm(t[1], getters)
        return ("cast", norm(t[1], getters), t[2])
    if k == "call":
        name = (t[5] if len(t) > 5 else None) or t[1]
        if getters and name in getters and len(t[2]) == 1:
            return ("field", norm(t[2][0], getters), getters[name])
        if getters and t[1] in getters and len(t[2]) == 1:
            return ("field", norm(t[2][0], getters), getters[t[1]])
        return ("call", t[1], tuple(norm(a, getters) for a in t[2]))
    if k in ("field", "variant"):
        return (k, norm(t[1], getters), t[2])
    if k == "index":
        return (k, norm(t[1], getters), norm(t[2], getters))
    if k == "binop":
        return (k, t[1], norm(t[2], getters), norm(t[3], getters))
    if k == "unop":
        return (k, t[1], norm(t[2], getters))
    if k == "discr":
        return (k, norm(t[1], getters))
    if k == "agg":
        return (k, t[1], tuple(norm(a, getters) for a in t[2]))
    if k == "param":
        return ("param", t[1], t[2])
    return t


def atoms_of(term, val):
    """edge predicate -> list of atoms
       ("rel", op, a, b) with op in Lt Le Eq Ne (Gt/Ge flipped)
       ("bool", term, truth)
       ("variant", term, idx) / ("notvariant", term, (idx..))
    """
    t = strip(term)
    truth = None
    if val[0] == "eq" and val[1] in (0, 1):
        truth = bool(val[1])
    elif val[0] == "ne" and val[1] == (0,):
        truth = True
    elif val[0] == "ne" and val[1] == (1,):
        truth = False
    if t[0] == "unop" and t[1] == "Not" and truth is not None:
        return atoms_of(t[2], ("eq", 0 if truth else 1))
    if t[0] == "discr":
        if val[0] == "eq":
            return [("variant", t[1], val[1])]
        if val[0] == "in":
            return [("invariant", t[1], val[1])]
        return [("notvariant", t[1], val[1])]
    if t[0] == "binop" and t[1] in CMP and truth is not None:
        op = t[1] if truth else NEG[t[1]]
        a, b = t[2], t[3]
        if op == "Gt":
            op, a, b = "Lt", b, a
        elif op == "Ge":
            op, a, b = "Le", b, a
        return [("rel", op, a, b)]
    if t[0] == "binop" and t[1] in ("BitAnd", "BitOr") and truth is not None:
        # non-short-circuit bool ops: a & b true -> both; a | b false -> neither
        if (t[1] == "BitAnd" and truth) or (t[1] == "BitOr" and not truth):
            return atoms_of(t[2], ("eq", int(truth))) + atoms_of(t[3], ("eq", int(truth)))
        return [("bool", t, truth)]
    if truth is not None:
        # for an integer-valued term "== 0" / "!= 0" is the same edge as false / true: emit both readings
        out = [("bool", t, truth), ("rel", "Ne" if truth else "Eq", t, ("int", 0))]
        if val == ("eq", 1):
            out.append(("rel", "Eq", t, ("int", 1)))
        # PartialEq::eq / ne / PartialOrd calls as relations too
        if t[0] == "call":
            n = t[1]
            m = {"cmp::PartialEq::eq": "Eq", "cmp::PartialEq::ne": "Ne", "cmp::PartialOrd::lt": "Lt", "cmp::PartialOrd::le": "Le",
                 "cmp::PartialOrd::gt": "Gt", "cmp::PartialOrd::ge": "Ge"}
            for suf, op in m.items():
                if n.endswith(suf) and len(t[2]) == 2:
                    op = op if truth else NEG[op]
                    a, b = t[2]
                    if op == "Gt":
                        op, a, b = "Lt", b, a
                    elif op == "Ge":
                        op, a, b = "Le", b, a
                    out.append(("rel", op, a, b))
            # (a..=b).contains(&x) / (a..b).contains(&x) true: both bounds (false is a disjunction: no atom)
            if truth and n.endswith("::contains") and "ops::Range" in n and len(t[2]) == 2:
                rg, x = strip(t[2][0]), strip(t[2][1])
                if rg[0] == "call" and rg[1].endswith("RangeInclusive::<Idx>::new") and len(rg[2]) == 2:
                    out += [("rel", "Le", rg[2][0], x), ("rel", "Le", x, rg[2][1])]
                elif rg[0] == "agg" and rg[1].endswith("ops::Range") and len(rg[2]) == 2:
                    out += [("rel", "Le", rg[2][0], x), ("rel", "Lt", x, rg[2][1])]
        return out
    if val[0] == "eq":
        return [("rel", "Eq", t, ("int", val[1]))]
    if val[0] == "ne":
        return [("relnotin", t, val[1])]
    if val[0] == "in":
        return [("relin", t, val[1])]
    return []


def negate_atom(a):
    k = a[0]
    if k == "rel":
        op, x, y = a[1], a[2], a[3]
        if op == "Lt":
            return ("rel", "Le", y, x)
        if op == "Le":
            return ("rel", "Lt", y, x)
        if op == "Eq":
            return ("rel", "Ne", x, y)
        if op == "Ne":
            return ("rel", "Eq", x, y)
    if k == "bool":
        return ("bool", a[1], not a[2])
    if k == "variant":
        return ("notvariant", a[1], (a[2],))
    return None


def atom_norm(a, getters=None):
    k = a[0]
    if k == "rel":
        return ("rel", a[1], norm(a[2], getters), norm(a[3], getters))
    if k == "bool":
        return ("bool", norm(a[1], getters), a[2])
    if k in ("variant", "notvariant", "invariant", "relnotin", "relin"):
        return (k, norm(a[1], getters), a[2])
    return a


def implies(have, need):
    """does normalised atom `have` imply normalised atom `need`? (same-term reasoning + integer constants)"""
    if have == need:
        return True
    if have[0] == "rel" and need[0] == "rel":
        ho, ha, hb = have[1:]
        no, na, nb = need[1:]
        if (ha, hb) == (na, nb):
            if ho == "Lt" and no in ("Le", "Ne"):
                return True
            if ho == "Eq" and no == "Le":
                return True
        if (ha, hb) == (nb, na):
            if ho == "Eq" and no in ("Eq", "Le"):
                return True
            if ho == "Ne" and no == "Ne":
                return True
            if ho == "Lt" and no == "Ne":
                return True
        # integer constant bounds on one term:  lower bounds  c <= x.  `need` counts as a bound only if it is one (an equation
        # x == c is both a lower and an upper bound and needs both)
        hl = lower_of(have)
        hu = upper_of(have)
        if no == "Eq":
            ne_ = lower_of(need)
            if ne_ and hl and hu and hl[0] == ne_[0] == hu[0] and hl[1] == ne_[1] == hu[1]:
                return True
        else:
            nl = lower_of(need)
            if hl and nl and hl[0] == nl[0] and hl[1] >= nl[1]:
                return True
            nu = upper_of(need)
            if hu and nu and hu[0] == nu[0] and hu[1] <= nu[1]:
                return True
        # Ne(x, c) is implied by bounds excluding c
        if no == "Ne":
            x, c = (na, nb) if nb[0] == "int" else (nb, na)
            if c[0] == "int":
                if hl and hl[0] == x and hl[1] > c[1]:
                    return True
                if hu and hu[0] == x and hu[1] < c[1]:
                    return True
    if have[0] == "variant" and need[0] == "notvariant" and have[1] == need[1]:
        return have[2] not in need[2]
    if have[0] == "notvariant" and need[0] == "variant" and have[1] == need[1]:
        # two-variant enums only (Option/Result/ControlFlow/bool-like)
        return set(have[2]) | {need[2]} == {0, 1} and need[2] not in have[2]
    if have[0] == "variant" and need[0] == "variant":
        return have[1] == need[1] and have[2] == need[2]
    return False


def lower_of(atom):
    """("rel",..) -> (term, c) meaning term >= c for an integer constant c (unsigned semantics for Ne 0)"""
    _, op, a, b = atom
    if a[0] == "int" and op == "Le":
        return (b, a[1])
    if a[0] == "int" and op == "Lt":
        return (b, a[1] + 1)
    if op == "Ne" and b[0] == "int" and b[1] == 0:
        return (a, 1)
    if op == "Ne" and a[0] == "int" and a[1] == 0:
        return (b, 1)
    if op == "Eq" and b[0] == "int":
        return (a, b[1])
    if op == "Eq" and a[0] == "int":
        return (b, a[1])
    return None


def upper_of(atom):
    _, op, a, b = atom
    if b[0] == "int" and op == "Le":
        return (a, b[1])
    if b[0] == "int" and op == "Lt":
        return (a, b[1] - 1)
    if op == "Eq" and b[0] == "int":
        return (a, b[1])
    if op == "Eq" and a[0] == "int":
        return (b, a[1])
    return None


def contradicts(have, clause_atom):
    """normalised `have` makes normalised `clause_atom` impossible"""
    n = negate_atom(clause_atom)
    return n is not None and implies(have, n)


def subterms(t):
    yield t
    if not isinstance(t, tuple):
        return
    k = t[0]
    if k in ("ref", "deref", "field", "variant", "cast", "discr"):
        yield from subterms(t[1])
    elif k == "index":
        yield from subterms(t[1])
        yield from subterms(t[2])
    elif k == "binop":
        yield from subterms(t[2])
        yield from subterms(t[3])
    elif k == "unop":
        yield from subterms(t[2])
    elif k in ("agg", "call"):
        for a in t[2]:
            yield from subterms(a)
    elif k == "repeat":
        yield from subterms(t[1])
    elif k == "phi":
        for a in t[1]:
            yield from subterms(a)


def contains(t, pred):
    return any(pred(s) for s in subterms(t))


def is_call(t, suffix):
    t = strip(t)
    return t[0] == "call" and (t[1].endswith(suffix) or (len(t) > 5 and t[5] and t[5].endswith(suffix)))


def params_in(t, acc=None):
    """direct parameter origins: through refs/derefs, casts, arithmetic, tuple aggregates; not through calls/fields/index bases"""
    if acc is None:
        acc = set()
    if not isinstance(t, tuple) or not t:
        return acc
    k = t[0]
    if k == "param":
        acc.add(t[1])
        return acc
    if k in ("ref", "deref", "cast"):
        return params_in(t[1], acc)
    if k == "binop":
        params_in(t[2], acc)
        params_in(t[3], acc)
        return acc
    if k == "unop":
        return params_in(t[2], acc)
    if k == "agg":
        for a in t[2]:
            params_in(a, acc)
        return acc
    if k == "field" and t[1] and t[1][0] == "binop":
        return params_in(t[1], acc)
    return acc


def show(t, n=0):
    if not isinstance(t, tuple):
        return str(t)
    if not t:
        return "()"
    k = t[0]
    if k == "param":
        return "%s#%d" % (t[2] or "p", t[1])
    if k == "local":
        return "%s_%d" % (t[2] or "", t[1])
    if k == "int":
        return str(t[1])
    if k == "str":
        return repr(t[1])
    if k == "ref":
        return "&" + show(t[1], n)
    if k == "deref":
        return "*" + show(t[1], n)
    if k == "field":
        return show(t[1], n) + "." + str(t[2])
    if k == "variant":
        return "(%s as %s)" % (show(t[1], n), t[2])
    if k == "binop":
        return "%s(%s, %s)" % (t[1], show(t[2], n), show(t[3], n))
    if k == "unop":
        return "%s(%s)" % (t[1], show(t[2], n))
    if k == "call":
        nm = t[1]
        if n:
            nm = nm.split("::")[-1] if not nm.startswith("<") else nm.rsplit("::", 1)[-1]
        return "%s(%s)" % (nm, ", ".join(show(a, 1) for a in t[2]))
    if k == "agg":
        return "%s{%s}" % (t[1], ", ".join(show(a, 1) for a in t[2]))
    if k == "cast":
        return "(%s as %s)" % (show(t[1], n), t[2])
    if k == "discr":
        return "discr(%s)" % show(t[1], n)
    if k == "index":
        return "%s[%s]" % (show(t[1], n), show(t[2], n))
    if k == "constdef":
        return "%s=%s" % (t[1].split("::")[-1], t[2])
    if k == "fn":
        return "fn:" + t[1]
    return str(t)[:80]


def show_atom(a):
    k = a[0]
    if k == "rel":
        return "%s(%s, %s)" % (a[1], show(a[2], 1), show(a[3], 1))
    if k == "bool":
        return "%s%s" % ("" if a[2] else "!", show(a[1], 1))
    if k in ("variant", "notvariant", "invariant"):
        return "%s(%s, %s)" % (k, show(a[1], 1), a[2])
    if k in ("relnotin", "relin"):
        return "%s(%s, %s)" % (k, show(a[1], 1), a[2])
    return str(a)[:100]


def map_term(t, f):
    """rebuild a term bottom-up, applying f to every node (f returns a replacement or None to keep)"""
    if not isinstance(t, tuple) or not t:
        return t
    k = t[0]
    if k in ("ref", "deref", "discr"):
        n = (k, map_term(t[1], f))
    elif k in ("field", "variant", "cast"):
        n = (k, map_term(t[1], f), t[2])
    elif k == "index":
        n = (k, map_term(t[1], f), map_term(t[2], f))
    elif k == "binop":
        n = (k, t[1], map_term(t[2], f), map_term(t[3], f))
    elif k == "unop":
        n = (k, t[1], map_term(t[2], f))
    elif k == "call":
        n = (k, t[1], tuple(map_term(a, f) for a in t[2])) + tuple(t[3:])
    elif k == "agg":
        n = (k, t[1], tuple(map_term(a, f) for a in t[2]))
    elif k == "phi":
        n = (k, tuple(map_term(a, f) for a in t[1]))
    else:
        n = t
    r = f(n)
    return n if r is None else r


def closure_parts(t):
    """("agg", "closure:<def>", caps) -> (def, caps) else None"""
    t = strip(t)
    if t[0] == "agg" and isinstance(t[1], str) and t[1].startswith("closure:"):
        return t[1][8:], t[2]
    return None


def closure_result(facts, clo, getters=None):
    """normalised return-value origin of a closure with its captures replaced by the captured terms of the creating
    function; the closure's own arguments stay ("param", n>=2)"""
    cp = closure_parts(clo)
    if cp is None:
        return None
    cdef, caps = cp
    cb = facts.bodies.get(cdef)
    if cb is None:
        return None
    caps = [norm(c, getters) for c in caps]
    r = norm(cb.local_origin(0), getters)

    def f(n):
        if n[0] == "field" and n[1][0] == "param" and n[1][1] == 1 and str(n[2]).isdigit() and int(n[2]) < len(caps):
            return caps[int(n[2])]
        return None
    return map_term(r, f)


def closure_calls(facts, clo, getters=None):
    """[(callee_def, generic_args, [arg terms with captures substituted])] for the calls made directly in a closure body"""
    cp = closure_parts(clo)
    if cp is None:
        return []
    cdef, caps = cp
    cb = facts.bodies.get(cdef)
    if cb is None:
        return []
    caps = [norm(c, getters) for c in caps]

    def f(n):
        if n[0] == "field" and n[1][0] == "param" and n[1][1] == 1 and str(n[2]).isdigit() and int(n[2]) < len(caps):
            return caps[int(n[2])]
        return None
    out = []
    for bi, t in cb.calls():
        c = t["callee"]
        out.append((c.get("def", ""), c.get("args", []), [map_term(norm(cb.origin(a), getters), f) for a in t["args"]]))
    return out


def holds(facts, need, getters=None):
    """is the (normalised) atom `need` implied by one of the facts?"""
    return any(implies(atom_norm(h, getters), need) for h in facts)
