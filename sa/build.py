"""Driver build, fact extraction (cached by tree hash), scratch variants for mutants.

Everything that compiles goes through here.  All cargo invocations are offline and
serialised with flock on /verif/.cache/lock; scratch copies live under a mktemp dir
outside /repo and /verif and are removed as soon as their facts have been read.
"""
import contextlib, fcntl, glob, hashlib, json, os, shutil, subprocess, sys, tempfile, time

VERIF = os.path.dirname(os.path.dirname(os.path.abspath(__file__)))
REPO = os.environ.get("VERIF_REPO", "/repo")
CACHE = os.path.join(VERIF, ".cache")
DRV_SRC = os.path.join(VERIF, "tools", "mirfacts")
DRV_TGT = os.path.join(CACHE, "drv")
DRV_BIN = os.path.join(DRV_TGT, "release", "mirfacts")
TGT = os.path.join(CACHE, "tgt")
FACTS = os.path.join(CACHE, "facts")

OFFLINE_ENV = {"CARGO_NET_OFFLINE": "true", "GOPROXY": "off", "PIP_NO_INDEX": "1"}


class BuildFailed(Exception):
    pass


def _env(extra=None):
    e = dict(os.environ)
    e.update(OFFLINE_ENV)
    for k in ("RUSTC_WRAPPER", "RUSTC_WORKSPACE_WRAPPER", "RUSTFLAGS", "CARGO_TARGET_DIR", "CARGO_BUILD_TARGET_DIR"):
        e.pop(k, None)
    if extra:
        e.update(extra)
    return e


@contextlib.contextmanager
def lock(name="lock"):
    os.makedirs(CACHE, exist_ok=True)
    f = open(os.path.join(CACHE, name), "w")
    try:
        fcntl.flock(f, fcntl.LOCK_EX)
        yield
    finally:
        fcntl.flock(f, fcntl.LOCK_UN)
        f.close()


_sysroot = None


def nightly_sysroot():
    global _sysroot
    if _sysroot is None:
        _sysroot = subprocess.check_output(["rustc", "+nightly", "--print", "sysroot"], env=_env(), text=True).strip()
    return _sysroot


def _src_files(root):
    out = []
    for sub in ("src", "examples", "tests", "benches"):
        for dp, dn, fn in os.walk(os.path.join(root, sub)):
            dn.sort()
            for f in sorted(fn):
                out.append(os.path.join(dp, f))
    for f in ("Cargo.toml", "Cargo.lock", "build.rs"):
        p = os.path.join(root, f)
        if os.path.exists(p):
            out.append(p)
    return out


def tree_hash(root=None):
    root = root or REPO
    h = hashlib.sha256()
    for p in _src_files(root):
        h.update(os.path.relpath(p, root).encode())
        h.update(b"\0")
        with open(p, "rb") as f:
            h.update(hashlib.sha256(f.read()).digest())
    return h.hexdigest()[:20]


def driver_hash():
    h = hashlib.sha256()
    for p in sorted(glob.glob(os.path.join(DRV_SRC, "src", "*.rs"))) + [os.path.join(DRV_SRC, "Cargo.toml")]:
        h.update(open(p, "rb").read())
    return h.hexdigest()[:12]


def ensure_driver(verbose=False):
    stamp = os.path.join(DRV_TGT, "stamp")
    want = driver_hash()
    if os.path.exists(DRV_BIN) and os.path.exists(stamp) and open(stamp).read() == want:
        return
    with lock():
        if os.path.exists(DRV_BIN) and os.path.exists(stamp) and open(stamp).read() == want:
            return
        r = subprocess.run(["cargo", "+nightly", "build", "--release", "--offline"], cwd=DRV_SRC,
                           env=_env({"CARGO_TARGET_DIR": DRV_TGT}), capture_output=True, text=True)
        if r.returncode != 0 or not os.path.exists(DRV_BIN):
            raise BuildFailed("driver build failed:\n" + r.stderr[-4000:])
        open(stamp, "w").write(want)
        if verbose:
            print("built mirfacts driver", file=sys.stderr)


def _run_cargo(root, outdir, all_targets):
    """cargo +nightly check through the driver; returns stderr tail"""
    # cargo replays cached diagnostics without calling the wrapper when fingerprints are fresh
    for d in glob.glob(os.path.join(TGT, "debug", ".fingerprint", "rust_dsymbols-*")):
        shutil.rmtree(d, ignore_errors=True)
    env = _env({
        "LD_LIBRARY_PATH": nightly_sysroot() + "/lib",
        "RUSTFLAGS": "-Zmir-opt-level=0 -Awarnings",
        "RUSTC_WORKSPACE_WRAPPER": DRV_BIN,
        "MIRFACTS_OUT": outdir,
        "CARGO_TARGET_DIR": TGT,
    })
    cmd = ["cargo", "+nightly", "check", "--offline", "--manifest-path", os.path.join(root, "Cargo.toml")]
    cmd += ["--all-targets"] if all_targets else ["--lib"]
    r = subprocess.run(cmd, env=env, capture_output=True, text=True)
    if r.returncode != 0:
        raise BuildFailed("cargo check of %s failed:\n%s" % (root, r.stderr[-6000:]))
    return r.stderr


def facts_dir(all_targets=False, root=None, verbose=False):
    """Directory with fresh fact files for the tree at `root` (default /repo); cached by content hash."""
    root = root or REPO
    ensure_driver(verbose)
    h = tree_hash(root) + "-" + driver_hash() + ("-all" if all_targets else "-lib")
    d = os.path.join(FACTS, h)
    ok = os.path.join(d, "OK")
    if os.path.exists(ok):
        return d
    with lock():
        if os.path.exists(ok):
            return d
        tmp = d + ".tmp%d" % os.getpid()
        shutil.rmtree(tmp, ignore_errors=True)
        os.makedirs(tmp)
        t0 = time.time()
        try:
            _run_cargo(root, tmp, all_targets)
        except BuildFailed:
            shutil.rmtree(tmp, ignore_errors=True)
            raise
        files = glob.glob(os.path.join(tmp, "*.jsonl"))
        if not files:
            shutil.rmtree(tmp, ignore_errors=True)
            raise BuildFailed("driver produced no fact file for %s (stale cargo cache?)" % root)
        open(os.path.join(tmp, "OK"), "w").write("%.1f" % (time.time() - t0))
        shutil.rmtree(d, ignore_errors=True)
        os.rename(tmp, d)
        _prune()
    return d


def _prune(keep=40):
    ds = sorted(glob.glob(os.path.join(FACTS, "*")), key=os.path.getmtime)
    for d in ds[:-keep]:
        shutil.rmtree(d, ignore_errors=True)


def lib_invocation(fdir):
    """the recorded rustc invocation for the (non-test) library crate"""
    for fn in glob.glob(os.path.join(fdir, "*.jsonl")):
        with open(fn) as f:
            for line in f:
                if line.startswith('{"kind":"invocation"'):
                    inv = json.loads(line)
                    if inv["crate"] == "rust_dsymbols" and not inv["test"] and "lib" in " ".join(inv["argv"]):
                        if any(a == "lib" or a.startswith("lib") for a in _crate_types(inv["argv"])):
                            return inv
    return None


def _crate_types(argv):
    out = []
    for i, a in enumerate(argv):
        if a == "--crate-type" and i + 1 < len(argv):
            out.append(argv[i + 1])
    return out


def make_scratch(root=None):
    """copy of the repository sources (no target/, no .git) in a fresh temp dir"""
    root = root or REPO
    d = tempfile.mkdtemp(prefix="rdsv-")
    for p in _src_files(root):
        rel = os.path.relpath(p, root)
        os.makedirs(os.path.dirname(os.path.join(d, rel)) or d, exist_ok=True)
        shutil.copy2(p, os.path.join(d, rel))
    return d


def variant_facts(edits, base_fdir, root=None):
    """Apply textual edits [(relpath, old, new)] to a scratch copy, analyse the library crate with the
    recorded flags (driver invoked directly, no cargo, so runs can go in parallel), return
    (facts_dir_tmp, scratch) -- caller must call cleanup(scratch).  Raises KeyError if an edit does not apply."""
    root = root or REPO
    inv = lib_invocation(base_fdir)
    if inv is None:
        raise BuildFailed("no recorded library invocation in " + base_fdir)
    sc = make_scratch(root)
    try:
        for e in edits:
            rel, old, new = e[0], e[1], e[2]
            nth = e[3] if len(e) > 3 else None
            p = os.path.join(sc, rel)
            s = open(p).read()
            if nth is None:
                if s.count(old) != 1:
                    raise KeyError("edit does not apply exactly once in %s (%d matches)" % (rel, s.count(old)))
                s = s.replace(old, new)
            else:
                parts = s.split(old)
                if len(parts) - 1 != e[4] if len(e) > 4 else len(parts) - 1 <= nth:
                    raise KeyError("edit expects occurrence %d of %s in %s (%d matches)" % (nth, old[:30], rel, len(parts) - 1))
                s = old.join(parts[:nth + 1]) + new + old.join(parts[nth + 1:])
            open(p, "w").write(s)
        out = os.path.join(sc, "_facts")
        os.makedirs(out)
        argv = list(inv["argv"])
        # argv[0] = driver, argv[1] = rustc path (dropped by the driver itself)
        args = []
        skip = False
        for i, a in enumerate(argv[1:]):
            if skip:
                skip = False
                continue
            if a == "--out-dir":
                args += [a, os.path.join(sc, "_out")]
                skip = True
                continue
            if a.startswith("incremental=") and args and args[-1] == "-C":
                args.pop()
                continue
            if a.startswith("-Cincremental="):
                continue
            if a.startswith("--emit="):
                args.append("--emit=metadata")
                continue
            args.append(a)
        os.makedirs(os.path.join(sc, "_out"))
        env = _env({"LD_LIBRARY_PATH": nightly_sysroot() + "/lib", "MIRFACTS_OUT": out})
        for k, v in inv["env"]:
            if k in ("CARGO_MANIFEST_DIR",):
                v = sc
            if k == "CARGO_MANIFEST_PATH":
                v = os.path.join(sc, "Cargo.toml")
            env[k] = v
        r = subprocess.run([DRV_BIN] + args, cwd=sc, env=env, capture_output=True, text=True)
        if r.returncode != 0 or not glob.glob(os.path.join(out, "*.jsonl")):
            raise BuildFailed("variant does not compile:\n" + r.stderr[-3000:])
        return out, sc
    except Exception:
        shutil.rmtree(sc, ignore_errors=True)
        raise


def cleanup(scratch):
    shutil.rmtree(scratch, ignore_errors=True)
