"""Obligation bookkeeping, known findings, evidence files."""
import json, os, time

VERIF = os.path.dirname(os.path.dirname(os.path.abspath(__file__)))


def _sample(obs, per_rule=4, cap=160):
    """up to `per_rule` obligations of every rule (so that each rule family is visible in the evidence), violations first"""
    out, seen = [], {}
    for o in sorted(obs, key=lambda o: o.get("status") == "ok"):
        k = o.get("rule")
        if seen.get(k, 0) < per_rule:
            seen[k] = seen.get(k, 0) + 1
            out.append(o)
    return out[:cap]


def _by_rule(obs):
    d = {}
    for o in obs:
        r = d.setdefault(o.get("rule"), {"obligations": 0, "ok": 0})
        r["obligations"] += 1
        r["ok"] += o.get("status") == "ok"
    return d

class Ctx:
    """collects what one evaluation of a property's rules decided"""

    def __init__(self, prop, facts, tier="quick"):
        self.prop = prop
        self.facts = facts
        self.tier = tier
        self.obs = []          # obligations
        self.anchors = []      # def paths resolved
        self.floors = {}       # name -> (measured, minimum)
        self.notes = []
        self.clauses = []      # clause descriptions decided
        self.scanned_bodies = 0
        self.scanned_calls = 0
        self.sweep = []        # informational crate-wide sweep (thorough)

    # -- anchors
    def body(self, name):
        b = self.facts.body(name)     # raises AnchorMissing
        if name not in self.anchors:
            self.anchors.append(name)
        return b

    def scan(self, bodies):
        bodies = list(bodies)
        self.scanned_bodies += len(bodies)
        for b in bodies:
            self.scanned_calls += sum(1 for _ in b.calls())
        return bodies

    # -- obligations
    def ob(self, rule, fn, site, status, detail="", span="", premises=None):
        """status: ok | violation | undecided | invariant-justified"""
        assert status in ("ok", "violation", "undecided", "invariant-justified"), status
        rec = {"rule": rule, "function": fn, "site": site, "status": status, "detail": detail, "span": span,
               "key": "%s|%s|%s|%s" % (self.prop, rule, fn, site)}
        if premises:
            rec["premises"] = premises
        self.obs.append(rec)
        return status == "ok"

    def require(self, cond, rule, fn, site, detail_ok="", detail_bad="", span="", premises=None):
        return self.ob(rule, fn, site, "ok" if cond else "violation", detail_ok if cond else (detail_bad or detail_ok), span, premises)

    def floor(self, name, measured, minimum):
        self.floors[name] = (measured, minimum)
        if measured < minimum:
            self.ob("floor", name, "count", "violation",
                    "rule matched %d instances, fewer than the %d confirmed by hand on the reference tree: the rule would pass vacuously" % (measured, minimum))

    def violations(self):
        return [o for o in self.obs if o["status"] == "violation"]


def load_known():
    p = os.path.join(VERIF, "known_findings.json")
    if not os.path.exists(p):
        return []
    return json.load(open(p))["findings"]


def split_known(prop, violations):
    """-> (new_violations, known_open) ; only status=open entries with an exactly equal key suppress"""
    known = {k["key"]: k for k in load_known() if k.get("status") == "open" and k["property"] == prop}
    new, old = [], []
    for v in violations:
        (old if v["key"] in known else new).append(v)
    return new, old


def write_evidence(prop, tier, seed, ctx, wall, explanation, selftest, new_viol, known_viol, extra=None, trusted=None, assumptions=None):
    obs = ctx.obs
    decided = [o for o in obs if o["status"] in ("ok", "violation")]
    sites = {(o["function"], o["site"]) for o in decided}
    cov = {
        "explanation": explanation,
        "evaluations": len(obs),
        "distinct_nontrivial": len(sites),
        "rule": "one evaluation per (rule instance, program site); a site is non-trivial when it carries at least one premise "
                "that had to be discharged from the MIR (ok or violation), distinct by (function, site signature)",
        "obligations": len(decided),
        "discharged": len([o for o in decided if o["status"] == "ok"]),
        "undecided": [o for o in obs if o["status"] == "undecided"],
        "invariant_justified": len([o for o in obs if o["status"] == "invariant-justified"]),
        "analysed": {"crates": ctx.facts.crates, "library_bodies_loaded": len(ctx.facts.bodies),
                     "other_target_bodies_loaded": len(ctx.facts.test_bodies),
                     "bodies_scanned_by_rules": ctx.scanned_bodies, "call_sites_visited": ctx.scanned_calls},
        "anchors": ctx.anchors,
        "floors": {k: {"measured": v[0], "minimum": v[1]} for k, v in ctx.floors.items()},
        "clauses_decided": ctx.clauses,
        "selftest": selftest,
        "samples": [{k: o[k] for k in ("rule", "function", "site", "status", "detail", "span") if o.get(k)} for o in _sample(obs)],
        "obligations_by_rule": _by_rule(obs),
        "exhaustive": True,
        "checker_cmd": "./check %s %s" % (prop, tier),
        "trusted_base": trusted or [],
        "violations_new": [v["key"] for v in new_viol],
        "known_findings_reported": [v["key"] for v in known_viol],
        "notes": ctx.notes,
    }
    if ctx.sweep:
        cov["crate_sweep"] = ctx.sweep
    if extra:
        cov.update(extra)
    ev = {
        "property_id": prop, "tier": tier, "seed": seed, "level": "other", "coverage": cov,
        "assumptions": assumptions or [], "wall_s": round(wall, 2), "violations": len(new_viol),
    }
    d = os.path.join(VERIF, "evidence")
    os.makedirs(d, exist_ok=True)
    tmp = os.path.join(d, prop + ".json.tmp%d" % os.getpid())
    json.dump(ev, open(tmp, "w"), indent=1, default=str)
    os.replace(tmp, os.path.join(d, prop + ".json"))
    # violation replay files
    vd = os.path.join(d, prop + ".violations")
    if os.path.isdir(vd):
        for f in os.listdir(vd):
            os.unlink(os.path.join(vd, f))
    paths = []
    if new_viol:
        os.makedirs(vd, exist_ok=True)
        for i, v in enumerate(new_viol):
            p = os.path.join(vd, "%d.json" % i)
            json.dump(v, open(p, "w"), indent=1, default=str)
            paths.append(p)
    return paths
