"""debug helper: python3 -m sa.show <pattern> [exact-def|*]  -- pretty-print MIR facts of matching bodies"""
import json, sys, glob, os
from . import build

def P(p):
    s = "_%d" % p["l"]
    for e in p["p"]:
        k = e["k"]
        if k == "deref": s = "(*%s)" % s
        elif k == "field": s = "%s.%s" % (s, e["name"] or e["i"])
        elif k == "index": s = "%s[_%d]" % (s, e["l"])
        elif k == "downcast": s = "(%s as %s)" % (s, e["name"])
        else: s = "%s.<%s>" % (s, k)
    return s
def O(o):
    if o["k"] in ("copy", "move"): return ("move " if o["k"] == "move" else "") + P(o["place"])
    if o["k"] == "const":
        if "fn" in o: return "fn:" + o["fn"]
        if "int" in o: return "const %s:%s" % (o["int"], o["ty"])
        if "str" in o: return "const %r" % o["str"]
        return "const<%s>" % o["dbg"]
    return str(o)
def R(r):
    k = r["k"]
    if k == "use": return O(r["op"])
    if k == "ref": return ("&mut " if r["mut"] else "&") + P(r["place"])
    if k == "binop": return "%s(%s, %s)" % (r["op"], O(r["a"]), O(r["b"]))
    if k == "unop": return "%s(%s)" % (r["op"], O(r["a"]))
    if k == "cast": return "%s as %s [%s]" % (O(r["op"]), r["ty"], r["kind"])
    if k == "aggregate":
        if r["agg"] == "adt": return "%s::%s{%s}" % (r["adt"], r["variant"], ", ".join("%s: %s" % (f, O(o)) for f, o in zip(r["fields"], r["ops"])))
        return "%s(%s)" % (r["agg"] + (":" + r["def"] if "def" in r else ""), ", ".join(O(o) for o in r["ops"]))
    if k == "discr": return "discr(%s)" % P(r["place"])
    if k == "copy_for_deref": return "deref_copy " + P(r["place"])
    return str(r)

def main():
    d = os.environ.get("FACTS") or build.facts_dir()
    pat = sys.argv[1]
    for fn in glob.glob(d + "/*.jsonl"):
        for line in open(fn):
            f = json.loads(line)
            if f["kind"] != "body" or pat not in f["def"]: continue
            if len(sys.argv) > 2 and f["def"] != sys.argv[2] and sys.argv[2] != "*": continue
            print("=== ", f["def"], f["def_kind"], f.get("impl_self"), f.get("impl_trait"), f.get("closure_of"), "promoted" in f and f["promoted"], f["span"])
            print("   debug:", [(d_["name"], P(d_["val"]) if "l" in d_["val"] else "c") for d_ in f["debug"]])
            if os.environ.get("LOCALS"): print("   locals:", [(l["i"], l["ty"]) for l in f["locals"]])
            for b in f["blocks"]:
                if b["cleanup"]: continue
                print(" bb%d:" % b["i"])
                for s in b["stmts"]:
                    if s["k"] == "assign": print("    %s = %s" % (P(s["place"]), R(s["rv"])))
                    else: print("    ", s)
                t = b["term"]; k = t["k"]
                if k == "call":
                    c = t["callee"]
                    print("    %s = CALL %s(%s) -> bb%s   [resolved=%s]" % (P(t["dest"]), c.get("path_with_args", c.get("indirect")), ", ".join(O(a) for a in t["args"]), t["t"], c.get("resolved")))
                elif k == "switch": print("    switch %s -> %s else bb%d" % (O(t["discr"]), t["targets"], t["otherwise"]))
                elif k == "assert":
                    m = t["msg"]; print("    ASSERT %s==%s  %s(%s) -> bb%d" % (O(t["cond"]), t["expected"], m["k"], ", ".join("%s=%s" % (kk, O(v) if isinstance(v, dict) else v) for kk, v in m.items() if kk != "k"), t["t"]))
                elif k == "drop": print("    drop %s -> bb%d" % (P(t["place"]), t["t"]))
                else: print("    ", t)
main()
