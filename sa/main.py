"""Entry point:  python3 -m sa.main <Cxx> <quick|thorough>  |  --replay <path>  |  --setup  |  --all <tier>"""
import concurrent.futures, glob, hashlib, importlib, json, os, subprocess, sys, time, traceback

from . import build, core, report

VERIF = build.VERIF
PROPS = ["C%02d" % i for i in range(1, 21)]


def engine_hash():
    h = hashlib.sha256()
    for p in sorted(glob.glob(os.path.join(VERIF, "sa", "**", "*.py"), recursive=True)) + \
            sorted(glob.glob(os.path.join(VERIF, "sa", "tables", "*.json"))) + \
            sorted(glob.glob(os.path.join(VERIF, "mutants", "*.json"))) + sorted(glob.glob(os.path.join(VERIF, "harmless", "*.json"))):
        h.update(open(p, "rb").read())
    return h.hexdigest()[:12]


def load_rules(prop):
    return importlib.import_module("sa.rules." + prop.lower())


def evaluate(prop, facts, tier):
    """run the property's rules over a fact set -> Ctx (anchor loss is a violation: fail closed)"""
    mod = load_rules(prop)
    ctx = report.Ctx(prop, facts, tier)
    try:
        mod.run(ctx)
        from . import structure
        files = anchor_files(prop)
        if files:
            rel = relevant_functions(prop, facts)
            ctx.notes.append("generic rules T10-T13 applied to %d functions reachable from the property's mechanism within its anchor files" % len(rel))
            n = structure.check(ctx, files, relevant=rel)
            ctx.clauses.append("frozen loop structure of the anchor files %s: every continuing iteration reaches the reference calls, no new early exit, no new carried state (T10, %d loops)" % (sorted(files), n))
            n2 = structure.check_ranges(ctx, files, relevant=rel)
            ctx.clauses.append("accessor ranges of the anchor files: loops handing operation indices / chambers to D-set accessors still end inclusively at dim() / size() where the reference did (T12, %d sites)" % n2)
            n3 = structure.check_update_order(ctx, files, relevant=rel)
            n4 = structure.check_flows(ctx, files, relevant=rel)
            if any(f in structure.WORD_FILES for f in files):
                n5 = structure.check_words(ctx, files)
                ctx.clauses.append("chamber words in argument slots and tests of the simplification moves equal the reference surgery modulo d.i.i = d and commuting operations (T18, %d functions)" % n5)
            ctx.clauses.append("tuple components reach the same argument slots as on the reference tree (T17, %d functions)" % n4)
            ctx.clauses.append("update order of loop-carried variables: each is read on the same side of its in-iteration overwrite as on the reference tree (T16, %d functions with loops)" % n3)
    except core.AnchorMissing as e:
        ctx.ob("anchor", str(e), "missing", "violation",
               "an anchor confirmed on the reference tree is gone; the rule instance cannot be evaluated (fail closed)")
    except (TypeError, IndexError, KeyError, AttributeError, ValueError) as e:
        # a rule met a code shape it does not understand (never on the reference tree, which every commit of /verif is run against): the
        # shape the rule was written for is gone, which is the same situation as a lost anchor - reported, not crashed
        import traceback
        tb = traceback.extract_tb(e.__traceback__)
        where = next((f for f in reversed(tb) if "/rules/" in f.filename or "structure.py" in f.filename), tb[-1])
        ctx.ob("anchor", "%s in %s" % (type(e).__name__, where.name), "shape not understood", "violation",
               "the code the rule %s() was written for has a shape the rule cannot read (%s: %s); the rule instance cannot be evaluated (fail closed)" % (where.name, type(e).__name__, str(e)[:80]))
    return ctx


_ANCHOR_FILES = {}
_MECH = {}


def relevant_functions(prop, facts):
    """functions the generic, table-driven rules (T10-T13) are applied to under this property: those whose body overlaps one of the
    property's mechanism ranges (properties.jsonl, start line within +-3 lines, for the drift caused by the fix: commits) and everything they can reach in
    the call graph, restricted to the property's anchor files.  A change in a function that the property's mechanism cannot reach is not
    this property's business even if it sits in one of its anchor files."""
    import re
    if not _MECH:
        for l in open(os.path.join(VERIF, "properties.jsonl")):
            p = json.loads(l)
            rs = []
            for m in p["anchors"].get("mechanism", []):
                w = m.get("where", "")
                f = w.split(":")[0]
                for a, z in re.findall(r"(\d+)-(\d+)", w):
                    rs.append((f, int(a), int(z)))
            _MECH[p["id"]] = rs
    files = anchor_files(prop)
    from . import structure
    roots = []
    for d, b in facts.bodies.items():
        sp = b.f.get("span", "")
        m = re.match(r"(?:.*/)?(src/[^:]+):(\d+):\d+-(\d+):", sp)
        if not m:
            continue
        f, lo, hi = m.group(1), int(m.group(2)), int(m.group(3))
        if any(f == mf and a - 3 <= lo <= z + 3 for mf, a, z in _MECH.get(prop, [])):      # the function STARTS inside the range
            roots.append(d)
    out = set()
    for r in roots:
        if r in out:
            continue
        for d in facts.reachable(r):
            out.add(d)
    return {d for d in out if structure.file_of(facts.bodies[d]) in files}


def anchor_files(prop):
    if not _ANCHOR_FILES:
        for l in open(os.path.join(VERIF, "properties.jsonl")):
            p = json.loads(l)
            _ANCHOR_FILES[p["id"]] = {f for f in p["anchors"].get("files", []) if f.endswith(".rs")}
    return _ANCHOR_FILES.get(prop, set())


def load_mutants(prop):
    out = []
    for sub in ("mutants", "harmless"):
        p = os.path.join(VERIF, sub, prop + ".json")
        if os.path.exists(p):
            ms = json.load(open(p))
            if sub == "harmless":
                for m in ms:
                    m["expect_clean"] = True
            out += ms
    return out


def run_mutant(args):
    prop, m, base_fdir, base_keys, tier = args
    cache_dir = os.path.join(build.CACHE, "mutants")
    os.makedirs(cache_dir, exist_ok=True)
    ck = hashlib.sha256(json.dumps([os.path.basename(base_fdir), engine_hash(), prop, m], sort_keys=True).encode()).hexdigest()[:24]
    cp = os.path.join(cache_dir, ck + ".json")
    if os.path.exists(cp):
        try:
            return json.load(open(cp))
        except ValueError:
            pass                      # a concurrent writer: recompute
    edits = m.get("edits") or [[m["file"], m["old"], m["new"]] + ([m["nth"], m["count"]] if "nth" in m else [])]
    res = {"id": m["id"], "status": None, "reported": []}
    try:
        out, sc = build.variant_facts([tuple(e) for e in edits], base_fdir)
    except KeyError as e:
        res["status"] = "not-applicable"
        res["detail"] = str(e)
        return res
    except build.BuildFailed as e:
        res["status"] = "does-not-compile"
        res["detail"] = str(e)[-600:]
        return res
    try:
        facts = core.Facts(out)
        ctx = evaluate(prop, facts, "quick")
        new = [v["key"] for v in ctx.violations() if v["key"] not in base_keys]
        res["reported"] = new[:8]
        if m.get("expect_clean"):
            # a behaviour-preserving variant: any new violation is a false alarm of the checker
            res["status"] = "clean" if not new else "FALSE-ALARM"
        else:
            exp = m.get("expect", "")
            hit = [k for k in new if exp in k]
            res["status"] = "reported" if hit else "MISSED"
    finally:
        build.cleanup(sc)
    tmp = cp + ".tmp%d" % os.getpid()
    json.dump(res, open(tmp, "w"))
    os.replace(tmp, cp)
    return res


def selftest(prop, base_fdir, base_ctx, tier):
    if os.environ.get("VERIF_NO_SELFTEST"):      # used by tools/run_seeded.py only (the tree is deliberately broken there)
        return []
    muts = load_mutants(prop)
    if tier == "quick":
        can = [m for m in muts if m.get("canary")]
        muts = can[:1] or [m for m in muts if not m.get("expect_clean")][:1]
    base_keys = {v["key"] for v in base_ctx.violations()}
    jobs = [(prop, m, base_fdir, base_keys, tier) for m in muts]
    results = []
    if len(jobs) > 1:
        with concurrent.futures.ProcessPoolExecutor(max_workers=min(12, len(jobs))) as ex:
            results = list(ex.map(run_mutant, jobs))
    else:
        results = [run_mutant(j) for j in jobs]
    return results


def run_witnesses(prop):
    """compile-fail witnesses (type-level clauses), thorough tier"""
    wdir = os.path.join(VERIF, "witness")
    tbl = os.path.join(wdir, "witnesses.json")
    if not os.path.exists(tbl):
        return None
    items = [w for w in json.load(open(tbl)) if prop in w["properties"]]
    if not items:
        return None
    import shutil
    shutil.copy(os.path.join(build.REPO, "Cargo.lock"), os.path.join(wdir, "Cargo.lock"))
    with build.lock("witness.lock"):
        r = subprocess.run(["cargo", "+nightly", "test", "--doc", "--offline"], cwd=wdir,
                           env=build._env({"CARGO_TARGET_DIR": os.path.join(build.CACHE, "wit")}), capture_output=True, text=True)
    out = r.stdout + r.stderr
    res = []
    for w in items:
        ok_line = [l for l in out.splitlines() if (" - %s (line" % w["name"]) in l and l.rstrip().endswith("ok")]
        res.append({"name": w["name"], "kind": w["kind"], "passed": bool(ok_line)})
    return {"exit": r.returncode, "items": res, "tail": out[-1500:] if r.returncode else ""}


def anchor_crosscheck(prop, facts):
    """thorough tier: which loaded bodies lie in the source ranges that properties.jsonl names as this property's mechanism"""
    import re
    out = []
    try:
        props = {json.loads(l)["id"]: json.loads(l) for l in open(os.path.join(VERIF, "properties.jsonl"))}
        for m in props[prop]["anchors"].get("mechanism", []):
            w = m.get("where", "")
            f = w.split(":")[0]
            ranges = re.findall(r"(\d+)-(\d+)", w)
            hits = []
            for d, b in facts.bodies.items():
                sp = b.f.get("span", "")
                if ("/" + f + ":") not in sp and not sp.startswith(f + ":"):
                    continue
                try:
                    line = int(sp.split(":")[1])
                except (IndexError, ValueError):
                    continue
                if any(int(a) - 25 <= line <= int(z) + 25 for a, z in ranges):
                    hits.append(d)
            out.append({"mechanism": m.get("name", "")[:80], "where": w, "bodies_loaded_nearby": len(hits), "examples": sorted(hits)[:4]})
    except Exception as e:
        out.append({"error": repr(e)})
    return out


def check(prop, tier, seed):
    t0 = time.time()
    all_targets = tier == "thorough"
    try:
        fdir = build.facts_dir(all_targets=all_targets)
        lib_fdir = fdir
    except build.BuildFailed as e:
        print("BUILD-FAILED: " + str(e)[-3000:])
        return 2
    facts = core.Facts(fdir)
    ctx = evaluate(prop, facts, tier)
    mod = load_rules(prop)
    # --- self tests (mutants must be reported)
    st = selftest(prop, lib_fdir, ctx, tier)
    missed = [s for s in st if s["status"] in ("MISSED", "FALSE-ALARM")]
    selftest_ev = {"mutants_run": len([s for s in st if s["status"] in ("reported", "MISSED")]), "reported": len([s for s in st if s["status"] == "reported"]),
                   "harmless_variants_run": len([s for s in st if s["status"] in ("clean", "FALSE-ALARM")]), "harmless_variants_silent": len([s for s in st if s["status"] == "clean"]),
                   "skipped": [s for s in st if s["status"] in ("not-applicable", "does-not-compile")],
                   "results": [{"id": s["id"], "status": s["status"], "reported": s.get("reported", [])[:2]} for s in st]}
    extra = {}
    wit_bad = False
    if tier == "thorough":
        extra["anchor_crosscheck"] = anchor_crosscheck(prop, facts)
        if hasattr(mod, "sweep"):
            try:
                mod.sweep(ctx)
            except Exception as e:      # the sweep is informational and must never decide the verdict
                ctx.notes.append("crate sweep failed: %r" % (e,))
        w = run_witnesses(prop)
        if w is not None:
            extra["witnesses"] = w
            wit_bad = w["exit"] != 0 or any(not i["passed"] for i in w["items"])
            if wit_bad:
                for i in w["items"]:
                    if not i["passed"]:
                        ctx.ob("witness", i["name"], i["kind"], "violation", "compile-fail witness / twin did not behave as required")
    new, known = report.split_known(prop, ctx.violations())
    paths = report.write_evidence(prop, tier, seed, ctx, time.time() - t0, getattr(mod, "EXPLANATION", ""), selftest_ev, new, known,
                                  extra=extra, trusted=getattr(mod, "TRUSTED", []), assumptions=getattr(mod, "ASSUMPTIONS", []))
    for k in known:
        print("KNOWN-FINDING: property=%s %s" % (prop, k["key"]))
    decided = [o for o in ctx.obs if o["status"] in ("ok", "violation")]
    print("%s %s: %d obligations, %d discharged, %d undecided, %d invariant-justified; %d bodies scanned; mutants %d/%d reported; %.1fs" % (
        prop, tier, len(decided), len([o for o in decided if o["status"] == "ok"]), len([o for o in ctx.obs if o["status"] == "undecided"]),
        len([o for o in ctx.obs if o["status"] == "invariant-justified"]), ctx.scanned_bodies,
        selftest_ev["reported"], selftest_ev["mutants_run"], time.time() - t0))
    if new:
        for v, p in zip(new, paths):
            print("  violation: %s  [%s] %s" % (v["key"], v.get("span", ""), v["detail"]))
        for p in paths[:1]:
            print("VIOLATION property=%s replay=%s" % (prop, p))
        return 1
    if missed:
        print("SELFTEST-FAILED: mutants not reported / harmless variants reported: %s" % [(m["id"], m["status"]) for m in missed])
        return 2
    return 0


def replay(path):
    v = json.load(open(path))
    print(json.dumps(v, indent=1))
    prop = v["key"].split("|")[0]
    fdir = build.facts_dir()
    facts = core.Facts(fdir)
    ctx = evaluate(prop, facts, "quick")
    hit = [o for o in ctx.obs if o["key"] == v["key"]]
    for o in hit:
        print("re-evaluated on the current tree: %s -- %s" % (o["status"], o["detail"]))
    if not hit:
        print("re-evaluated on the current tree: this rule instance is no longer generated")
    return 1 if any(o["status"] == "violation" for o in hit) else 0


def main(argv):
    if argv and argv[0] == "--setup":
        build.ensure_driver(verbose=True)
        d = build.facts_dir()
        print("facts:", d)
        return 0
    if argv and argv[0] == "--replay":
        return replay(argv[1])
    if argv and argv[0] == "--all":
        tier = argv[1] if len(argv) > 1 else "quick"
        rc = 0
        man = json.load(open(os.path.join(VERIF, "MANIFEST.json")))
        for c in man["checks"]:
            r = check(c["property_id"], tier, 0)
            rc = max(rc, r)
        return rc
    prop = argv[0]
    tier = argv[1] if len(argv) > 1 else os.environ.get("VERIF_TIER", "quick")
    seed = int(os.environ.get("VERIF_SEED", "0") or 0)
    try:
        return check(prop, tier, seed)
    except Exception:
        traceback.print_exc()
        return 2


if __name__ == "__main__":
    sys.exit(main(sys.argv[1:]))
