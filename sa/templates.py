"""Rule templates shared by several properties (DESIGN.md section 3)."""
from .core import *


def origin_head(t):
    """short, position-free signature of a value origin (used in violation keys)"""
    t = strip(t)
    k = t[0]
    if k == "call":
        return "call:" + (t[1])
    if k == "field":
        return "field:." + str(t[2])
    if k == "agg":
        return "agg:" + t[1]
    if k in ("param", "local"):
        return "%s:%s" % (k, t[2] or t[1])
    if k == "int":
        return "int:%s" % t[1]
    if k == "binop":
        return "binop:" + t[1]
    return k


def t1_write_through(ctx, rule, adt, field, sanitizers, bodies=None, extra_ok=None):
    """T1: every write of `adt.field` takes its value from a sanitiser, or copies another instance's field.
    Returns number of write sites seen."""
    n = 0
    bodies = ctx.scan(bodies if bodies is not None else ctx.facts.all_bodies())
    for body in bodies:
        for bi, si, s in body.assigns():
            rv = s["rv"]
            pl = s["place"]
            val = None
            what = None
            if rv["k"] == "aggregate" and rv.get("agg") == "adt" and rv["adt"] == adt:
                if field not in rv["fields"]:
                    continue
                val = body.origin(rv["ops"][rv["fields"].index(field)])
                what = "construct"
            elif pl["p"] and pl["p"][-1]["k"] == "field" and pl["p"][-1].get("adt") == adt and pl["p"][-1]["name"] == field:
                val = body.rv_origin(rv)
                what = "assign"
            elif rv["k"] in ("ref", "rawptr") and (rv.get("mut") or rv["k"] == "rawptr") and \
                    any(e["k"] == "field" and e.get("adt") == adt and e["name"] == field for e in rv["place"]["p"]):
                n += 1
                ctx.ob(rule, body.name, "mutborrow:." + field, "violation",
                       "a mutable borrow of %s.%s escapes the sanitiser (the field can then be changed without re-normalising)" % (adt, field),
                       body.span_of(bi, si))
                continue
            if val is None:
                continue
            n += 1
            v = strip_refs(val)
            ok = False
            why = ""
            if v[0] == "call" and ((v[5] or v[1]) in sanitizers or v[1] in sanitizers):
                ok, why = True, "value comes from sanitiser " + v[1]
            elif v[0] == "call" and v[1].endswith("clone::Clone::clone"):
                inner = strip(v[2][0])
                if inner[0] == "field" and inner[2] == field:
                    ok, why = True, "clone of another instance's ." + field
            elif strip(v)[0] == "field" and strip(v)[2] == field:
                ok, why = True, "move/copy of another instance's ." + field
            if not ok and extra_ok:
                r = extra_ok(body, v)
                if r:
                    ok, why = True, r
            ctx.ob(rule, body.name, "%s:.%s<-%s" % (what, field, origin_head(v)), "ok" if ok else "violation",
                   why if ok else "%s.%s is written with a value that did not pass through %s: %s" % (adt, field, sorted(sanitizers), show(v)[:160]),
                   body.span_of(bi, si))
    return n


def strip_refs(t):
    while t[0] in ("ref", "deref"):
        t = t[1]
    return t


def calls_reachable(ctx, roots, local_only=True, depth=None):
    """all call terminators in the bodies reachable from roots (+closures): [(body, bb, term)]"""
    out = []
    seen = set()
    for r in roots:
        for d in ctx.facts.reachable(r):
            if d in seen:
                continue
            seen.add(d)
            b = ctx.facts.bodies[d]
            for bi, t in b.calls():
                out.append((b, bi, t))
    ctx.scan(ctx.facts.bodies[d] for d in seen)
    return out


def field_vis(ctx, adt, field):
    a = ctx.facts.adts.get(adt)
    if a is None:
        raise AnchorMissing("type not found: " + adt)
    for v in a["variants"]:
        for f in v["fields"]:
            if f["name"] == field:
                return f["vis"], f["ty"]
    raise AnchorMissing("field not found: %s.%s" % (adt, field))


def is_private(vis):
    # Restricted(DefId(.. ~ crate::module)) is private to a module; Public is public
    return vis.startswith("Restricted") and "crate_root" not in vis


def impls_of(ctx, self_ty_sub, trait_sub):
    return [i for i in ctx.facts.impls if i.get("trait") and trait_sub in i["trait"] and self_ty_sub in i["self_ty"]]


ITER_WRAPPERS = ("IntoIterator::into_iter", "::iter", "::iter_mut", "Iterator::rev", "Iterator::cloned", "Iterator::copied", "Iterator::enumerate")


def iter_source(body, term, getters=None):
    """for the payload of `next()` on an iterator local: the normalised origin of what is iterated
    (into_iter/iter/rev/cloned wrappers removed); None if `term` is not such a payload"""
    t = norm(term, getters)
    if not (t[0] == "field" and t[1][0] == "variant" and t[1][2] == "Some"):
        return None
    c = t[1][1]
    if not (c[0] == "call" and c[1].endswith("Iterator::next") and len(c[2]) == 1):
        return None
    it = c[2][0]
    d = norm(body.def_origin(it), getters) if it[0] == "local" else it
    while d[0] == "call" and len(d[2]) >= 1 and any(d[1].endswith(w) for w in ITER_WRAPPERS):
        d = d[2][0]
    return d


def _plus_one(t):
    """X when t is X + 1 (checked or plain), else None"""
    if t[0] == "field" and str(t[2]) == "0" and t[1][0] == "binop" and t[1][1] == "AddWithOverflow":
        t = ("binop", "Add", t[1][2], t[1][3])
    if t[0] == "binop" and t[1] == "Add":
        if t[3] == ("int", 1):
            return t[2]
        if t[2] == ("int", 1):
            return t[3]
    return None


def _canon_range(lo, hi, incl):
    """a..(b+1) is the same set as a..=b: report ranges in one canonical form where possible"""
    if not incl and hi is not None:
        x = _plus_one(hi)
        if x is not None:
            return (lo, x, True)
    return (lo, hi, incl)


def range_of(body, term, getters=None):
    """(lo, hi, inclusive) when `term` (an iterator local or expression) is a Range / RangeInclusive; else None.
    Trivial range getters of the crate (fn f(&self) -> lo..=g(self), e.g. DSet::indices / DSet::elements) are inlined."""
    d = norm(body.def_origin(term), getters)
    while d[0] == "call" and len(d[2]) >= 1 and any(d[1].endswith(w) for w in ITER_WRAPPERS):
        d = d[2][0]
    if d[0] == "call" and len(d[2]) == 1 and body.facts is not None:
        for tg in body.facts.resolve_targets(d[1])[:1]:
            fb = body.facts.bodies.get(tg)
            if fb is not None and fb.argc == 1:
                r = norm(fb.local_origin(0), getters)
                arg = d[2][0]
                r = map_term(r, lambda n: arg if n[0] == "param" and n[1] == 1 else None)
                if (r[0] == "call" and r[1].endswith("RangeInclusive::<Idx>::new")) or (r[0] == "agg" and r[1].endswith("ops::Range::Range")):
                    d = r
    if d[0] == "agg" and d[1].endswith("ops::Range::Range") and len(d[2]) == 2:
        return _canon_range(d[2][0], d[2][1], False)
    if d[0] == "call" and d[1].endswith("RangeInclusive::<Idx>::new") and len(d[2]) == 2:
        return (d[2][0], d[2][1], True)
    if d[0] == "agg" and d[1].endswith("RangeFrom::RangeFrom") and len(d[2]) == 1:
        return (d[2][0], None, False)
    return None


def loop_range_of_payload(body, term, getters=None):
    """range iterated by the loop whose payload is `term`"""
    t = norm(term, getters)
    if not (t[0] == "field" and t[1][0] == "variant" and t[1][2] == "Some"):
        return None
    c = t[1][1]
    if not (c[0] == "call" and c[1].endswith("Iterator::next") and len(c[2]) == 1):
        return None
    return range_of(body, c[2][0], getters)


def ret_origin(body, getters=None):
    return norm(body.local_origin(0), getters)


def callers_of(ctx, callee_exact, include_tests=False):
    out = []
    for b in ctx.facts.all_bodies(include_tests):
        for bi, t in b.calls(exact=callee_exact):
            out.append((b, bi, t))
    return out


def vec_literal(body, term):
    """elements of a `vec![a, b, c]` literal whose (un-normalised) origin term is `term`; None if it is not such a literal"""
    t = strip(term)
    if not (t[0] == "call" and t[1].endswith("box_assume_init_into_vec_unsafe") and t[2]):
        # vec![] / Vec::new()
        if t[0] == "call" and t[1].endswith("Vec::<T>::new"):
            return []
        return None
    nu = strip(t[2][0])
    if not (nu[0] == "call" and nu[1].endswith("new_uninit")):
        return None
    marker = nu[4] if len(nu) > 4 else None
    for bi, si, s in body.assigns():
        rv = s["rv"]
        if rv["k"] == "aggregate" and rv.get("agg") == "array" and any(e["k"] == "deref" for e in s["place"]["p"]):
            base = body.local_origin(s["place"]["l"])
            if contains(base, lambda x: isinstance(x, tuple) and len(x) > 4 and x[0] == "call" and x[1].endswith("new_uninit") and x[4] == marker):
                return [body.origin(o) for o in rv["ops"]]
    return None


def str_consts_in(body):
    out = []
    for bi, si, s in body.assigns():
        for o in rv_operands(s["rv"]):
            if o["k"] == "const" and "str" in o:
                out.append(o["str"])
    for bi, t in body.calls():
        for o in t["args"]:
            if o["k"] == "const" and "str" in o:
                out.append(o["str"])
    return out


def bool_join_disjuncts(body, local, getters=None):
    """Bool-join idiom: `let good = a && (b || c(..));` lowers to a bool local assigned in several leaf blocks by
    constants or by a call result.  Returns, for every definition that can be true, the list of normalised atoms that
    hold when that definition executes and yields true (facts dominating the defining block + the call being true)."""
    out = []
    for d in body.defs.get(local, []):
        if d[2] == "assign":
            rv = d[3]["rv"]
            if rv["k"] == "use" and rv["op"]["k"] == "const" and rv["op"].get("int") == 0:
                continue
            atoms = [atom_norm(a, getters) for a in body.facts_at(d[0])]
            if not (rv["k"] == "use" and rv["op"]["k"] == "const"):
                t = body.rv_origin(rv)
                atoms += [atom_norm(a, getters) for a in atoms_of(t, ("eq", 1))]
            out.append((d[0], atoms))
        elif d[2] == "call":
            t = d[3]
            c = t["callee"]
            term = ("call", c.get("def") or "indirect", tuple(body.origin(a) for a in t["args"]), tuple(c.get("args", [])), d[0], c.get("resolved"))
            atoms = [atom_norm(a, getters) for a in body.facts_at(d[0])] + [atom_norm(("bool", term, True), getters)]
            out.append((d[0], atoms))
    return out


def eval_int(t):
    """constant-fold an integer term; None if not constant"""
    t = strip(t)
    k = t[0]
    if k == "int":
        return t[1]
    if k == "constdef" and t[2] is not None:
        return t[2]
    if k == "cast":
        return eval_int(t[1])
    if k == "field" and t[1][0] == "binop" and str(t[2]) == "0":
        return eval_int(t[1])
    if k == "unop" and t[1] == "Neg":
        v = eval_int(t[2])
        return None if v is None else -v
    if k == "call" and len(t) >= 3:
        last = t[1].split("::")[-1]
        if last in ("abs_diff", "min", "max", "abs", "pow") and 1 <= len(t[2]) <= 2:
            vs = [eval_int(a) for a in t[2]]
            if any(v is None for v in vs):
                return None
            if last == "abs_diff" and len(vs) == 2:
                return abs(vs[0] - vs[1])
            if last == "min" and len(vs) == 2:
                return min(vs)
            if last == "max" and len(vs) == 2:
                return max(vs)
            if last == "abs" and len(vs) == 1:
                return abs(vs[0])
            if last == "pow" and len(vs) == 2 and 0 <= vs[1] <= 64:
                return vs[0] ** vs[1]
        return None
    if k == "binop":
        a, b = eval_int(t[2]), eval_int(t[3])
        if a is None or b is None:
            return None
        op = t[1].replace("WithOverflow", "")
        if op == "Add":
            return a + b
        if op == "Sub":
            return a - b
        if op == "Mul":
            return a * b
        if op == "Div" and b != 0:
            return int(a / b)
        if op == "Rem" and b != 0:
            return a - b * int(a / b)
        if op == "BitAnd":
            return a & b
        if op == "BitXor":
            return a ^ b
        if op == "BitOr":
            return a | b
        if op in ("Eq", "Ne", "Lt", "Le", "Gt", "Ge"):
            return int({"Eq": a == b, "Ne": a != b, "Lt": a < b, "Le": a <= b, "Gt": a > b, "Ge": a >= b}[op])
    return None


def eval_atom_with(atom, term, value):
    """truth of a normalised atom after replacing `term` by the integer `value`; None if it does not fold"""
    sub = lambda t: map_term(t, lambda x: ("int", value) if x == term else None)
    if atom[0] == "rel":
        a, b = eval_int(sub(atom[2])), eval_int(sub(atom[3]))
        if a is None or b is None:
            return None
        return {"Eq": a == b, "Ne": a != b, "Lt": a < b, "Le": a <= b}.get(atom[1])
    if atom[0] == "bool":
        v = eval_int(sub(atom[1]))
        return None if v is None else (bool(v) == atom[2])
    return None


def eval_atom_env(atom, env):
    """truth of a normalised atom after replacing the terms in env (term -> int); None if it does not fold"""
    sub = lambda t: subst_env(t, env)
    if atom[0] == "rel":
        a, b = eval_int(sub(atom[2])), eval_int(sub(atom[3]))
        if a is None or b is None:
            return None
        return {"Eq": a == b, "Ne": a != b, "Lt": a < b, "Le": a <= b}.get(atom[1])
    if atom[0] == "bool":
        v = eval_int(sub(atom[1]))
        return None if v is None else (bool(v) == atom[2])
    return None


def subst_env(t, env):
    """replace the terms of env by integers, largest terms first (a key may contain another key)"""
    for k in sorted(env, key=lambda k: -len(str(k))):
        t = map_term(t, lambda x, k=k: ("int", env[k]) if x == k else None)
    return t


def eval_term_env(t, env):
    return eval_int(subst_env(t, env))


def match_table(body, getters=None):
    """for a function that is a `match` on a discriminant / integer returning constants: {switch value: returned term, 'otherwise': term}"""
    out = {}
    for bi, blk in body.live_blocks():
        t = blk["term"]
        if t["k"] != "switch":
            continue
        for v, tgt in list(t["targets"]) + [("otherwise", t["otherwise"])]:
            # follow gotos to the first assignment to _0
            cur = tgt
            seen = set()
            val = None
            while cur is not None and cur not in seen:
                seen.add(cur)
                b2 = body.blocks[cur]
                for s in b2["stmts"]:
                    if s["k"] == "assign" and s["place"]["l"] == 0 and not s["place"]["p"]:
                        val = body.rv_origin(s["rv"])
                if val is not None:
                    break
                if b2["term"]["k"] == "call" and b2["term"]["dest"]["l"] == 0:
                    tt = b2["term"]
                    val = ("call", tt["callee"].get("def", ""), tuple(body.origin(a) for a in tt["args"]), (), cur, None)
                    break
                nxt = body.succ().get(cur, [])
                if b2["term"]["k"] in ("goto", "assert", "call") and len(nxt) == 1:
                    cur = nxt[0]
                else:
                    cur = None
            out[v] = val
        return out, norm(body.origin(t["discr"]), getters)
    return None, None


def counter_rule(ctx, rule, new_fn, next_fn, ctor_suffix, getters):
    """numbered consecutively from 1: counter starts at 0, is incremented by the constant 1 exactly once on the Some path,
    before it is handed to the constructor"""
    nb = ctx.body(new_fn)
    init = None
    for bi, si, s in nb.assigns():
        rv = s["rv"]
        if rv["k"] == "aggregate" and rv.get("agg") == "adt" and "counter" in rv.get("fields", []):
            init = norm(nb.origin(rv["ops"][rv["fields"].index("counter")]), getters)
    ctx.require(init == ("int", 0), rule, new_fn, "counter:init", "counter starts at 0", "counter is initialised to %s, not 0" % (init and show(init, 1),))
    b = ctx.body(next_fn)
    ctx.scan([nb, b])
    writes = []
    for bi, si, s in b.assigns():
        p = s["place"]
        if p["p"] and p["p"][-1]["k"] == "field" and p["p"][-1]["name"] == "counter":
            writes.append((bi, si, norm(b.rv_origin(s["rv"]), getters)))
    me = ("param", 1, b.debug.get(1, ""))
    inc = ("field", ("binop", "AddWithOverflow", ("field", me, "counter"), ("int", 1)), "0")
    ok_w = len(writes) == 1 and writes[0][2] in (inc, ("binop", "Add", ("field", me, "counter"), ("int", 1)))
    ctx.require(ok_w, rule, next_fn, "counter:+=1", "exactly one write: counter = counter + 1",
                "counter is not incremented by exactly the constant 1 exactly once: %s" % [show(w[2], 1)[:40] for w in writes])
    ctors = [(bi, t) for bi, t in b.calls(ctor_suffix)]
    ctx.require(len(ctors) >= 1, rule, next_fn, "constructor", "numbered constructor called", "constructor %s not called" % ctor_suffix)
    for bi, t in ctors:
        # the counter operand is read from self.counter after the write
        arg = t["args"][-1]
        okread = False
        if arg["k"] in ("copy", "move") and not arg["place"]["p"] and writes:
            rd = _field_read_stmt(b, arg["place"]["l"], "counter")
            if rd is not None:
                wb, ws, _ = writes[0]
                okread = (rd[0] == wb and rd[1] > ws) or (rd[0] != wb and b.dominates(wb, rd[0]))
        ctx.require(okread, rule, next_fn, "counter:read-after-increment", "the number handed out is the counter after the increment (first item gets 1)",
                    "the counter value handed to the constructor is not read after the increment (numbering would start at 0 / repeat)", b.span_of(bi))
        somes = [x for x in b.facts_at(bi) if x[0] == "variant" and x[2] == 1]
        ctx.require(bool(somes), rule, next_fn, "counter:some-path", "increment and construction happen only when the back-tracker produced an item",
                    "numbering is not tied to the Some path", b.span_of(bi))


def _field_read_stmt(b, local, field, depth=0):
    """(bb, stmt index) of the statement that actually loads `<place>.field` into the copy chain ending in `local`"""
    if depth > 6:
        return None
    ds = b.defs.get(local, [])
    if len(ds) != 1 or ds[0][2] != "assign":
        return None
    rv = ds[0][3]["rv"]
    if rv["k"] != "use" or rv["op"]["k"] not in ("copy", "move"):
        return None
    pl = rv["op"]["place"]
    if pl["p"]:
        if pl["p"][-1]["k"] == "field" and pl["p"][-1]["name"] == field:
            return (ds[0][0], ds[0][1])
        return None
    return _field_read_stmt(b, pl["l"], field, depth + 1)


def loop_blocks_of_payload(body, raw_term):
    """for the (un-normalised) payload term of a `for` loop: (block of the next() call, entry block of the loop body); None if not a loop payload"""
    t = strip(raw_term)
    while t[0] in ("field", "variant"):
        t = strip(t[1])
    if not (t[0] == "call" and t[1].endswith("Iterator::next") and len(t) > 4):
        return None
    hb = t[4]
    blk = body.blocks.get(hb)
    if blk is None or blk["term"]["k"] != "call" or blk["term"]["t"] is None:
        return None
    sw = body.blocks[blk["term"]["t"]]
    if sw["term"]["k"] != "switch":
        return None
    for v, tgt in sw["term"]["targets"]:
        if v == 1:
            return hb, tgt
    # Some may be the otherwise arm
    if [v for v, _ in sw["term"]["targets"]] == [0]:
        return hb, sw["term"]["otherwise"]
    return None


def must_pass_through(body, start, via, end):
    """every path from block `start` to block `end` passes through block `via`"""
    if start == via:
        return True
    return end not in body.fwd(start, cut_nodes=(via,))


def loops_in(body):
    """[(header_bb, entry_bb, iterator_local)] for every `for` loop (a next() call on an iterator local followed by the Some/None switch)"""
    out = []
    for bi, t in body.calls("iter::Iterator::next"):
        if t["t"] is None:
            continue
        sw = body.blocks[t["t"]]
        if sw["term"]["k"] != "switch":
            continue
        entry = None
        for v, tgt in sw["term"]["targets"]:
            if v == 1:
                entry = tgt
        if entry is None and [v for v, _ in sw["term"]["targets"]] == [0]:
            entry = sw["term"]["otherwise"]
        if entry is None:
            continue
        it = strip(body.origin(t["args"][0]))
        out.append((bi, entry, it[1] if it[0] == "local" else None))
    return out


def loop_containing(body, bb):
    """innermost `for` loop (header, entry, iter local) whose body contains block bb"""
    best = None
    for h, e, it in loops_in(body):
        if body.dominates(e, bb) and h in body.fwd(bb):
            if best is None or body.dominates(best[1], e):
                best = (h, e, it)
    return best


def every_iteration_reaches(ctx, rule, body, site_bb, what, detail_bad, outer=0):
    """T3 (must-pass-through): every iteration of the innermost loop around `site_bb` reaches it - i.e. no `continue`, pruning
    or early exit can skip the site.  `outer` > 0 applies the rule to enclosing loops as well."""
    lp = loop_containing(body, site_bb)
    if lp is None:
        ctx.ob(rule, body.name, what, "violation", "the site is no longer inside a loop: " + detail_bad, body.span_of(site_bb))
        return False
    h, e, it = lp
    ok = must_pass_through(body, e, site_bb, h)
    # leaving the loop (break / return) without passing the site also skips it for the remaining items: allowed only via the header's None edge
    exits = set()
    region = body.fwd(e, cut_nodes=(site_bb,))
    for r in region:
        for s in body.succ().get(r, []):
            if h not in body.fwd(s) and s not in body.panic_blocks():
                exits.add(s)
    ok = ok and not exits
    ctx.ob(rule, body.name, what, "ok" if ok else "violation",
           "every iteration of the enclosing loop reaches it (no skipping path)" if ok else detail_bad, body.span_of(site_bb))
    return ok


def loop_carried_mutables(body, header, entry):
    """names of locals defined outside the loop (header, entry) and mutated (assigned / mutably borrowed / used as call destination) inside it"""
    inside = loop_body(body, header, entry)
    out = set()
    for l in range(body.argc + 1, len(body.f["locals"])):
        if not body.debug.get(l):
            continue
        defs = body.defs.get(l, [])
        if not defs or all(d[0] in inside for d in defs):
            continue            # defined inside only -> per-iteration
        if any(d[0] not in inside for d in defs) and body.mutations_in(inside, l):
            out.add(body.debug[l])
    return out


def unexpected_carried_state(body, header, entry, extra_allowed=()):
    """loop-carried mutable locals other than, by role (not by name): the local the function returns (the accumulator), iterators,
    and the locals given in extra_allowed (local indices, e.g. scratch buffers identified by their argument slot)"""
    inside = loop_body(body, header, entry)
    ret_ls = set()
    for bi, si, s in body.assigns():
        if s["place"]["l"] == 0 and not s["place"]["p"] and s["rv"]["k"] == "use" and s["rv"]["op"]["k"] in ("move", "copy") and not s["rv"]["op"]["place"]["p"]:
            ret_ls.add(s["rv"]["op"]["place"]["l"])
    out = []
    for l in range(body.argc + 1, len(body.f["locals"])):
        if not body.debug.get(l) or l in ret_ls or l in extra_allowed:
            continue
        ty = body.local_ty(l)
        if any(x in ty for x in ("Iter<", "IntoIter", "ops::Range", "RangeInclusive", "iter::")):
            continue
        defs = body.defs.get(l, [])
        if not defs or all(d[0] in inside for d in defs):
            continue
        if any(d[0] not in inside for d in defs) and body.mutations_in(inside, l):
            out.append(body.debug[l])
    return sorted(set(out))


def _container_root(t):
    t = strip(t)
    while t[0] == "call" and t[2] and any(t[1].endswith(s) for s in ("ops::Index::index", "ops::IndexMut::index_mut", "Deref::deref", "DerefMut::deref_mut")):
        t = strip(t[2][0])
    return t


def stale_element_reads(body, getters=None):
    """[(name, read term, loop header)]: a local that holds an element read `C[..]` taken *before* a loop and is used *inside*
    the loop although the loop writes elements of the same container C (a hoisted, no longer loop-invariant read)"""
    out = []
    loops = loops_in(body)
    if not loops:
        return out
    for l in range(body.argc + 1, len(body.f["locals"])):
        if not body.is_stable_local(l):
            continue
        d = body.defs[l][0]
        o = strip(body.local_origin(l))
        if not (o[0] == "call" and o[1].endswith("ops::Index::index")):
            continue
        root = norm(_container_root(o), getters)
        for h, e, it in loops:
            inside = loop_body(body, h, e)
            if d[0] in inside:
                continue
            used = False
            mut = False
            for bi in inside:
                blk = body.blocks[bi]
                for s in blk["stmts"]:
                    if s["k"] == "assign":
                        if any(op["k"] in ("copy", "move") and op["place"]["l"] == l for op in rv_operands(s["rv"])):
                            used = True
                        if s["rv"]["k"] == "ref" and s["rv"]["place"]["l"] == l:
                            used = True
                t = blk["term"]
                if t["k"] == "call":
                    if any(a["k"] in ("copy", "move") and a["place"]["l"] == l for a in t["args"]):
                        used = True
                    if t["callee"].get("def", "").endswith("ops::IndexMut::index_mut") and norm(_container_root(body.origin(t["args"][0])), getters) == root:
                        mut = True
            if used and mut:
                out.append((body.debug.get(l, "_%d" % l), show(norm(o, getters), 1)[:70], h))
    return out


def no_stale_elements(ctx, rule, bodies, getters=None):
    n = 0
    for b in bodies:
        hits = stale_element_reads(b, getters)
        n += 1
        ctx.ob(rule, b.name, "element snapshots vs in-loop writes", "ok" if not hits else "violation",
               "no element read taken before a loop is used inside it while the loop writes that container" if not hits else
               "%s = %s is read before a loop but used inside it while the loop writes the same container: the value is stale after the first write" % (hits[0][0], hits[0][1]))
    return n


def sorted_at(body, local, site_bb, getters=None):
    """is `local` (a Vec) sorted when control reaches site_bb?  A sort/sort_by/sort_unstable.. call on it dominates the site
    and nothing mutates it in between."""
    for bi, t in body.calls("slice::<impl [T]>::sort"):
        recv = strip(body.origin(t["args"][0]))
        root = recv
        while root[0] == "call" and root[2]:
            root = strip(root[2][0])
        if not (root[0] == "local" and root[1] == local):
            continue
        if not body.dominates(bi, site_bb) or bi == site_bb:
            continue
        nxt = body.succ().get(bi, [])
        region = (body.fwd(nxt[0]) if nxt else set()) & body.bwd(site_bb)
        if not body.mutations_in(region, local, site_bb):
            return True
    return False


def natural_loops(body):
    """[(header, set(blocks))] from back edges (a -> h with h dominating a); loops sharing a header are merged"""
    loops = {}
    for a, outs in body.succ().items():
        for h in outs:
            if body.dominates(h, a):
                blocks = {h, a}
                st = [a]
                pred = body.pred()
                while st:
                    n = st.pop()
                    if n == h:
                        continue
                    for p in pred.get(n, []):
                        if p not in blocks:
                            blocks.add(p)
                            st.append(p)
                loops.setdefault(h, set()).update(blocks)
    return sorted(loops.items())


def loop_exit_atoms(body, header, blocks, getters=None):
    """[(edge, [normalised atoms on that edge])] for every edge leaving the loop (panic exits ignored)"""
    out = []
    pan = body.panic_blocks()
    for b in sorted(blocks):
        for s in body.succ().get(b, []):
            if s not in blocks and s not in pan:
                out.append(((b, s), [atom_norm(a, getters) for a in body.edge_atoms((b, s))]))
    return out


def structure_signature(body):
    """coarse, position-free signature of a function: loops, element stores, callee multiset (for sibling cross-checks)"""
    import collections
    calls = collections.Counter()
    for bi, t in body.calls():
        n = t["callee"].get("def", "")
        last = n.split("::")[-1]
        if last in ("deref", "deref_mut", "clone", "into_iter", "next", "from", "into", "branch", "from_residual", "as_ref", "borrow"):
            continue
        calls[last] += 1
    stores = 0
    for bi, si, s in body.assigns():
        p = s["place"]
        if p["p"] and p["p"][0]["k"] == "deref" and any(True for d in body.defs.get(p["l"], []) if d[2] == "call" and d[3]["callee"].get("def", "").endswith("index_mut")):
            stores += 1
    fields = collections.Counter()
    def count_place(pl):
        for e in pl["p"]:
            if e["k"] == "field" and e.get("name") and e.get("adt"):
                fields[e["name"]] += 1
    for bi, si, s in body.assigns():
        count_place(s["place"])
        rv = s["rv"]
        if rv["k"] in ("ref", "rawptr", "discr", "copy_for_deref"):
            count_place(rv["place"])
        for o in rv_operands(rv):
            if o["k"] in ("copy", "move"):
                count_place(o["place"])
    for bi, t in body.calls():
        for a in t["args"]:
            if a["k"] in ("copy", "move"):
                count_place(a["place"])
    return {"for_loops": len(loops_in(body)), "while_loops": len(natural_loops(body)) - len(loops_in(body)), "element_stores": stores,
            "calls": dict(sorted(calls.items())), "fields": dict(sorted(fields.items()))}


def siblings_agree(ctx, rule, name_a, name_b, what, ignore=(), ignore_stores=False, compare_fields=False):
    a, b = ctx.body(name_a), ctx.body(name_b)
    ctx.scan([a, b])
    sa, sb = structure_signature(a), structure_signature(b)
    diff = []
    for k in ("for_loops", "while_loops") + (() if ignore_stores else ("element_stores",)):
        if sa[k] != sb[k]:
            diff.append("%s: %d vs %d" % (k, sa[k], sb[k]))
    for c in sorted(set(sa["calls"]) | set(sb["calls"])):
        if c in ignore:
            continue
        if sa["calls"].get(c, 0) != sb["calls"].get(c, 0):
            diff.append("%s: %d vs %d" % (c, sa["calls"].get(c, 0), sb["calls"].get(c, 0)))
    if compare_fields:
        for c in sorted(set(sa["fields"]) | set(sb["fields"])):
            if sa["fields"].get(c, 0) != sb["fields"].get(c, 0):
                diff.append("field .%s read/written %d vs %d times" % (c, sa["fields"].get(c, 0), sb["fields"].get(c, 0)))
    ctx.ob(rule, name_a + " ~ " + name_b.split("::")[-1], what, "ok" if not diff else "violation",
           "the two sibling routines have the same loop / store / call structure (%d loops, %d element stores, %d call kinds)" % (sa["for_loops"] + sa["while_loops"], sa["element_stores"], len(sa["calls"])) if not diff else
           "sibling implementations of the same step (transposes of each other) disagree in structure: %s - one of them was changed alone" % "; ".join(diff[:5]))
    return not diff


def loop_body(body, header, entry):
    """blocks of the natural loop with this header (nested loops included, enclosing loops excluded)"""
    for h, blocks in natural_loops(body):
        if h == header:
            return set(blocks)
    return {b for b in body.fwd(entry) if header in body.fwd(b)} | {entry}


_OPS_CALLS = {"ops::Add::add": "Add", "ops::Sub::sub": "Sub", "ops::Mul::mul": "Mul", "ops::Div::div": "Div", "ops::Rem::rem": "Rem"}


def fold_std_ops(t):
    """std::ops trait calls / num_traits constants -> binops and ints, so that eval_int can fold generic arithmetic"""
    def f(x):
        if x[0] == "call":
            for suf, op in _OPS_CALLS.items():
                if x[1].endswith(suf) and len(x[2]) == 2:
                    return ("binop", op, x[2][0], x[2][1])
            if x[1].endswith("ops::Neg::neg") and len(x[2]) == 1:
                return ("unop", "Neg", x[2][0])
            if x[1].endswith("One::one") and not x[2]:
                return ("int", 1)
            if x[1].endswith("Zero::zero") and not x[2]:
                return ("int", 0)
            if x[1].endswith("Zero::is_zero") and len(x[2]) == 1:
                return ("binop", "Eq", x[2][0], ("int", 0))
        if x[0] in ("ref", "deref"):
            return x[1]
        return None
    return map_term(t, f)


def euclid_contract(ctx, rule, body, g):
    """Extended Euclid, decided by induction with the loop invariant evaluated on sampled states (polynomial identity testing on
    the update expressions, no execution of the function):
      init   (a, a', r, r', s, s') = (A, B, 1, 0, 0, 1)
      step   from ANY state with a = rA + sB, a' = r'A + s'B, a' != 0 the update yields a state with the same two equations,
             new a = old a', |new a'| < |old a'| (so gcd(a, a') is preserved and the loop terminates), and rs' - sr' changes sign only
      exit   the loop is left exactly when a' == 0
      result (a, r, s, r', s') in this order
    Together: r*A + s*B = g = +-gcd(A, B), t*A + u*B = 0, r*u - s*t = +-1 for every input (overflow aside)."""
    import random
    A_, B_ = ("param", 1, body.debug.get(1, "")), ("param", 2, body.debug.get(2, ""))
    ret = norm(body.local_origin(0), g)
    if not (ret[0] == "agg" and ret[1] == "tuple" and len(ret[2]) == 5 and all(x[0] == "local" for x in ret[2])):
        ctx.ob(rule, body.name, "result", "violation", "the result is not a 5-tuple of the loop's variables: " + show(ret, 1)[:80])
        return
    a, r, s, t, u = ret[2]
    defs = {}
    for x in (a, r, s, t, u):
        ds = [(dbb, norm(d, g)) for dbb, d in body.all_defs_origins(x[1])]
        loops = natural_loops(body)
        inl = [d for dbb, d in ds if any(dbb in bl for h, bl in loops)]
        out = [d for dbb, d in ds if not any(dbb in bl for h, bl in loops)]
        defs[x] = (out, inl)
    # the partner a' of a is what a becomes
    an = defs[a][1][0] if defs[a][1] and defs[a][1][0][0] == "local" else None
    okpair = an is not None and defs[r][1] == [t] and defs[s][1] == [u] and all(len(defs[x][0]) == 1 and len(defs[x][1]) == 1 for x in (a, r, s, t, u))
    if okpair:
        ds = [(dbb, norm(d, g)) for dbb, d in body.all_defs_origins(an[1])]
        loops = natural_loops(body)
        defs[an] = ([d for dbb, d in ds if not any(dbb in bl for h, bl in loops)], [d for dbb, d in ds if any(dbb in bl for h, bl in loops)])
        okpair = len(defs[an][0]) == 1 and len(defs[an][1]) == 1
    ctx.ob(rule, body.name, "variables", "ok" if okpair else "violation",
           "three pairs (x, x') with x := x' in the loop; the result is (a, r, s, r', s')" if okpair else
           "the result tuple is not (a, r, s, r', s') of three shifted pairs: a := %s, r := %s (want %s), s := %s (want %s)" % (
               [show(d, 1)[:20] for d in defs[a][1]], [show(d, 1)[:20] for d in defs[r][1]], show(t, 1), [show(d, 1)[:20] for d in defs[s][1]], show(u, 1)))
    if not okpair:
        return
    carried = (a, an, r, t, s, u)

    def expand(tm, depth=0):
        """replace single-definition helper locals (q) by their definitions"""
        def f(x):
            if x[0] == "local" and x not in carried and depth < 6:
                ds = body.all_defs_origins(x[1])
                if len(ds) == 1:
                    return expand(norm(ds[0][1], g), depth + 1)
            return None
        return map_term(tm, f)
    init = [eval_term_env(fold_std_ops(expand(defs[x][0][0])), {A_: 35, B_: 21}) for x in carried]
    okinit = init == [35, 21, 1, 0, 0, 1]
    ctx.ob(rule, body.name, "init", "ok" if okinit else "violation",
           "(a, a', r, r', s, s') starts as (A, B, 1, 0, 0, 1)" if okinit else "the initial state is %s for (A, B) = (35, 21), not (35, 21, 1, 0, 0, 1)" % init)
    upd = [fold_std_ops(expand(defs[x][1][0])) for x in carried]
    rnd = random.Random(7)
    bad = None
    lb = set()
    for h_, bl_ in natural_loops(body):
        lb |= set(bl_)
    late = overwritten_reads(body, lb, carried)
    if late:
        nm = lambda l: body.debug.get(l, "_%d" % l)
        bad = "the new value of %s is computed from %s after %s has been overwritten in the same iteration (%s): not the simultaneous Euclid step" % (
            nm(late[0][0]), nm(late[0][1]), nm(late[0][1]), late[0][2])
    n = 0
    for _ in range(0 if bad else 400):
        A, B = rnd.randint(-60, 60), rnd.randint(-60, 60)
        rv, sv, tv, uv = (rnd.randint(-9, 9) for _ in range(4))
        av, anv = rv * A + sv * B, tv * A + uv * B
        if anv == 0:
            continue
        env = dict(zip(carried, (av, anv, rv, tv, sv, uv)))
        new = [eval_term_env(e, env) for e in upd]
        if any(v is None for v in new):
            bad = "the loop's update expressions cannot be evaluated (not arithmetic over the loop variables): %s" % [show(e, 1)[:40] for e, v in zip(upd, new) if v is None][:1]
            break
        na, nan, nr, nt, ns, nu = new
        n += 1
        st = "state (a, a', r, r', s, s') = %s with (A, B) = (%d, %d)" % ((av, anv, rv, tv, sv, uv), A, B)
        if nr * A + ns * B != na or nt * A + nu * B != nan:
            bad = "the step does not preserve a = r*A + s*B, a' = r'*A + s'*B: from %s it yields %s" % (st, tuple(new))
        elif na != anv:
            bad = "the step does not shift a := a' (from %s it yields a = %d)" % (st, na)
        elif abs(nan) >= abs(anv):
            bad = "the step does not make |a'| smaller (from %s it yields a' = %d): the gcd is not reached / the loop need not end" % (st, nan)
        elif nr * nu - ns * nt != -(rv * uv - sv * tv):
            bad = "the step does not keep r*s' - s*r' = +-1 (from %s it yields %s)" % (st, tuple(new))
        if bad:
            break
    ctx.ob(rule, body.name, "step", "ok" if not bad and n else "violation",
           "the loop invariant is preserved, a := a', |a'| decreases, determinant changes sign only (%d sampled states); every carried variable is read before it is overwritten" % n if not bad and n else (bad or "nothing evaluated"))
    # exit exactly when a' == 0
    badx = None
    nx = 0
    for h, blocks in natural_loops(body):
        for (x1, x2), atoms in loop_exit_atoms(body, h, blocks, g):
            nx += 1
            for v in (-5, -1, 0, 1, 7):
                vals = [eval_atom_env(("rel", at[1], fold_std_ops(at[2]), fold_std_ops(at[3])) if at[0] == "rel" else ("bool", fold_std_ops(at[1]), at[2]), {an: v}) for at in atoms]
                vals = [x for x in vals if x is not None]
                if not vals:
                    badx = "an exit of the loop does not depend on a' alone: %s" % [show_atom(x)[:40] for x in atoms]
                elif all(vals) != (v == 0):
                    badx = "the loop %s when a' = %d" % ("is left" if all(vals) else "continues", v)
    ctx.ob(rule, body.name, "exit", "ok" if nx >= 1 and not badx else "violation",
           "the loop is left exactly when a' == 0" if nx >= 1 and not badx else (badx or "no loop exit found"))


def expand_single_defs(body, term, g, keep=(), depth=0):
    """replace helper locals that have exactly one definition by (the normalised origin of) that definition; `keep` are left alone"""
    def f(x):
        if x[0] == "local" and x not in keep and depth < 6:
            ty = body.local_ty(x[1])
            if any(w in ty for w in ("Iter<", "IntoIter", "ops::Range", "RangeInclusive", "iter::")):
                return None          # iterator state: the facts speak about the local itself
            ds = body.all_defs_origins(x[1])
            if len(ds) == 1:
                return expand_single_defs(body, norm(ds[0][1], g), g, keep, depth + 1)
        return None
    return map_term(term, f)


def unov_atom(a):
    f = lambda t: map_term(t, lambda x: ("binop", x[1][1].replace("WithOverflow", ""), x[1][2], x[1][3])
                           if x[0] == "field" and str(x[2]) == "0" and x[1][0] == "binop" and x[1][1].endswith("WithOverflow") else None) if isinstance(t, tuple) else t
    return tuple(f(x) for x in a)


def relator_scan_shape(ctx, rule, g):
    """fpgroups::cosets: scan / scan_inverse walk the word from `start` for at most `limit` letters and report the row reached and the
    letters consumed at both exits; scan_both_ways = (head of the forward scan with the FULL budget len(w), tail of the backward scan
    with the remaining budget len(w) - i, gap len(w) - i - j, the letter w[i] at which the forward scan stopped).  A forward budget
    below len(w) turns 'traced completely but ended in the wrong row' (a coincidence / a contradiction) into a fake gap of 1."""
    C = "fpgroups::cosets::"
    sb = ctx.body(C + "scan_both_ways")
    ctx.scan([sb, ctx.body(C + "scan"), ctx.body(C + "scan_inverse")])
    table, w, start = (("param", i, sb.debug.get(i, "")) for i in (1, 2, 3))
    unov = lambda t: map_term(t, lambda x: ("binop", x[1][1].replace("WithOverflow", ""), x[1][2], x[1][3])
                              if x[0] == "field" and str(x[2]) == "0" and x[1][0] == "binop" and x[1][1].endswith("WithOverflow") else None)
    r = unov(norm(sb.local_origin(0), g))
    if not (r[0] == "agg" and r[1] == "tuple" and len(r[2]) == 4):
        ctx.ob(rule, sb.name, "return", "violation", "scan_both_ways does not return a 4-tuple: " + show(r, 1)[:80])
        return
    n_ = ("call", "fpgroups::free_words::FreeWord::len", (w,))
    s1 = ("call", C + "scan", (table, w, start, n_))
    i_ = ("field", s1, "1")
    s2 = ("call", C + "scan_inverse", (table, w, start, ("binop", "Sub", n_, i_)))
    j_ = ("field", s2, "1")
    head, tail, gap, c = r[2]
    ctx.ob(rule, sb.name, "head", "ok" if head == ("field", s1, "0") else "violation",
           "head = row reached by scan(table, w, start, w.len())" if head == ("field", s1, "0") else
           "head is not scan(table, w, start, w.len()).0 (full budget): " + show(head, 1)[:90])
    ctx.ob(rule, sb.name, "tail", "ok" if tail == ("field", s2, "0") else "violation",
           "tail = row reached by scan_inverse with the remaining budget w.len() - i" if tail == ("field", s2, "0") else
           "tail is not scan_inverse(table, w, start, w.len() - i).0: " + show(tail, 1)[:110])
    gaps = (("binop", "Sub", ("binop", "Sub", n_, i_), j_), ("binop", "Sub", n_, ("binop", "Add", i_, j_)))
    ctx.ob(rule, sb.name, "gap", "ok" if gap in gaps else "violation", "gap = w.len() - i - j" if gap in gaps else "gap is not w.len() - i - j: " + show(gap, 1)[:110])
    okc = False
    det = show(c, 1)[:60]
    cds = [(None, c)] if c[0] != "local" else [(dbb, unov(strip(norm(d, g)))) for dbb, d in sb.all_defs_origins(c[1])]
    for dbb, d in cds:
        if is_call(d, "Index::index") and strip(d[2][0]) == w and strip(d[2][1]) == i_:
            okc = True
    # every definition that is not w[i] must be unreachable for i < n (the dummy for a complete forward scan)
    for dbb, d in cds:
        if not (is_call(d, "Index::index") and strip(d[2][0]) == w and strip(d[2][1]) == i_):
            fa = [atom_norm(a, g) for a in sb.facts_at(dbb)] if dbb is not None else []
            if not any(a[0] == "rel" and implies(a, ("rel", "Le", n_, i_)) for a in fa):
                okc = False
                det = "the connecting letter can be %s although the forward scan stopped inside the word" % show(d, 1)[:40]
    ctx.ob(rule, sb.name, "letter", "ok" if okc else "violation", "the connecting letter is w[i] whenever the forward scan stopped inside the word" if okc else det)
    # no letter of the word is read without knowing that it exists: w may be the empty word (a subgroup generator or relator that reduces to it)
    badidx = []
    for bi, t in sb.calls("Index::index"):
        a = [strip(norm(sb.origin(x), g)) for x in t["args"]]
        if a[0] != w:
            continue
        fa = [atom_norm(x, g) for x in sb.facts_at(bi)]
        if not any(x[0] == "rel" and implies(unov_atom(x), ("rel", "Lt", unov(a[1]), n_)) for x in fa):
            badidx.append(show(a[1], 1)[:30])
    ctx.ob("T5-word-index-guarded", sb.name, "w[..] <- index < w.len()", "ok" if not badidx else "violation",
           "every letter read in scan_both_ways is dominated by `index < w.len()`" if not badidx else
           "w[%s] is read without a dominating test that the word has such a letter: scanning an EMPTY word (a subgroup generator like a a^-1) panics" % ", ".join(badidx))
    # the two scans: both exits report (row reached, letters consumed)
    for fn in ("scan", "scan_inverse"):
        b = ctx.body(C + fn)
        lim = ("param", 4, b.debug.get(4, ""))
        st_ = ("param", 3, b.debug.get(3, ""))
        gets = [(bi, [strip(norm(b.origin(x), g)) for x in t["args"]]) for bi, t in b.calls(exact=C + "CosetTable::get")]
        if not gets:
            raise AnchorMissing(C + fn + ": table.get")
        cur = gets[0][1][1]
        okcur = cur[0] == "local"
        if okcur:
            ds = [norm(d, g) for _, d in b.all_defs_origins(cur[1])]
            okcur = len(ds) == 2 and any(strip(d) == st_ for d in ds) and any(contains(d, lambda y: is_call(y, "CosetTable::get")) for d in ds)
        ctx.ob(rule, b.name, "row := start, then each defined image", "ok" if okcur else "violation",
               "the walk starts at `start` and moves to each defined image" if okcur else "the row the step is applied to is not (start, then each table.get result)")
        rets = [(bi, [strip(norm(b.origin(x), g)) for x in s["rv"]["ops"]]) for bi, si, s in b.assigns()
                if s["place"]["l"] == 0 and not s["place"]["p"] and s["rv"]["k"] == "aggregate" and s["rv"].get("agg") == "tuple"]
        ctx.floor("tuple returns of " + fn, len(rets), 2)
        for bi, vals in rets:
            fa = [atom_norm(x, g) for x in b.facts_at(bi)]
            early = any(x[0] in ("variant", "notvariant") and is_call(x[1], "CosetTable::get") for x in fa) and \
                any((x[0] == "variant" and x[2] == 0) or (x[0] == "notvariant" and 1 in x[2]) for x in fa if is_call(x[1], "CosetTable::get"))
            ok0 = vals[0] == cur
            if early:
                rr = loop_range_of_payload(b, vals[1], g)
                ok1 = rr is not None and rr[0] == ("int", 0) and strip(rr[1]) == lim and not rr[2]
            else:
                ok1 = vals[1] == lim
            ctx.ob(rule, b.name, ("undefined-image exit" if early else "budget-used exit"), "ok" if ok0 and ok1 else "violation",
                   "reports (row reached, %s)" % ("letters consumed so far" if early else "limit") if ok0 and ok1 else
                   "the exit reports (%s, %s), not (row reached, %s)" % (show(vals[0], 1)[:30], show(vals[1], 1)[:30], "the loop's index in 0..limit" if early else "limit"), b.span_of(bi))


def orbit_member_fixed_tests(ctx, rule, b, call_bb, t, g, ds, idx_terms, polarity, what):
    """`orbit.iter().any(|&e| op(i, e) == Some(e) || op(j, e) == Some(e))` (polarity "any") or
    `.all(|&e| op(i, e) != Some(e) && op(j, e) != Some(e))` (polarity "all"): every test is a fixed-point test of the chamber e handed to
    the closure (not of the orbit's representative), and the tests cover exactly the given index terms"""
    clo = norm(b.origin(t["args"][1]), g)
    parts = closure_parts(clo)
    if parts is None:
        ctx.ob(rule, b.name, what + ":closure", "violation", "the test over the orbit is not a closure literal", b.span_of(call_bb))
        return
    cname, caps = parts
    cb = ctx.facts.bodies.get(cname)
    if cb is None:
        raise AnchorMissing(cname)
    ctx.scan([cb])
    capmap = {("field", ("param", 1, ""), str(k)): strip(v) for k, v in enumerate(caps)}
    e_ = ("param", 2, "")
    tested = set()
    bad = None
    disj = bool_join_disjuncts(cb, 0, g)

    def parse(a):
        """-> (index term, positive?) for a fixed-point test at e, "bad" for a test at something else, None for unrelated atoms"""
        lhs = rhs = None
        pos = None
        if a[0] == "rel" and a[1] in ("Eq", "Ne"):
            lhs, rhs, pos = a[2], a[3], a[1] == "Eq"
        elif a[0] == "bool" and a[1][0] == "call" and (a[1][1].endswith("PartialEq::eq") or a[1][1].endswith("PartialEq::ne")):
            lhs, rhs = a[1][2]
            pos = a[1][1].endswith("::eq") == a[2]
        if lhs is None:
            return None
        if not is_call(lhs, "DSet::op"):
            lhs, rhs = rhs, lhs
        if not is_call(lhs, "DSet::op"):
            return None
        okf = capmap.get(strip(lhs[2][0])) == ds and strip(lhs[2][2]) == e_ and rhs[0] == "agg" and rhs[1].endswith("Option::Some") and strip(rhs[2][0]) == e_
        if not okf:
            return "bad"
        return (capmap.get(strip(lhs[2][1])), pos)
    if polarity == "any":
        for bb, atoms in disj:
            r = parse(atoms[-1])
            if r is None or r == "bad" or not r[1]:
                bad = "a way of answering yes is not a fixed-point test op(k, e) == Some(e) at the orbit chamber e handed to the closure: %s (a test at the representative only misses the other chambers of a chain)" % show_atom(atoms[-1])[:80]
            else:
                tested.add(r[0])
    else:
        if len(disj) != 1:
            bad = "the conjunction has %d ways of being true" % len(disj)
        for bb, atoms in disj[:1]:
            for a in atoms:
                r = parse(a)
                if r == "bad":
                    bad = "a conjunct is not a test op(k, e) != Some(e) at the orbit chamber e handed to the closure: %s (a test at the representative only misses the other chambers of a chain)" % show_atom(a)[:80]
                elif r is not None and not r[1]:
                    tested.add(r[0])
    if not bad and tested != set(idx_terms):
        bad = "the tests cover the indices %s, not exactly %s" % (sorted(show(x, 1) for x in tested if x), sorted(show(x, 1) for x in idx_terms))
    ctx.ob(rule, b.name, what, "ok" if not bad else "violation", "a fixed-point test of every chamber of the orbit for both indices" if not bad else bad, b.span_of(call_bb))


def index_ranges_inclusive(ctx, rule, bodies, g, floor):
    """every loop whose variable is used as the INDEX argument of op / op_unchecked runs up to dim() inclusively (a D-set of dimension n
    has the n + 1 operations 0..=n; `0..dim()` silently ignores the last one)"""
    n = 0
    for b in bodies:
        for bi, t in b.calls():
            nm = t["callee"].get("def", "")
            if not (nm.endswith("DSet::op") or nm.endswith("::op_unchecked")):
                continue
            idx = norm(b.origin(t["args"][1]), g)
            r = loop_range_of_payload(b, idx, g)
            if r is None:
                continue
            n += 1
            hi = r[1]
            isdim = hi is not None and (is_call(hi, "::dim") or (hi[0] == "field" and hi[2] == "dim") or contains(hi, lambda y: is_call(y, "::dim") or (y[0] == "field" and y[2] == "dim")))
            ok = isdim and r[2] and eval_int(hi) is None
            plus1 = hi is not None and not r[2] and unov_term(hi)[0] == "binop" and unov_term(hi)[1] == "Add" and ("int", 1) in unov_term(hi)[2:]
            ok = ok or (isdim and plus1)
            ctx.ob(rule, b.name, "index loop of %s" % nm.split("::")[-1], "ok" if ok else "violation",
                   "the operation index runs up to dim() inclusively" if ok else
                   "the operation index runs over %s..%s%s: the last operation (index dim()) is never looked at" % (show(r[0], 1), "=" if r[2] else "", show(hi, 1)[:40] if hi is not None else ""), b.span_of(bi))
    ctx.floor("loops over operation indices (%s)" % rule, n, floor)


def unov_term(t):
    return ("binop", t[1][1].replace("WithOverflow", ""), t[1][2], t[1][3]) if t[0] == "field" and str(t[2]) == "0" and t[1][0] == "binop" else t


def paths_to(body, start, targets, stop=(), g=None, limit=200):
    """acyclic CFG paths from block `start` to any block in `targets` that avoid `stop` and the panic region:
    [(target, [normalised atoms of the edges taken])]"""
    pan = body.panic_blocks()
    out = []
    succ = body.succ()

    def dfs(bb, seen, atoms):
        if len(out) >= limit:
            return
        if bb in targets:
            out.append((bb, list(atoms)))
            return
        for nx in succ.get(bb, []):
            if nx in seen or nx in stop or nx in pan:
                continue
            ea = [atom_norm(a, g) for a in body.edge_atoms((bb, nx))]
            dfs(nx, seen | {nx}, atoms + ea)
    dfs(start, {start}, [])
    return out


def is_ovf_atom(atom):
    """an atom about the overflow flag of a checked arithmetic operation (`(a + b).1`): says nothing about the values in range"""
    return any(isinstance(y, tuple) and contains(y, lambda s_: s_[0] == "field" and str(s_[2]) == "1" and s_[1][0] == "binop" and s_[1][1].endswith("WithOverflow")) for y in atom[1:])


def storage_layout(ctx, rule, g):
    """PartialDSet / SimpleDSet keep op(i, d) in one vector: new() allocates size * (dim + 1) cells, idx(i, d) is a bijection from
    (0..=dim) x (1..=size) onto the cells, grow(count) adds count to size and appends exactly count * (dim + 1) empty cells (so that the
    bijection holds again for the new size).  Decided by evaluating the expressions for dim 1..3, size 1..4, count 0..2."""
    F = ctx.facts
    idxs = [F.bodies.get("dsets::PartialDSet::idx"), F.bodies.get("dsets::SimpleDSet::idx")]
    nb, gb = F.bodies.get("dsets::PartialDSet::new"), F.bodies.get("dsets::PartialDSet::grow")
    if None in idxs or nb is None or gb is None:
        raise AnchorMissing("dsets storage functions")
    ctx.scan(idxs + [nb, gb])
    bad = None
    alloc = None
    for bi, t in nb.calls("vec::from_elem"):
        a = [strip(norm(nb.origin(x), g)) for x in t["args"]]
        if a[0] == ("int", 0):
            alloc = a[1]
    if alloc is None:
        bad = "new() does not allocate a zero-filled vector"
    grow_cells = None
    for bi, t in gb.calls("vec::from_elem"):
        a = [strip(norm(gb.origin(x), g)) for x in t["args"]]
        if a[0] == ("int", 0):
            grow_cells = a[1]
    appended = any(strip(norm(gb.origin(t["args"][0]), g)) == ("field", ("param", 1, gb.debug.get(1, "")), "op") for bi, t in gb.calls("::append")) or \
        any(t["callee"].get("def", "").endswith("::resize") or t["callee"].get("def", "").endswith("Extend::extend") for bi, t in gb.calls())
    new_size = None
    for bi, si, s in gb.assigns():
        if any(e.get("k") == "field" and e.get("name") == "size" for e in s["place"]["p"]):
            new_size = norm(gb.rv_origin(s["rv"]), g)
    if not bad and (grow_cells is None or not appended or new_size is None):
        bad = "grow() does not (append zero cells to op and update size)"
    n = 0
    if not bad:
        for dim in (1, 2, 3):
            for size in (1, 2, 3, 4):
                cells = eval_term_env(alloc, {("param", 1, nb.debug.get(1, "")): size, ("param", 2, nb.debug.get(2, "")): dim})
                if cells != size * (dim + 1):
                    bad = bad or "new(%d, %d) allocates %s cells, not size * (dim + 1) = %d" % (size, dim, cells, size * (dim + 1))
                for ib in idxs:
                    me = ("param", 1, ib.debug.get(1, ""))
                    r = norm(ib.local_origin(0), g)
                    got = sorted(eval_term_env(r, {("field", me, "dim"): dim, ("param", 2, ib.debug.get(2, "")): i, ("param", 3, ib.debug.get(3, "")): d}) if True else None
                                 for i in range(dim + 1) for d in range(1, size + 1))
                    n += 1
                    if got != list(range(size * (dim + 1))):
                        bad = bad or "%s is not a bijection onto the %d cells for dim %d, size %d: cells %s" % (ib.name.split("::")[-2] + "::idx", size * (dim + 1), dim, size, got[:8])
                me = ("param", 1, gb.debug.get(1, ""))
                for count in (0, 1, 2):
                    env = {("field", me, "size"): size, ("field", me, "dim"): dim, ("call", "dsets::DSet::dim", (me,)): dim, ("param", 2, gb.debug.get(2, "")): count}
                    ns, nc = eval_term_env(new_size, env), eval_term_env(grow_cells, env)
                    if ns != size + count or nc != count * (dim + 1):
                        bad = bad or "grow(%d) on a set of size %d, dim %d sets size to %s and appends %s cells; expected %d and %d" % (count, size, dim, ns, nc, size + count, count * (dim + 1))
    ctx.ob(rule, "dsets::PartialDSet", "new / idx / grow", "ok" if not bad and n else "violation",
           "size * (dim + 1) cells, idx a bijection onto them, grow keeps both (evaluated for dim 1..3, size 1..4, count 0..2)" if not bad and n else (bad or "nothing evaluated"))


def coset_table_layout(ctx, rule, g):
    """CosetTable keeps the image of row c under the letter g (g in -n..-1, 1..n) in table[c][g + n]: rows are 2n + 1 cells wide (new() and
    the rows set() appends), the column expression is the same in get() and set() and maps the 2n letters injectively into 0..=2n, and an
    undefined cell is -1 (get() answers None exactly for negative cells).  Decided by evaluating the expressions for n = 1..3."""
    CT = "fpgroups::cosets::CosetTable::"
    gb, sb, nb = ctx.body(CT + "get"), ctx.body(CT + "set"), ctx.body(CT + "new")
    ctx.scan([gb, sb, nb])
    def col_of(b, pat):
        me = ("param", 1, b.debug.get(1, ""))
        for bi, t in b.calls(pat):
            a = [strip(norm(b.origin(x), g)) for x in t["args"]]
            if (is_call(a[0], "Index::index") or is_call(a[0], "IndexMut::index_mut")) and strip(a[0][2][0]) == ("field", me, "table"):
                return a[1], strip(a[0][2][1])
        return None, None
    gcol, grow = col_of(gb, "Index::index")
    scol, srow = col_of(sb, "IndexMut::index_mut")
    widths = []
    for b in (nb, sb):
        for bi, t in b.calls("vec::from_elem"):
            a = [strip(norm(b.origin(x), g)) for x in t["args"]]
            widths.append((b, a[0], a[1]))
    bad = None
    if gcol is None or scol is None:
        bad = "get()/set() do not address table[c][..]"
    elif grow != ("param", 2, gb.debug.get(2, "")) or srow != ("param", 2, sb.debug.get(2, "")):
        bad = "get()/set() do not address the row of their first argument"
    elif len(widths) < 2:
        bad = "new() and set() do not both create rows with vec![-1; ..]"
    n_eval = 0
    if not bad:
        for n in (1, 2, 3):
            cols_g, cols_s = [], []
            for letter in [x for x in range(-n, n + 1) if x != 0]:
                eg = eval_term_env(gcol, {("param", 3, gb.debug.get(3, "")): letter, ("field", ("param", 1, gb.debug.get(1, "")), "nr_gens"): n})
                es = eval_term_env(scol, {("param", 3, sb.debug.get(3, "")): letter, ("field", ("param", 1, sb.debug.get(1, "")), "nr_gens"): n})
                cols_g.append(eg)
                cols_s.append(es)
                n_eval += 1
            if cols_g != cols_s:
                bad = bad or "for %d generators get() reads columns %s but set() writes columns %s" % (n, cols_g, cols_s)
            elif None in cols_g or len(set(cols_g)) != 2 * n or min(cols_g) < 0 or max(cols_g) > 2 * n:
                bad = bad or "for %d generators the letters map to columns %s: not an injection into 0..=%d" % (n, cols_g, 2 * n)
            for b, fill, w in widths:
                env = {("field", ("param", 1, b.debug.get(1, "")), "nr_gens"): n, ("param", 1, b.debug.get(1, "")): n}
                if eval_int(fill) != -1 or eval_term_env(w, env) != 2 * n + 1:
                    bad = bad or "%s creates rows vec![%s; %s] for %d generators, expected vec![-1; %d]" % (b.name.split("::")[-1], show(fill, 1), eval_term_env(w, env), n, 2 * n + 1)
    ctx.ob(rule, "fpgroups::cosets::CosetTable", "new / get / set", "ok" if not bad and n_eval else "violation",
           "rows of 2n + 1 cells filled with -1; letter g lives in column g + n in get() and set() alike (n = 1..3)" if not bad and n_eval else (bad or "nothing evaluated"))
    # None exactly for cells < 0 and rows beyond the table
    somes = [bi for bi, si, s in gb.assigns() if s["place"]["l"] == 0 and s["rv"]["k"] == "aggregate" and s["rv"].get("variant") == "Some"]
    oksome = bool(somes)
    for bi in somes:
        fa = [atom_norm(x, g) for x in gb.facts_at(bi)]
        if not (any(x[0] == "rel" and implies(x, ("rel", "Le", ("int", 0), x[3])) for x in fa if x[0] == "rel" and x[1] in ("Le", "Lt") and x[2][0] == "int") and
                any(x[0] == "rel" and x[1] == "Lt" and strip(x[2]) == ("param", 2, gb.debug.get(2, "")) for x in fa)):
            oksome = False
    ctx.ob(rule, CT + "get", "Some <- c < len() && cell >= 0", "ok" if oksome else "violation",
           "an image is reported only for rows inside the table and non-negative cells" if oksome else "get() can report an image for a row beyond the table or for an undefined (-1) cell")


def overwritten_reads(body, loop_blocks, carried):
    """Origin terms name a multi-assigned local by the local alone, not by the moment it is read.  For the update expressions of loop-carried
    variables that is only right if every carried variable is read BEFORE it is overwritten in the same iteration (a simultaneous update such as
    `(a, b) = (b, a - q * b)`).  -> [(written local, read local, span)] for reads that come after an in-loop write of the read variable."""
    carried = {c[1] if isinstance(c, tuple) else c for c in carried}
    pos_key = lambda si: 10 ** 6 if si == "term" else si
    out = []

    def reads(rv_ops, pos, depth=0):
        for op in rv_ops:
            if op.get("k") not in ("copy", "move"):
                continue
            ls = [op["place"]["l"]] + [e["l"] for e in op["place"]["p"] if e["k"] == "index"]
            for l in ls:
                if l in carried:
                    yield l, pos
                elif depth < 12 and body.is_stable_local(l) and not (1 <= l <= body.argc):
                    d = body.defs[l][0]
                    if d[0] not in loop_blocks:
                        continue
                    if d[2] == "call":
                        yield from reads(d[3]["args"], (d[0], "term"), depth + 1)
                    elif d[2] == "assign":
                        rv = d[3]["rv"]
                        ops = rv_operands(rv)
                        if rv["k"] in ("ref", "copy_for_deref", "discr", "rawptr"):
                            ops = [{"k": "copy", "place": rv["place"]}]
                        yield from reads(ops, (d[0], d[1]), depth + 1)
    for x in carried:
        for d in body.defs.get(x, []):
            if d[0] not in loop_blocks:
                continue
            if d[2] == "call":
                rs = reads(d[3]["args"], (d[0], "term"))
            elif d[2] == "assign" and not d[3]["place"]["p"]:
                rv = d[3]["rv"]
                ops = rv_operands(rv)
                if rv["k"] in ("ref", "copy_for_deref", "discr", "rawptr"):
                    ops = [{"k": "copy", "place": rv["place"]}]
                rs = reads(ops, (d[0], d[1]))
            else:
                continue
            for y, (rb, rs_) in rs:
                for w in body.defs.get(y, []):
                    if w[0] not in loop_blocks or (w[2] == "assign" and w[3]["place"]["p"]):
                        continue
                    before = (w[0] == rb and pos_key(w[1]) < pos_key(rs_)) or (w[0] != rb and body.dominates(w[0], rb))
                    if before:
                        out.append((x, y, body.span_of(rb, rs_ if rs_ != "term" else None)))
    return out


def apply_closure(facts, clo, args, g):
    """the closure's return-value origin with captures and its own arguments substituted (one bottom-up pass: no name capture)"""
    cp = closure_parts(clo)
    if cp is None or cp[0] not in facts.bodies:
        return None
    cb = facts.bodies[cp[0]]
    caps = [norm(c, g) for c in cp[1]]

    def f(n):
        if n[0] == "field" and n[1][0] == "param" and n[1][1] == 1 and str(n[2]).isdigit() and int(n[2]) < len(caps):
            return caps[int(n[2])]
        if n[0] == "param" and n[1] >= 2 and n[1] - 2 < len(args):
            return args[n[1] - 2]
        return None
    return map_term(norm(cb.local_origin(0), g), f)


def simplify_proj(t):
    """field-of-aggregate and deref-of-value reductions after a substitution"""
    def f(n):
        if n[0] == "deref" and n[1][0] in ("agg", "int"):
            return n[1]
        if n[0] == "ref" and n[1][0] in ("agg", "int"):
            return n[1]
        if n[0] == "field" and n[1][0] == "agg" and str(n[2]).isdigit() and int(n[2]) < len(n[1][2]) and not n[1][1].startswith("closure"):
            return n[1][2][int(n[2])]
        return None
    return map_term(t, f)


class PipelineError(Exception):
    pass


def eval_pipeline(facts, term, g, source, env, cap=200):
    """evaluate an iterator pipeline term (adaptors applied to `source`, a python iterable of item terms standing for the innermost
    generator) -> python value (int / None / list).  Supported: take, skip, skip_while, take_while, filter, map, next, nth, last, count,
    unwrap, unwrap_or, expect.  Anything else raises PipelineError (callers fail closed)."""
    import itertools as it

    def val(t):
        t = simplify_proj(t)
        v = eval_term_env(unov_term(fold_std_ops(t)), env)
        if v is None:
            raise PipelineError("cannot evaluate %s" % show(t, 1)[:60])
        return v

    def call(clo, item):
        r = apply_closure(facts, clo, [item], g)
        if r is None:
            raise PipelineError("closure %s" % show(clo, 1)[:40])
        return simplify_proj(r)

    def truth(clo, item):
        r = call(clo, item)
        if r[0] == "binop" and r[1] in ("Eq", "Ne", "Lt", "Le", "Gt", "Ge"):
            a, b = val(r[2]), val(r[3])
            return {"Eq": a == b, "Ne": a != b, "Lt": a < b, "Le": a <= b, "Gt": a > b, "Ge": a >= b}[r[1]]
        v = val(r)
        return bool(v)

    def go(t):
        t = strip(t)
        if t[0] == "src":
            return iter(source)
        if t[0] == "agg" and t[1] in ("adt:std::ops::Range::Range",) and len(t[2]) == 2:
            return iter([("int", k) for k in range(val(t[2][0]), val(t[2][1]))])
        if t[0] != "call":
            raise PipelineError("not a call: %s" % show(t, 1)[:50])
        nm = t[1].split("::")[-1]
        a = t[2]
        if nm == "new" and "RangeInclusive" in t[1] and len(a) == 2:
            return iter([("int", k) for k in range(val(a[0]), val(a[1]) + 1)])
        if nm in ("iter", "into_iter", "cloned", "copied", "by_ref", "deref"):
            r = go(a[0])
            return iter(r) if isinstance(r, list) else r
        if nm == "collect":
            return list(it.islice(go(a[0]), cap))
        if nm == "chain":
            return it.chain(go(a[0]), go(a[1]))
        if nm == "rev":
            return iter(list(it.islice(go(a[0]), cap))[::-1])
        if nm == "take":
            return it.islice(go(a[0]), max(0, val(a[1])))
        if nm == "skip":
            return it.islice(go(a[0]), max(0, val(a[1])), None)
        if nm == "skip_while":
            return it.dropwhile(lambda x: truth(a[1], x), go(a[0]))
        if nm == "take_while":
            return it.takewhile(lambda x: truth(a[1], x), go(a[0]))
        if nm == "filter":
            return (x for x in go(a[0]) if truth(a[1], x))
        if nm == "map" and "Option" in t[1]:
            r = go(a[0])
            return ("some", call(a[1], r[1])) if isinstance(r, tuple) and r and r[0] == "some" else r
        if nm == "map":
            return (call(a[1], x) for x in go(a[0]))
        if nm == "find":
            for x in it.islice(go(a[0]), cap):
                if truth(a[1], x):
                    return ("some", x)
            return ("none",)
        if nm == "position":
            for k_, x in enumerate(it.islice(go(a[0]), cap)):
                if truth(a[1], x):
                    return ("some", ("int", k_))
            return ("none",)
        if nm == "next":
            for x in it.islice(go(a[0]), cap):
                return ("some", x)
            return ("none",)
        if nm == "nth":
            for x in it.islice(go(a[0]), val(a[1]), cap):
                return ("some", x)
            return ("none",)
        if nm in ("unwrap", "expect"):
            r = go(a[0])
            if r == ("none",):
                return ("panic",)
            return r[1] if isinstance(r, tuple) and r[0] == "some" else r
        if nm == "unwrap_or":
            r = go(a[0])
            return a[1] if r == ("none",) else (r[1] if isinstance(r, tuple) and r[0] == "some" else r)
        raise PipelineError("adaptor %s is not modelled" % nm)
    r = go(term)
    if r == ("panic",):
        return "panic"
    if isinstance(r, list):
        return [val(x) for x in r]
    if isinstance(r, tuple) and r and r[0] in ("some", "none"):
        return r
    return val(r)


def reach_table_by_length(body, bb, g, lengths=(0, 1, 2, 5), any_len=False):
    """{L: is block bb reached for a word of length L} judged by the dominating facts that mention FreeWord::len / is_empty (all of one word:
    callers use it in loops over one relator); None if no such fact dominates; a value None = a fact that cannot be evaluated"""
    def mentions(y):
        return isinstance(y, tuple) and y and y[0] == "call" and (y[1].endswith("FreeWord::len") or y[1].endswith("is_empty") or (any_len and y[1].endswith("::len")))
    atoms = [atom_norm(a, g) for a in body.facts_at(bb)]
    rel_atoms = []
    for a in atoms:
        holder = ("agg", "x", tuple(x for x in a[1:] if isinstance(x, tuple)))
        if contains(holder, mentions):
            rel_atoms.append((a, holder))
    if not rel_atoms:
        return None
    table = {}
    for L in lengths:
        vals = []
        for a, holder in rel_atoms:
            env = {}
            for y in subterms(holder):
                if mentions(y):
                    env[y] = L if y[1].endswith("::len") else (1 if L == 0 else 0)
            vals.append(eval_atom_env(a, env))
        table[L] = None if any(v is None for v in vals) else all(vals)
    return table


def unov_deep(t):
    """checked arithmetic `(a +ovf b).0` -> a + b everywhere in the term"""
    return map_term(t, lambda x: ("binop", x[1][1].replace("WithOverflow", ""), x[1][2], x[1][3])
                    if x[0] == "field" and str(x[2]) == "0" and x[1][0] == "binop" and x[1][1].endswith("WithOverflow") else None)


def as_index(t):
    t = strip(t)
    if t[0] == "index":
        return strip(t[1]), t[2]
    if is_call(t, "Index::index") and len(t[2]) == 2:
        return strip(t[2][0]), t[2][1]
    return None


def renumbered_builder(ctx, rule, body, g, index_of=None, what="", outer="derived::build_sym_using_vs", acc="DSym::v", ret=None):
    """a symbol rebuilt under a renumbering src2img / img2src of its chambers (canonical form, subsymbol):
        op'(i, d) = src2img[ ds.op(I(i), img2src[d]) ],   v'(i, d) = ds.v(I(i), I(i + 1), img2src[d])
    with the two maps inverse to each other; I = identity, or indices[.] for a subsymbol.  Checks the two closures handed to build_set /
    build_sym_using_vs.  -> (src2img term, img2src term) or None"""
    b = body
    ds = ("param", 1, b.debug.get(1, ""))
    r = strip(norm(b.local_origin(0), g)) if ret is None else ret
    bad = None
    maps = None
    if not (is_call(r, outer) and is_call(strip(r[2][0]), "derived::build_set")):
        bad = "not %s(build_set(..), ..)" % outer.split("::")[-1]
    else:
        bs = strip(r[2][0])
        i_, d_ = ("local", -1, "i"), ("local", -2, "d")
        opr = apply_closure(ctx.facts, strip(bs[2][2]), [i_, d_], g)
        vr = apply_closure(ctx.facts, strip(r[2][1]), [i_, d_], g)
        I = (lambda t: t) if index_of is None else index_of
        o = strip(opr) if opr is not None else None
        if not (o is not None and is_call(o, "Option::<T>::map") and is_call(strip(o[2][0]), "DSet::op")):
            bad = "op'(i, d) is not ds.op(.., img2src[d]).map(|e| src2img[e]): %s" % (show(o, 1)[:70] if o else None)
        else:
            oc = strip(o[2][0])
            a = [strip(y) for y in oc[2]]
            ix = as_index(a[2])
            ix = ("index", ix[0], ix[1]) if ix else None
            inner = apply_closure(ctx.facts, strip(o[2][1]), [("local", -3, "e")], g)
            inner = strip(inner) if inner is not None else None
            if not (a[0] == ds and unov_deep(a[1]) == I(i_) and ix is not None and strip(ix[2]) == d_):
                bad = "op'(i, d) does not look up ds.op(%s, img2src[d]): %s" % ("indices[i]" if index_of else "i", show(oc, 1)[:70])
            elif not (inner is not None and as_index(inner) and strip(as_index(inner)[1]) == ("local", -3, "e")):
                bad = "the image of op is not src2img[e]: %s" % (show(inner, 1)[:50] if inner else None)
            else:
                img2src, src2img = strip(ix[1]), as_index(inner)[0]
                v = unov_deep(strip(vr)) if vr is not None else None
                if img2src == src2img:
                    bad = "op'(i, d) maps into and out of the SAME table (%s): the renumbering is not inverted" % show(img2src, 1)[:30]
                elif not (v is not None and is_call(v, acc) and strip(v[2][0]) == ds and unov_deep(strip(v[2][1])) == I(i_) and
                          unov_deep(strip(v[2][2])) == unov_deep(I(("binop", "Add", i_, ("int", 1)))) and as_index(v[2][3]) and as_index(v[2][3])[0] == img2src and strip(as_index(v[2][3])[1]) == d_):
                    bad = "v'(i, d) is not ds.v(%s, img2src[d]): %s" % ("indices[i], indices[i + 1]" if index_of else "i, i + 1", show(v, 1)[:80] if v else None)
                else:
                    maps = (src2img, img2src)
    ctx.ob(rule, b.name, "renumbered op / v" + what, "ok" if not bad else "violation",
           "op'(i, d) = src2img[ds.op(I(i), img2src[d])], v'(i, d) = ds.v(I(i), I(i + 1), img2src[d])" if not bad else bad)
    return maps


def reachable_sites(body, g, sites, valuation, limit=300, start=0):
    """which of the blocks `sites` can be reached when the opaque sub-terms of the branch conditions take the values given by
    `valuation(term) -> int | None` (None = not fixed: the condition may go either way).  Path conditions of all acyclic paths from the entry."""
    out = set()
    for bb in sites:
        for tg, ats in paths_to(body, start, {bb}, g=g, limit=limit):
            ok = True
            for a in ats:
                if a[0] in ("variant", "notvariant"):
                    # which variant an opaque Option / enum value has: valuation(("discr", term)) -> variant index
                    dv = valuation(("discr", strip(norm(a[1], g))))
                    if dv is not None and ((a[0] == "variant" and dv != a[2]) or (a[0] == "notvariant" and dv in a[2])):
                        ok = False
                        break
                    continue
                if is_ovf_atom(a) or a[0] not in ("rel", "bool"):
                    continue
                a = atom_norm(a, g)
                env = {}
                for y in subterms(("agg", "x", tuple(x for x in a[1:] if isinstance(x, tuple)))):
                    if isinstance(y, tuple) and y:
                        v = valuation(y)
                        if v is not None:
                            env[y] = v
                c = eval_atom_env(a, env)
                if c is None:
                    continue
                if not c:
                    ok = False
                    break
            if ok:
                out.add(bb)
                break
    return out


def chamber_tables(ctx, rule, body, g, fill=0):
    """tables indexed by chamber numbers 1..=size are created as vec![0; size() + 1] (slot 0 unused, 0 = no entry yet): evaluated for size 7 the
    length must be 8 - one less reads past the end at the last chamber, the fill value 0 is what `no entry yet` is tested against"""
    b = body
    n = 0
    for bi, t in b.calls("vec::from_elem"):
        a = [strip(norm(b.origin(x), g)) for x in t["args"]]
        szs = [y for y in subterms(a[1]) if isinstance(y, tuple) and y and ((y[0] == "call" and y[1].endswith("::size")) or (y[0] == "field" and y[2] in ("size", "max_size")))]
        if not szs:
            continue
        n += 1
        ln = eval_term_env(unov_deep(fold_std_ops(a[1])), {y: 7 for y in szs})
        fv = eval_int(a[0])
        ok = ln == 8 and (fill is None or fv == fill)
        ctx.ob(rule, b.name, "vec![%s; size() + 1]" % fill, "ok" if ok else "violation",
               "a chamber-indexed table has size() + 1 slots filled with %s" % fill if ok else
               "a chamber-indexed table is created with %s slots (for size 7) filled with %s: it must have size() + 1 = 8 slots (chambers are numbered from 1) filled with %s (= no entry yet)" % (ln, fv, fill), b.span_of(bi))
    return n



def bool_results(body, g, valuation):
    """the set of values a bool-returning function can return under a valuation of its opaque sub-terms (see reachable_sites); a returned
    expression is evaluated with the same valuation, None in the set = a return whose value is not fixed by the valuation"""
    rets = {}
    for bi, si, s in body.assigns():
        if s["place"]["l"] == 0 and not s["place"]["p"]:
            rets[bi] = strip(norm(body.rv_origin(s["rv"]), g))
    for bi, t in body.calls():
        if t["dest"]["l"] == 0 and not t["dest"]["p"]:
            rets[bi] = ("call", t["callee"].get("def", "?"), tuple(strip(norm(body.origin(a), g)) for a in t["args"]))
    out = set()
    for bi in reachable_sites(body, g, set(rets), valuation):
        t = rets[bi]
        env = {}
        for y in subterms(t):
            if isinstance(y, tuple) and y:
                v = valuation(y)
                if v is not None:
                    env[y] = v
        v = eval_term_env(fold_std_ops(t), env)
        out.add(None if v is None else bool(v))
    return out


def op_fallback_is_fixed_point(ctx, rule, body, g, allow_zero=False):
    """`op(k, x).unwrap_or(y)`: an undefined operation leaves the walk where it is, so the fallback y is the chamber x the operation was applied
    to (any other chamber - the previous one, the start - silently glues two open ends of a partial D-set together or walks in place).
    `allow_zero`: the printer's `unwrap_or(0)` marker.  Returns the number of sites."""
    n = 0
    for bi, t in body.calls("Option::<T>::unwrap_or"):
        a = [strip(norm(body.origin(x), g)) for x in t["args"]]
        if not (is_call(a[0], "::op") and len(a[0][2]) == 3):
            continue
        if allow_zero and eval_int(a[1]) == 0:
            continue
        n += 1
        x = strip(a[0][2][2])
        ok = x == a[1]
        ctx.ob(rule, body.name, "op(k, x).unwrap_or(x)", "ok" if ok else "violation",
               "an undefined operation leaves the chamber where it is" if ok else
               "the fallback of an undefined operation is not the chamber it was applied to: op(_, %s).unwrap_or(%s)" % (show(x, 1)[:40], show(a[1], 1)[:40]), body.span_of(bi))
    return n
