"""Rule templates shared by several properties (DESIGN.md section 3)."""
from .core import *


def origin_head(t):
    """short, position-free signature of a value origin (used in violation keys)"""
    t = strip(t)
    k = t[0]
    if k == "call":
        return "call:" + (t[1])
    if k == "field":
        return "field:." + str(t[2])
    if k == "agg":
        return "agg:" + t[1]
    if k in ("param", "local"):
        return "%s:%s" % (k, t[2] or t[1])
    if k == "int":
        return "int:%s" % t[1]
    if k == "binop":
        return "binop:" + t[1]
    return k


def t1_write_through(ctx, rule, adt, field, sanitizers, bodies=None, extra_ok=None):
    """T1: every write of `adt.field` takes its value from a sanitiser, or copies another instance's field.
    Returns number of write sites seen."""
    n = 0
    bodies = ctx.scan(bodies if bodies is not None else ctx.facts.all_bodies())
    for body in bodies:
        for bi, si, s in body.assigns():
            rv = s["rv"]
            pl = s["place"]
            val = None
            what = None
            if rv["k"] == "aggregate" and rv.get("agg") == "adt" and rv["adt"] == adt:
                if field not in rv["fields"]:
                    continue
                val = body.origin(rv["ops"][rv["fields"].index(field)])
                what = "construct"
            elif pl["p"] and pl["p"][-1]["k"] == "field" and pl["p"][-1].get("adt") == adt and pl["p"][-1]["name"] == field:
                val = body.rv_origin(rv)
                what = "assign"
            elif rv["k"] in ("ref", "rawptr") and (rv.get("mut") or rv["k"] == "rawptr") and \
                    any(e["k"] == "field" and e.get("adt") == adt and e["name"] == field for e in rv["place"]["p"]):
                n += 1
                ctx.ob(rule, body.name, "mutborrow:." + field, "violation",
                       "a mutable borrow of %s.%s escapes the sanitiser (the field can then be changed without re-normalising)" % (adt, field),
                       body.span_of(bi, si))
                continue
            if val is None:
                continue
            n += 1
            v = strip_refs(val)
            ok = False
            why = ""
            if v[0] == "call" and ((v[5] or v[1]) in sanitizers or v[1] in sanitizers):
                ok, why = True, "value comes from sanitiser " + v[1]
            elif v[0] == "call" and v[1].endswith("clone::Clone::clone"):
                inner = strip(v[2][0])
                if inner[0] == "field" and inner[2] == field:
                    ok, why = True, "clone of another instance's ." + field
            elif strip(v)[0] == "field" and strip(v)[2] == field:
                ok, why = True, "move/copy of another instance's ." + field
            if not ok and extra_ok:
                r = extra_ok(body, v)
                if r:
                    ok, why = True, r
            ctx.ob(rule, body.name, "%s:.%s<-%s" % (what, field, origin_head(v)), "ok" if ok else "violation",
                   why if ok else "%s.%s is written with a value that did not pass through %s: %s" % (adt, field, sorted(sanitizers), show(v)[:160]),
                   body.span_of(bi, si))
    return n


def strip_refs(t):
    while t[0] in ("ref", "deref"):
        t = t[1]
    return t


def calls_reachable(ctx, roots, local_only=True, depth=None):
    """all call terminators in the bodies reachable from roots (+closures): [(body, bb, term)]"""
    out = []
    seen = set()
    for r in roots:
        for d in ctx.facts.reachable(r):
            if d in seen:
                continue
            seen.add(d)
            b = ctx.facts.bodies[d]
            for bi, t in b.calls():
                out.append((b, bi, t))
    ctx.scan(ctx.facts.bodies[d] for d in seen)
    return out


def field_vis(ctx, adt, field):
    a = ctx.facts.adts.get(adt)
    if a is None:
        raise AnchorMissing("type not found: " + adt)
    for v in a["variants"]:
        for f in v["fields"]:
            if f["name"] == field:
                return f["vis"], f["ty"]
    raise AnchorMissing("field not found: %s.%s" % (adt, field))


def is_private(vis):
    # Restricted(DefId(.. ~ crate::module)) is private to a module; Public is public
    return vis.startswith("Restricted") and "crate_root" not in vis


def impls_of(ctx, self_ty_sub, trait_sub):
    return [i for i in ctx.facts.impls if i.get("trait") and trait_sub in i["trait"] and self_ty_sub in i["self_ty"]]


ITER_WRAPPERS = ("IntoIterator::into_iter", "::iter", "::iter_mut", "Iterator::rev", "Iterator::cloned", "Iterator::copied", "Iterator::enumerate")


def iter_source(body, term, getters=None):
    """for the payload of `next()` on an iterator local: the normalised origin of what is iterated
    (into_iter/iter/rev/cloned wrappers removed); None if `term` is not such a payload"""
    t = norm(term, getters)
    if not (t[0] == "field" and t[1][0] == "variant" and t[1][2] == "Some"):
        return None
    c = t[1][1]
    if not (c[0] == "call" and c[1].endswith("Iterator::next") and len(c[2]) == 1):
        return None
    it = c[2][0]
    d = norm(body.def_origin(it), getters) if it[0] == "local" else it
    while d[0] == "call" and len(d[2]) >= 1 and any(d[1].endswith(w) for w in ITER_WRAPPERS):
        d = d[2][0]
    return d


def range_of(body, term, getters=None):
    """(lo, hi, inclusive) when `term` (an iterator local or expression) is a Range / RangeInclusive; else None"""
    d = norm(body.def_origin(term), getters)
    while d[0] == "call" and len(d[2]) >= 1 and any(d[1].endswith(w) for w in ITER_WRAPPERS):
        d = d[2][0]
    if d[0] == "agg" and d[1].endswith("ops::Range::Range") and len(d[2]) == 2:
        return (d[2][0], d[2][1], False)
    if d[0] == "call" and d[1].endswith("RangeInclusive::<Idx>::new") and len(d[2]) == 2:
        return (d[2][0], d[2][1], True)
    if d[0] == "agg" and d[1].endswith("RangeFrom::RangeFrom") and len(d[2]) == 1:
        return (d[2][0], None, False)
    return None


def loop_range_of_payload(body, term, getters=None):
    """range iterated by the loop whose payload is `term`"""
    t = norm(term, getters)
    if not (t[0] == "field" and t[1][0] == "variant" and t[1][2] == "Some"):
        return None
    c = t[1][1]
    if not (c[0] == "call" and c[1].endswith("Iterator::next") and len(c[2]) == 1):
        return None
    return range_of(body, c[2][0], getters)


def ret_origin(body, getters=None):
    return norm(body.local_origin(0), getters)


def callers_of(ctx, callee_exact, include_tests=False):
    out = []
    for b in ctx.facts.all_bodies(include_tests):
        for bi, t in b.calls(exact=callee_exact):
            out.append((b, bi, t))
    return out


def vec_literal(body, term):
    """elements of a `vec![a, b, c]` literal whose (un-normalised) origin term is `term`; None if it is not such a literal"""
    t = strip(term)
    if not (t[0] == "call" and t[1].endswith("box_assume_init_into_vec_unsafe") and t[2]):
        # vec![] / Vec::new()
        if t[0] == "call" and t[1].endswith("Vec::<T>::new"):
            return []
        return None
    nu = strip(t[2][0])
    if not (nu[0] == "call" and nu[1].endswith("new_uninit")):
        return None
    marker = nu[4] if len(nu) > 4 else None
    for bi, si, s in body.assigns():
        rv = s["rv"]
        if rv["k"] == "aggregate" and rv.get("agg") == "array" and any(e["k"] == "deref" for e in s["place"]["p"]):
            base = body.local_origin(s["place"]["l"])
            if contains(base, lambda x: isinstance(x, tuple) and len(x) > 4 and x[0] == "call" and x[1].endswith("new_uninit") and x[4] == marker):
                return [body.origin(o) for o in rv["ops"]]
    return None


def str_consts_in(body):
    out = []
    for bi, si, s in body.assigns():
        for o in rv_operands(s["rv"]):
            if o["k"] == "const" and "str" in o:
                out.append(o["str"])
    for bi, t in body.calls():
        for o in t["args"]:
            if o["k"] == "const" and "str" in o:
                out.append(o["str"])
    return out
