"""C04 - minimal image / morphisms / automorphisms (DESIGN 4/C04)."""
from ..core import *
from ..templates import *

EXPLANATION = (
    "Decided: (1) morphism search is degree-preserving between the two symbols: in DSet::morphism every lookup in the *other* symbol for a "
    "pair (d, e) taken from the work queue is dominated by a degree comparison on that same pair whose code reads degrees of both self and "
    "other (so every mapped pair, the base pair and the last ones included, is degree-checked before the map is returned). (2) fold's "
    "congruence respects degrees: the initial pair and every pushed pair are dominated by degrees_match on the same operands, every unite "
    "takes a pair popped from the queue. (3) is_minimal and minimal_image use the same relation: both call fold(&p, 1, d) with base chamber "
    "constant 1 over the inclusive range 2..=size(). (4) range completeness: the index loops of fold and morphism are 0..=dim(), "
    "degrees_match ranges over 0..dim() and compares m(i, i+1, .) of its two chambers, automorphisms tries every base image 1..=size() with "
    "morphism(self, self, d). (5) a base image that is not a chamber is rejected: morphism answers None for it only because other.m(k, k+1, e) is None there, "
    "so the accessors' `None outside the ranges` rule of C02 (T4-none-outside-ranges) is evaluated here too. NOT decided: minimality/uniqueness of the quotient, exactness of the automorphism list, isomorphism of minimal "
    "images of covers (these need the semantics of the congruence).")
TRUSTED = ["rustc MIR lowering", "queue discipline: every pushed pair is popped (VecDeque semantics)", "Partition correctness, see C20"]
ASSUMPTIONS = ["connected input (as the property states)"]

DEG_FNS = ("dsets::DSet::m", "dsyms::DSym::v", "dsets::DSet::r")


def popped_components(body, g):
    """normalised terms of the two components of the pair popped from a VecDeque in this body"""
    out = set()
    for bi, t in body.calls("VecDeque::<T, A>::pop_front"):
        c = norm(body.local_origin(t["dest"]["l"]), g) if not t["dest"]["p"] else None
        if c is None:
            continue
        pay = ("field", ("variant", c, "Some"), "0")
        out.add((("field", pay, "0"), ("field", pay, "1")))
    return out


def guard_reads_degrees(ctx, call_term, g, want_generics):
    """does the guard call (possibly Iterator::all with a closure, or a helper) read degrees with every receiver type in want_generics?"""
    c = strip(call_term)
    roots = []
    for a in c[2]:
        cp = closure_parts(a)
        if cp:
            roots.append(cp[0])
    name = (c[5] if len(c) > 5 and c[5] else None) or c[1]
    roots += [d for d in ctx.facts.resolve_targets(name)]
    seen = set()
    for r in roots:
        for d in ctx.facts.reachable(r, fanout=False):
            b = ctx.facts.bodies[d]
            for bi, t in b.calls():
                cal = t["callee"]
                if cal.get("def") in DEG_FNS or cal.get("def") == "dsets::DSet::degrees_match":
                    seen.add((cal.get("args") or ["?"])[0])
    return seen


def run(ctx):
    g = ctx.facts.getters()
    morphism(ctx, g)
    fold(ctx, g)
    same_relation(ctx, g)
    ranges(ctx, g)
    quotient_shape(ctx, g)
    decision_tables(ctx, g)
    ctx.floor("chamber-indexed tables in morphism / minimal_image", chamber_tables(ctx, "T4-chamber-table", ctx.body("dsets::DSet::morphism"), g) + chamber_tables(ctx, "T4-chamber-table", ctx.body("derived::minimal_image"), g), 3)
    # morphism(other, img0) answers None for a base image that is not a chamber only because other.m(k, k + 1, img0) is None there;
    # fundamental_group's dummy ridge (0, 0, 0) relies on the same for covers
    from . import c02
    c02.none_outside_ranges(ctx, g)


def quotient_shape(ctx, g):
    """minimal_image: the classes of the folded partition are numbered 1.. in order of their first member (src2img[rep] assigned once, img2src its
    inverse on representatives, every chamber gets its class's number), and the quotient has next - 1 chambers with
    op'(i, c) = src2img[ds.op(i, img2src[c])] and m'(i, c) = ds.m(i, i + 1, img2src[c]) - operations and degrees of a representative"""
    ctx.clauses.append("minimal_image: classes numbered consecutively through their representative; quotient operations and degrees read at the representative (T9)")
    b = ctx.body("derived::minimal_image")
    ctx.scan(ctx.facts.with_closures(b.name))
    ds = ("param", 1, b.debug.get(1, ""))
    rets = [strip(norm(d, g)) for dbb, d in b.all_defs_origins(0)]
    rets += [strip(norm(b.local_origin(t["dest"]["l"]), g)) for bi, t in b.calls("derived::build_sym_using_ms") if t["dest"]["l"] == 0]
    q = [r for r in rets if is_call(r, "derived::build_sym_using_ms")]
    if not q:
        q = [("call", "derived::build_sym_using_ms", tuple(strip(norm(b.origin(a), g)) for a in t["args"])) for bi, t in b.calls("derived::build_sym_using_ms")]
    if len(q) != 1:
        ctx.ob("T9-quotient-shape", b.name, "quotient", "violation", "the quotient is not built by one build_sym_using_ms(build_set(..), ..)")
        return
    maps = renumbered_builder(ctx, "T9-quotient-shape", b, g, outer="derived::build_sym_using_ms", acc="DSet::m", ret=q[0])
    if maps is None:
        return
    src2img, img2src = maps
    bad = None
    bs = strip(q[0][2][0])
    stores = []
    for bi, si, s in b.assigns():
        if [e["k"] for e in s["place"]["p"]] == ["deref"]:
            tgt = strip(norm(b.local_origin(s["place"]["l"]), g))
            if is_call(tgt, "IndexMut::index_mut"):
                stores.append((bi, strip(tgt[2][0]), strip(tgt[2][1]), strip(norm(b.rv_origin(s["rv"]), g))))
    s_src = [x for x in stores if x[1] == src2img]
    s_img = [x for x in stores if x[1] == img2src]
    if len(s_src) != 2 or len(s_img) != 1:
        bad = "not (src2img[e] = next; img2src[next] = e; src2img[d] = src2img[e])"
    else:
        ib, _, nk, ev = s_img[0]
        first = [x for x in s_src if x[3] == nk]
        rest = [x for x in s_src if x not in first]
        # img2src[next] may hold the representative or the member at hand: operations and degrees are the same on every member of a class
        if len(first) != 1 or len(rest) != 1 or nk[0] != "local" or ev not in (first[0][2], rest[0][2]):
            bad = "the class number is not stored at the representative and inverted: src2img[e] = next, img2src[next] = e"
        else:
            e = first[0][2]
            dd = rest[0][2]
            okrep = is_call(e, "Partition::<T>::find") or (e[0] == "local" and any(is_call(strip(norm(x, g)), "Partition::<T>::find") for _, x in b.all_defs_origins(e[1])))
            et = e if is_call(e, "Partition::<T>::find") else [strip(norm(x, g)) for _, x in b.all_defs_origins(e[1])][0]
            okd = okrep and strip(et[2][1]) == dd
            val = as_index(rest[0][3])
            fa = [atom_norm(x, g) for x in b.facts_at(first[0][0])]
            fresh = any(x[0] == "rel" and x[1] == "Eq" and as_index(x[2]) and as_index(x[2])[0] == src2img and strip(as_index(x[2])[1]) == e and eval_int(x[3]) == 0 for x in fa)
            defs = [(dbb, strip(norm(d, g))) for dbb, d in b.all_defs_origins(nk[1])]
            inc = [dbb for dbb, d in defs if unov_deep(d) == ("binop", "Add", nk, ("int", 1))]
            ini = [d for dbb, d in defs if eval_int(d) == 1]
            rd = loop_range_of_payload(b, dd, g)
            size_t = unov_deep(strip(bs[2][0]))
            if not okd:
                bad = "the representative is not p.find(&d) of the chamber being numbered"
            elif not (val and val[0] == src2img and strip(val[1]) == e):
                bad = "a chamber does not get the number of its representative (src2img[d] = src2img[e])"
            elif not fresh:
                bad = "a new class number is not taken exactly when the representative has none yet (src2img[e] == 0)"
            elif len(inc) != 1 or len(ini) != 1 or inc[0] not in b.fwd(first[0][0]):
                bad = "the class counter is not `next = 1; next += 1` once per new class"
            elif not (rd and eval_int(rd[0]) == 1 and rd[2] and is_call(strip(rd[1]), "::size")):
                bad = "not every chamber 1..=size() is assigned a class number"
            elif size_t != ("binop", "Sub", nk, ("int", 1)):
                bad = "the quotient does not have next - 1 chambers: %s" % show(size_t, 1)[:40]
            elif not (b.dominates(first[0][0], rest[0][0]) or rest[0][0] in b.fwd(first[0][0])):
                bad = "a chamber is numbered before its class has a number"
    ctx.ob("T9-quotient-shape", b.name, "class numbering", "ok" if not bad else "violation",
           "e = p.find(&d); new number iff src2img[e] == 0 (inverse stored); src2img[d] = src2img[e]; all chambers; next - 1 classes" if not bad else bad)


def decision_tables(ctx, g):
    """fold and morphism as decision procedures: which effect / answer is possible is decided from the path conditions, with the opaque tests
    (degrees_match, find, the degree comparison, the table entry) set to every combination of outcomes.
    fold(p0, d, e): None at once iff d == 0, e == 0 or the degrees of d and e differ; a popped pair is united - and its images looked at - iff its
    two members are NOT yet in one class; images with matching degrees are queued, images with different degrees answer None.
    morphism: a popped pair with different degrees answers None; an image chamber without an entry gets one and is queued; one whose entry
    differs answers None; one whose entry agrees is left alone"""
    ctx.clauses.append("fold / morphism decision tables: every combination of test outcomes leads to exactly the effects of the definition (T4, path conditions evaluated)")
    b = ctx.body("dsets::DSet::fold")
    me, d_, e_ = ("param", 1, b.debug.get(1, "")), ("param", 3, b.debug.get(3, "")), ("param", 4, b.debug.get(4, ""))
    nones = {bi for bi, si, s in b.assigns() if s["place"]["l"] == 0 and not s["place"]["p"] and strip(norm(b.rv_origin(s["rv"]), g))[1].endswith("Option::None")}
    somes = {bi for bi, si, s in b.assigns() if s["place"]["l"] == 0 and not s["place"]["p"] and strip(norm(b.rv_origin(s["rv"]), g))[1].endswith("Option::Some")}
    unite = {bi for bi, t in b.calls("Partition::<T>::unite")}
    push = {bi for bi, t in b.calls("VecDeque::<T, A>::push_back")}
    bad = None
    if not (nones and somes and len(unite) == 1 and len(push) == 1):
        bad = "fold does not have None / Some answers, one unite and one push_back"
    else:
        top = ("call", "dsets::DSet::degrees_match", (me, d_, e_))

        def val(case):
            dv, ev, m0, same, m1 = case
            def f(y):
                if y == d_:
                    return dv
                if y == e_:
                    return ev
                if y[0] == "call" and y[1].endswith("DSet::degrees_match"):
                    return m0 if (y[0], y[1], tuple(strip(z) for z in y[2])) == top else m1
                if y[0] == "call" and y[1].endswith("Partition::<T>::find"):
                    k = strip(y[2][1])
                    return 1 if (k[0] == "field" and k[2] == "0") or same else 2
                return None
            return f
        sites = nones | somes | unite | push
        # (d, e, degrees of d,e match, popped pair already in one class, degrees of the images match) -> (None possible, unite, push, Some possible)
        want = {(0, 2, 1, 0, 1): (True, False, False, False), (2, 0, 1, 0, 1): (True, False, False, False), (2, 3, 0, 0, 1): (True, False, False, False),
                (2, 3, 1, 1, 1): (False, False, False, True), (2, 3, 1, 0, 1): (False, True, True, True), (2, 3, 1, 0, 0): (True, True, False, True)}
        for case, w in want.items():
            r = reachable_sites(b, g, sites, val(case))
            got = (bool(r & nones), bool(r & unite), bool(r & push), bool(r & somes))
            if got != w:
                names = ("answers None", "unites the pair", "queues the images", "can answer Some(p)")
                diff = [("%s%s" % ("" if g_ else "never ", n_)) for g_, w_, n_ in zip(got, w, names) if g_ != w_]
                bad = "for d = %d, e = %d, degrees of (d, e) %s, popped pair %s, degrees of the images %s: fold %s" % (
                    case[0], case[1], "equal" if case[2] else "different", "already in one class" if case[3] else "in different classes", "equal" if case[4] else "different", "; ".join(diff))
                break
    ctx.ob("T4-decision-table", b.name, "fold", "ok" if not bad else "violation", "6 combinations of test outcomes give the effects of the definition" if not bad else bad)
    b = ctx.body("dsets::DSet::morphism")
    ctx.scan(ctx.facts.with_closures(b.name))
    nones = {bi for bi, si, s in b.assigns() if s["place"]["l"] == 0 and not s["place"]["p"] and strip(norm(b.rv_origin(s["rv"]), g))[1].endswith("Option::None")}
    somes = {bi for bi, si, s in b.assigns() if s["place"]["l"] == 0 and not s["place"]["p"] and strip(norm(b.rv_origin(s["rv"]), g))[1].endswith("Option::Some")}
    pushes = [(bi, strip(norm(b.origin(t["args"][1]), g))) for bi, t in b.calls("VecDeque::<T, A>::push_back")]
    stores = []
    for bi, si, s in b.assigns():
        if [e["k"] for e in s["place"]["p"]] == ["deref"]:
            tgt = strip(norm(b.local_origin(s["place"]["l"]), g))
            if is_call(tgt, "IndexMut::index_mut"):
                stores.append((bi, strip(tgt[2][1]), strip(norm(b.rv_origin(s["rv"]), g))))
    bad = None
    img0 = ("param", 3, b.debug.get(3, ""))
    seed_store = [x for x in stores if eval_int(x[1]) == 1 and x[2] == img0]
    seed_push = [x for x in pushes if x[1] == ("agg", "tuple", (("int", 1), img0))]
    ext_push = [x for x in pushes if x not in seed_push]
    ext_store = [x for x in stores if x not in seed_store]
    if len(seed_store) != 1 or len(seed_push) != 1:
        bad = "the search does not start from m[1] = img0 with the pair (1, img0) queued"
    elif len(ext_push) != 1 or len(ext_store) != 1 or ext_push[0][1] != ("agg", "tuple", (ext_store[0][1], ext_store[0][2])):
        bad = "a new image is not stored as m[di] = ei and queued as the pair (di, ei)"
    else:
        di, ei = ext_store[0][1], ext_store[0][2]
        def val(case):
            okdeg, mv, ev = case
            def f(y):
                if y[0] == "call" and (y[1].endswith("Iterator::all") or (y[1] in ctx.facts.bodies and contains(y, lambda z: z == ("param", 1, b.debug.get(1, ""))) and contains(y, lambda z: z == ("param", 2, b.debug.get(2, ""))))):
                    return okdeg      # the degree comparison of the popped pair, inline or in a helper of the crate
                a = as_index(y)
                if a and strip(a[1]) == di:
                    return mv
                if y == ei:
                    return ev
                return None
            return f
        sites = nones | somes | {ext_push[0][0]}
        want = {(0, 0, 3): (True, False), (1, 0, 3): (False, True), (1, 3, 3): (False, False), (1, 2, 3): (True, False)}
        for case, w in want.items():
            r = reachable_sites(b, g, nones | {ext_push[0][0]}, val(case))
            got = (bool(r & nones), ext_push[0][0] in r)
            if got != w:
                bad = "degrees of the popped pair %s, m[di] = %d, ei = %d: morphism %s" % ("equal" if case[0] else "different", case[1], case[2],
                      "; ".join(n_ if g_ else "does not " + n_ for g_, w_, n_ in zip(got, w, ("answer None", "record and queue the image")) if g_ != w_))
                break
        if not bad:
            # the degree test itself: every adjacent pair, self at d against other at e
            alls = list(b.calls("Iterator::all"))
            hb = b
            if not alls:
                # moved into a helper: the crate function called with both symbols whose result decides the first None
                for bi_, t_ in b.calls():
                    nm_ = t_["callee"].get("def", "")
                    if nm_ in ctx.facts.bodies and nm_ != b.name and list(ctx.facts.bodies[nm_].calls("Iterator::all")):
                        hb = ctx.facts.bodies[nm_]
                        ctx.scan(ctx.facts.with_closures(hb.name))
                        alls = list(hb.calls("Iterator::all"))
                        break
            res = closure_result(ctx.facts, hb.origin(alls[0][1]["args"][1]), g) if len(alls) == 1 else None
            res = unov_deep(strip(res)) if res is not None else None
            k_ = ("param", 2, "")
            okq = res is not None and res[0] == "call" and res[1].endswith("PartialEq::eq") or (res is not None and res[0] == "binop" and res[1] == "Eq")
            if okq:
                l_, r_ = (strip(res[2][0]), strip(res[2][1])) if res[0] == "call" else (strip(res[2]), strip(res[3]))
                def deg(t_, who):
                    return is_call(t_, "DSet::m") and strip(t_[2][0])[0] in ("param", "field", "deref") and unov_deep(strip(t_[2][2])) == ("binop", "Add", strip(t_[2][1]), ("int", 1))
                okq = deg(l_, 0) and deg(r_, 1) and strip(l_[2][1]) == strip(r_[2][1]) and strip(l_[2][0]) != strip(r_[2][0]) and strip(l_[2][3]) != strip(r_[2][3])
            if not okq:
                bad = "the degree test is not self.m(k, k + 1, d) == other.m(k, k + 1, e) for every k: %s" % (show(res, 1)[:90] if res else None)
    ctx.ob("T4-decision-table", b.name, "morphism", "ok" if not bad else "violation", "seeded with (1, img0); 4 combinations of test outcomes give the effects of the definition; degrees compared pairwise" if not bad else bad)


def morphism(ctx, g):
    ctx.clauses.append("morphism search compares degrees of the two symbols for every mapped pair (T2/T3)")
    b = ctx.body("dsets::DSet::morphism")
    ctx.scan(ctx.facts.with_closures(b.name))
    other_param = 2
    pops = popped_components(b, g)
    if not pops:
        raise AnchorMissing("dsets::DSet::morphism: work-queue pop_front")
    sites = [(bi, t) for bi, t in b.calls(exact="dsets::DSet::op") if norm(b.origin(t["args"][0]), g) == ("param", other_param, b.debug.get(other_param, ""))]
    ctx.floor("lookups in the other symbol in morphism", len(sites), 1)
    for bi, t in sites:
        e_arg = norm(b.origin(t["args"][2]), g)
        ok = False
        why = "no degree comparison dominates"
        for a in b.facts_at(bi, deep=False):
            if not (a[0] == "bool" and a[2] is True and strip(a[1])[0] == "call"):
                continue
            c = norm(a[1], g)
            # the guard must mention both components of the popped pair and the other symbol
            subs = list(subterms(c))
            pair_ok = any(d in subs and e in subs and e == e_arg for d, e in pops)
            other_ok = ("param", other_param, b.debug.get(other_param, "")) in subs
            if not (pair_ok and other_ok):
                continue
            gens = guard_reads_degrees(ctx, a[1], g, None)
            if len(gens) >= 2:
                ok = True
                why = "dominated by %s, which reads degrees with receiver types %s" % (show(c, 1)[:80], sorted(gens))
            else:
                why = "the dominating test %s reads degrees of only %s" % (show(c, 1)[:60], sorted(gens))
        ctx.ob("T3-morphism-degree-guard", b.name, "other.op(i, e)", "ok" if ok else "violation",
               why if ok else "a pair (d, e) from the work queue is extended into the other symbol without comparing the degrees of d in self with those of e in other (%s)" % why, b.span_of(bi))
    # T2: somewhere degrees of `other` are read at all
    reads_other = False
    helpers = [d for d in ctx.facts.reachable(b.name, fanout=False) if d == b.name or d.startswith(b.name + "::{closure") or
               (d.startswith("dsets::DSet::") and d.split("::{closure")[0] not in ("dsets::DSet::m", "dsets::DSet::r", "dsets::DSet::op", "dsets::DSet::walk", "dsets::DSet::degrees_match"))]
    for d in helpers:
        for bi, t in ctx.facts.bodies[d].calls():
            cal = t["callee"]
            if cal.get("def") in DEG_FNS and (cal.get("args") or [""])[0].startswith("T/"):
                reads_other = True
    ctx.ob("T2-morphism-reads-other-degrees", b.name, "<T as DSet>::m", "ok" if reads_other else "violation",
           "degrees of the target symbol are read" if reads_other else "morphism never reads a degree of the target symbol: the result cannot depend on it")


def fold(ctx, g):
    ctx.clauses.append("the congruence used for folding respects degrees (T3)")
    b = ctx.body("dsets::DSet::fold")
    ctx.scan([b])
    pops = popped_components(b, g)

    def guarded(bi, x, y):
        for a in b.facts_at(bi):
            if a[0] == "bool" and a[2] is True and is_call(a[1], "DSet::degrees_match"):
                args = [norm(z, g) for z in strip(a[1])[2]]
                if args[1:] == [x, y] or args[1:] == [y, x]:
                    return True
        return False
    n = 0
    for bi, t in b.calls("convert::From::from"):
        if "VecDeque" not in t["callee"].get("path_with_args", ""):
            continue
        a = norm(b.origin(t["args"][0]), g)
        if a[0] == "agg" and len(a[2]) == 1 and a[2][0][0] == "agg":
            x, y = a[2][0][2]
            n += 1
            ctx.require(guarded(bi, x, y), "T3-fold-degree-guard", b.name, "queue:initial-pair", "initial identification is dominated by degrees_match(d, e)",
                        "the initial pair is queued without degrees_match on it", b.span_of(bi))
    for bi, t in b.calls("VecDeque::<T, A>::push_back"):
        a = norm(b.origin(t["args"][1]), g)
        if a[0] == "agg" and len(a[2]) == 2:
            n += 1
            ctx.require(guarded(bi, a[2][0], a[2][1]), "T3-fold-degree-guard", b.name, "queue:push_back", "pushed pair is dominated by degrees_match on the same two chambers",
                        "a pair of images is identified without degrees_match on that pair: the quotient can merge chambers of different degrees", b.span_of(bi))
    ctx.floor("pairs queued in fold", n, 2)
    un = list(b.calls("Partition::<T>::unite"))
    ctx.floor("unite calls in fold", len(un), 1)
    for bi, t in un:
        x, y = norm(b.origin(t["args"][1]), g), norm(b.origin(t["args"][2]), g)
        ok = any((x, y) == p or (y, x) == p for p in pops)
        ctx.require(ok, "T3-fold-unite-popped", b.name, "unite", "unite is applied to the pair popped from the queue",
                    "unite is applied to something other than the popped (degree-checked) pair: %s, %s" % (show(x, 1)[:40], show(y, 1)[:40]), b.span_of(bi))


def same_relation(ctx, g):
    ctx.clauses.append("is_minimal and minimal_image use the same fold relation with base chamber 1 over 2..=size() (T2/T4)")
    for fn, comb in (("dsets::DSet::is_minimal", "Iterator::all"), ("derived::minimal_image", "Iterator::fold")):
        b = ctx.body(fn)
        ctx.scan(ctx.facts.with_closures(fn))
        hit = False
        for bi, t in b.calls(comb):
            rng = range_of(b, b.origin(t["args"][0]), g)
            clo = b.origin(t["args"][-1])
            calls = closure_calls(ctx.facts, clo, g)
            folds = [c for c in calls if c[0] == "dsets::DSet::fold"]
            if not folds:
                continue
            hit = True
            okr = rng is not None and rng[0] == ("int", 2) and rng[2] and rng[1][0] == "field" and rng[1][2] == "size" or \
                (rng is not None and rng[0] == ("int", 2) and rng[2] and rng[1][0] == "call" and rng[1][1].endswith("DSet::size"))
            ctx.require(okr, "T4-fold-range", fn, comb + ":range", "candidates are the inclusive range 2..=size()",
                        "candidates for folding onto the base chamber are not 2..=size(): %s" % (str(rng and (show(rng[0], 1), show(rng[1], 1), "inclusive" if rng[2] else "exclusive"))), b.span_of(bi))
            for c in folds:
                base = c[2][2]
                cand = c[2][3]
                ctx.require(base == ("int", 1), "T4-fold-base", fn, "fold:base", "base chamber is the constant 1", "fold is called with base %s, not 1" % show(base, 1), b.span_of(bi))
                ctx.require(cand[0] == "param", "T4-fold-base", fn, "fold:candidate", "the folded chamber is the range item", "fold candidate is not the range item: " + show(cand, 1), b.span_of(bi))
        ctx.require(hit, "T2-uses-fold", fn, "fold", "uses DSet::fold", fn + " no longer decides through DSet::fold over a range")


def size_of(t, who):
    return (t[0] == "field" and t[2] == "size" and t[1] == who) or (t[0] == "call" and t[1].endswith("DSet::size") and t[2][0] == who)


def dim_of(t, who):
    return (t[0] == "field" and t[2] == "dim" and t[1] == who) or (t[0] == "call" and t[1].endswith("DSet::dim") and t[2][0] == who)


def ranges(ctx, g):
    ctx.clauses.append("congruences and morphisms range over all operations, all adjacent degree pairs and all base images (T4)")
    for fn in ("dsets::DSet::fold", "dsets::DSet::morphism"):
        b = ctx.body(fn)
        me = ("param", 1, b.debug.get(1, ""))
        ops = [(bi, t) for bi, t in b.calls(exact="dsets::DSet::op")]
        seen = set()
        for bi, t in ops:
            r = loop_range_of_payload(b, b.origin(t["args"][1]), g)
            key = str(r)
            if key in seen:
                continue
            seen.add(key)
            ok = r is not None and r[0] == ("int", 0) and r[2] and dim_of(r[1], me)
            ctx.require(ok, "T4-index-range", fn, "op(i, .):i-range", "the operation index ranges over 0..=dim()",
                        "operations are not propagated over the full inclusive index range 0..=dim(): %s" % (r and (show(r[0], 1), show(r[1], 1), r[2]),), b.span_of(bi))
    dm = ctx.body("dsets::DSet::degrees_match")
    ctx.scan(ctx.facts.with_closures(dm.name))
    me = ("param", 1, dm.debug.get(1, ""))
    okd = False
    for bi, t in dm.calls("Iterator::all"):
        r = range_of(dm, dm.origin(t["args"][0]), g)
        okr = r is not None and r[0] == ("int", 0) and not r[2] and dim_of(r[1], me)
        ctx.require(okr, "T4-degree-range", dm.name, "all:range", "degree pairs range over 0..dim()", "degrees_match does not range over 0..dim(): %s" % (r and (show(r[0], 1), show(r[1], 1), r[2]),), dm.span_of(bi))
        res = closure_result(ctx.facts, dm.origin(t["args"][1]), g)
        d, e = [("param", i, dm.debug.get(i, "")) for i in (2, 3)]
        good = False
        if res is not None and res[0] == "call" and res[1].endswith("cmp::PartialEq::eq") or (res is not None and res[0] == "binop" and res[1] == "Eq"):
            x, y = (res[2] if res[0] == "call" else res[2:4])
            def ism(t_, ch):
                return t_[0] == "call" and t_[1] == "dsets::DSet::m" and t_[2][0] == me and t_[2][1][0] == "param" and \
                    t_[2][2] in (("field", ("binop", "AddWithOverflow", t_[2][1], ("int", 1)), "0"), ("binop", "Add", t_[2][1], ("int", 1))) and t_[2][3] == ch
            good = (ism(x, d) and ism(y, e)) or (ism(x, e) and ism(y, d))
        ctx.require(good, "T4-degree-pairs", dm.name, "all:closure", "compares m(i, i+1, d) with m(i, i+1, e)",
                    "degrees_match does not compare m(i, i+1, .) of its two chambers: " + (show(res, 1)[:100] if res else "?"), dm.span_of(bi))
        okd = True
    ctx.require(okd, "T4-degree-range", dm.name, "all", "degrees_match is an all() over index pairs", "degrees_match shape not recognised")
    for fn in ("dsets::DSet::fold", "dsets::DSet::morphism"):
        b = ctx.body(fn)
        ops = [bi for bi, t in b.calls(exact="dsets::DSet::op")]
        if ops:
            every_iteration_reaches(ctx, "T3-no-skipped-index", b, ops[0], "index-loop->op(i, .)", "some index of the operation loop can be skipped: the map / congruence is not propagated through every operation")
    au = ctx.body("dsets::DSet::automorphisms")
    ctx.scan([au])
    for bi, t in au.calls(exact="dsets::DSet::morphism"):
        every_iteration_reaches(ctx, "T3-no-skipped-base-image", au, bi, "d-loop->morphism(self, self, d)", "some base image is skipped without trying to extend it to an automorphism")
    me = ("param", 1, au.debug.get(1, ""))
    ms = list(au.calls(exact="dsets::DSet::morphism"))
    ctx.floor("morphism calls in automorphisms", len(ms), 1)
    for bi, t in ms:
        args = [norm(au.origin(a), g) for a in t["args"]]
        r = loop_range_of_payload(au, au.origin(t["args"][2]), g)
        ok = args[0] == me and args[1] == me and r is not None and r[0] == ("int", 1) and r[2] and size_of(r[1], me)
        ctx.require(ok, "T4-automorphism-range", au.name, "morphism(self, self, d):d-range", "every base image 1..=size() is tried",
                    "automorphisms does not try every base image 1..=size() of self onto self: %s" % (r and (show(r[0], 1), show(r[1], 1), r[2]),), au.span_of(bi))
