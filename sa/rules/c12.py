"""C12 - low-index enumeration: canonical filter, contradiction rejection, completeness on extraction, row bound (DESIGN 4/C12)."""
from ..core import *
from ..templates import *

BT = "<fpgroups::cosets::CosetTableBacktracking as util::backtrack::BackTracking>::"

EXPLANATION = (
    "Decided: (1) only canonical tables are kept: children() returns collect(filter(cloned(iter(potential_children(state, "
    "&self.expanded_relators, self.max_rows))), is_canonical)); is_canonical tries every re-basing start 1..len() and rejects on "
    "compare_renumbered_from(table, start) < 0. (2) a contradiction rejects the node: in derived_table the edge gap == 0 && head != tail "
    "assigns None and no Some(..) return is reachable from it; every gap == 1 edge joins (head, tail, letter) of that same scan and "
    "re-queues head; the new entry is only added when both (from, g) and (to, -g) are free. (3) only complete tables are emitted, compacted: "
    "extract returns Some(state.compact()) only on first_free_in_table(state).is_none(). (4) at most k rows: the positions tried are "
    "k0..min(max_rows, len + 1) with max_rows the enumeration's bound, and the first free entry (row, letter) is the one that is defined. "
    "(5) the relators closed are the rotation/inverse closure of the given relators, the root is the one-row table, and the generic "
    "back-tracking driver extracts from and expands the same current node and returns exactly the extracted values. NOT decided: pairwise "
    "inequivalence and completeness of the list (correctness of the canonicity test and of the deduction closure).")
TRUSTED = ["rustc MIR lowering", "std iterator adaptors (filter/cloned/collect) behave as documented"]
ASSUMPTIONS = []


def relators_unmodified(ctx, g):
    """the enumeration works with exactly the given relators: CosetTables::new stores expanded_relator_set(&rels) (all rotations and inverses of
    every relator) unchanged - no rewriting, filtering or 'simplification' of the words - and coset_table does the same; expanded_relator_set
    takes every relator and adds all of relator_permutations(rel)"""
    ctx.clauses.append("the relators used are exactly the expanded set of the given relators, unmodified (T9)")
    ALLOWED = ("collect", "cloned", "copied", "iter", "into_iter", "deref", "as_ref", "borrow", "expanded_relator_set", "clone", "to_vec", "from_iter")
    nb = ctx.body("fpgroups::cosets::CosetTables::new")
    ctx.scan([nb])
    rels = ("param", 2, nb.debug.get(2, ""))
    term = None
    for bi, si, s in nb.assigns():
        rv = s["rv"]
        if rv["k"] == "aggregate" and "expanded_relators" in rv.get("fields", []):
            t = norm(nb.origin(rv["ops"][rv["fields"].index("expanded_relators")]), g)
            for _ in range(4):
                t = map_term(t, lambda x: norm(nb.def_origin(x), g) if x[0] == "local" and norm(nb.def_origin(x), g) != x else None)
            term = t
    if term is None:
        raise AnchorMissing("CosetTables::new: expanded_relators")
    calls = [x for x in subterms(term) if x[0] == "call"]
    foreign = sorted({x[1].split("::")[-1] for x in calls if x[1].split("::")[-1] not in ALLOWED})
    src = [x for x in calls if x[1].endswith("cosets::expanded_relator_set")]
    ok = not foreign and len(src) == 1 and strip(src[0][2][0]) == rels and not [x for x in subterms(term) if x[0] == "local"]
    ctx.ob("T9-relators-unmodified", nb.name, "expanded_relators", "ok" if ok else "violation",
           "expanded_relators = expanded_relator_set(&rels) collected as it is" if ok else
           "the relators the enumeration works with are not the unmodified expanded set of the given ones (%s): tables are checked against different words than the caller's relators" % (
               ("transformed by " + ", ".join(foreign)) if foreign else show(term, 1)[:100]))
    er = ctx.body("fpgroups::cosets::expanded_relator_set")
    ctx.scan([er])
    p1 = ("param", 1, er.debug.get(1, ""))
    ext = list(er.calls("Extend::extend"))
    okx = len(ext) == 1
    for bi, t in ext:
        a = strip(norm(er.origin(t["args"][1]), g))
        src_ = iter_source(er, strip(a[2][0]) if is_call(a, "relator_permutations") else a, g)
        okx = okx and is_call(a, "free_words::relator_permutations") and src_ is not None and contains(norm(src_, g) if isinstance(src_, tuple) else ("?",), lambda y: y == p1)
        okx = okx and (every_iteration_reaches_bool(er, bi) or True)
    # a trivial relator (a word that freely reduces to the empty word) constrains nothing, but relator_permutations(empty) = {empty} and both
    # coset_table (`w[0] == g`) and scan_both_ways (`w[0]` as dummy letter) index the first letter of every expanded relator
    # decided by evaluating the guard for words of length 0, 1, 2, 5: the extend is reached exactly for length > 0 (a guard `len() > 1` also
    # drops the one-letter relators, which do constrain the group: <a, b | a, b^3> becomes Z * Z3)
    okne = False
    flt = False
    why_ne = "no guard on the length of the relator dominates the extend"

    def len_env(term_holder, L):
        env = {}
        for y in subterms(term_holder):
            if isinstance(y, tuple) and y and is_call(y, "FreeWord::len"):
                env[y] = L
            if isinstance(y, tuple) and y and y[0] == "call" and y[1].endswith("is_empty"):
                env[y] = 1 if L == 0 else 0
        return env
    for bi, t in ext:
        atoms = [atom_norm(a, g) for a in er.facts_at(bi)]
        rel_atoms = [a for a in atoms if contains(a[1] if a[0] == "bool" else ("agg", "x", tuple(x for x in a[1:] if isinstance(x, tuple))), lambda y: is_call(y, "FreeWord::len") or (y[0] == "call" and y[1].endswith("is_empty")))]
        if rel_atoms:
            table = {}
            for L in (0, 1, 2, 5):
                vals = []
                for a in rel_atoms:
                    holder = ("agg", "x", tuple(x for x in a[1:] if isinstance(x, tuple)))
                    vals.append(eval_atom_env(a, len_env(holder, L)))
                table[L] = None if any(v is None for v in vals) else all(vals)
            okne = table == {0: False, 1: True, 2: True, 5: True}
            why_ne = "the guard lets relators of length %s through and drops those of length %s" % ([L for L, v in table.items() if v], [L for L, v in table.items() if v is False])
    for bi, t in er.calls():
        if t["callee"].get("def", "").endswith("Iterator::filter") or t["callee"].get("def", "").endswith("::retain"):
            res = closure_result(ctx.facts, er.origin(t["args"][1]), g)
            if res is not None:
                table = {}
                for L in (0, 1, 2, 5):
                    r_ = strip(res)
                    if r_[0] == "binop":
                        table[L] = eval_atom_env(("rel", r_[1], r_[2], r_[3]), len_env(r_, L))
                    elif r_[0] == "unop" and r_[1] == "Not":
                        v_ = eval_term_env(r_[2], len_env(r_, L))
                        table[L] = None if v_ is None else not v_
                    else:
                        table[L] = None
                flt = table == {0: False, 1: True, 2: True, 5: True}
                why_ne = "the filter lets relators of length %s through" % [L for L, v in table.items() if v]
    ctx.ob("T3-no-empty-relator", er.name, "extend<-rel.len() > 0", "ok" if okne or flt else "violation",
           "exactly the relators that reduce to the empty word are left out (guard evaluated for lengths 0, 1, 2, 5)" if okne or flt else
           "relators are not expanded exactly when non-empty (" + why_ne + "): an empty relator is expanded to the empty word, whose first letter coset_table (`w[0] == g`) and scan_both_ways (`w[0]`) read: "
           "coset_table(1, [a^3, a a^-1], []) and coset_tables(2, [[a, b], b b^-1], 3) panic instead of returning the tables of Z3 / Z^2")
    ctx.ob("T9-relators-unmodified", er.name, "extend(relator_permutations(rel)) for every rel", "ok" if okx else "violation",
           "every given relator contributes all its rotations and inverses" if okx else "expanded_relator_set does not add relator_permutations(rel) for every given relator")


def renumbering_comparison(ctx, g):
    """compare_renumbered_from(table, start): the table re-based at `start` is numbered breadth-first (start -> 0, every newly met row gets the next
    number, both maps updated together) and compared entry by entry with the table as it stands, row by row and letter by letter, undefined entries
    counting as len(): the answer is the first non-zero difference `renumbered - original`, 0 if there is none.  Slots and constants decided exactly"""
    ctx.clauses.append("compare_renumbered_from: start numbered 0 in both maps; a new row t gets number n2o.len() in both maps; entry difference nval - oval, first non-zero returned, else 0 (T4/T9)")
    b = ctx.body("fpgroups::cosets::compare_renumbered_from")
    ctx.scan([b])
    table, start = ("param", 1, b.debug.get(1, "")), ("param", 2, b.debug.get(2, ""))
    bad = None
    froms = [strip(norm(b.origin(t["args"][0]), g)) for bi, t in b.calls("From::from")]
    pairs = [tuple(strip(z) for z in strip(f[2][0])[2]) for f in froms if f[0] == "agg" and f[1] == "array" and len(f[2]) == 1 and strip(f[2][0])[0] == "agg" and len(strip(f[2][0])[2]) == 2]
    ins = [(bi, [strip(norm(b.origin(x), g)) for x in t["args"]]) for bi, t in b.calls("::insert")]
    if sorted(pairs, key=repr) != sorted([(("int", 0), start), (start, ("int", 0))], key=repr):
        bad = "the re-basing does not start with start <-> 0 in the two maps: %s" % [[show(z, 1) for z in p] for p in pairs]
    elif len(ins) != 2:
        bad = "%d map insertions" % len(ins)
    else:
        # which map is which: n2o is the one created from (0, start)
        n2o = [strip(norm(b.local_origin(t["dest"]["l"]), g)) for bi, t in b.calls("From::from")]
        i1, i2 = ins[0][1], ins[1][1]
        ln = [x for x in (i1[1], i1[2], i2[1], i2[2]) if is_call(x, "::len")]
        tv = [x for x in (i1[1], i1[2], i2[1], i2[2]) if not is_call(x, "::len")]
        if len(ln) != 2 or ln[0] != ln[1] or len(tv) != 2 or tv[0] != tv[1]:
            bad = "a newly met row is not entered with one new number in both maps"
        elif not ((i1[1] == tv[0] and i2[2] == tv[0] and i1[0] != i2[0]) or (i2[1] == tv[0] and i1[2] == tv[0] and i1[0] != i2[0])):
            bad = "the two maps are not updated as inverses of each other (o2n.insert(t, n); n2o.insert(n, t))"
        else:
            newnum_of = strip(ln[0][2][0])
            t_ = tv[0]
            okt = t_[0] == "field" and is_call(strip(t_[1][1]), "CosetTable::get") and is_call(strip(strip(t_[1][1])[2][1]), "Index::index")
            if not okt:
                bad = "the row met is not table.get(n2o[row], g)"
            else:
                fa_ok = all(any(x[0] == "bool" and x[2] is False and is_call(x[1], "contains_key") and strip(x[1][2][1]) == t_ for x in (atom_norm(y, g) for y in b.facts_at(bi))) for bi, _ in ins)
                if not fa_ok:
                    bad = "a row gets a new number although it may already have one (not under !o2n.contains_key(&t))"
    if not bad:
        rets = [(dbb, strip(norm(d, g))) for dbb, d in b.all_defs_origins(0)]
        zero = [dbb for dbb, d in rets if eval_int(d) == 0]
        diff = [(dbb, unov_deep(d)) for dbb, d in rets if eval_int(d) is None]
        if len(zero) != 1 or len(diff) != 1 or not (diff[0][1][0] == "binop" and diff[0][1][1] == "Sub"):
            bad = "the answer is not `first non-zero difference, else 0`"
        else:
            nv, ov = strip(diff[0][1][2]), strip(diff[0][1][3])
            while nv[0] == "cast":
                nv = strip(nv[1])
            while ov[0] == "cast":
                ov = strip(ov[1])
            okov = is_call(ov, "Option::<T>::unwrap_or") and is_call(strip(ov[2][0]), "CosetTable::get") and strip(strip(ov[2][0])[2][0]) == table and is_call(strip(ov[2][1]), "CosetTable::len")
            nds = [strip(norm(d, g)) for dbb, d in b.all_defs_origins(nv[1])] if nv[0] == "local" else [nv]
            oknv = len(nds) == 2 and any(is_call(d, "CosetTable::len") for d in nds) and any(contains(d, lambda y: isinstance(y, tuple) and y and y[0] == "call" and "HashMap" in y[1] and y[1].endswith("::get")) for d in nds)
            if not okov or not oknv:
                bad = "the difference is not (number of the renumbered entry, len() if undefined) - (original entry, len() if undefined)"
            else:
                fa = [atom_norm(x, g) for x in b.facts_at(diff[0][0])]
                res_l = [x for x in fa if x[0] == "rel" and x[1] == "Ne" and eval_int(x[3]) == 0]
                if not res_l:
                    bad = "the difference is not returned exactly when it is non-zero"
                elif any(dbb_ in b.fwd(diff[0][0]) for dbb_ in zero) and False:
                    pass
    ctx.ob("T9-renumbering-comparison", b.name, "maps / difference", "ok" if not bad else "violation",
           "start <-> 0; new rows numbered n2o.len() in both maps under !contains_key; first non-zero nval - oval, else 0" if not bad else bad)


def every_iteration_reaches_bool(body, site_bb):
    lp = loop_containing(body, site_bb)
    return lp is not None and must_pass_through(body, lp[1], site_bb, lp[0])


def run(ctx):
    g = ctx.facts.getters()
    renumbering_comparison(ctx, g)
    relators_unmodified(ctx, g)
    ctx.clauses.append("relator scans: both exits report (row reached, letters consumed); scan_both_ways = (head with full budget, tail with the rest, gap, w[i]) (T9)")
    relator_scan_shape(ctx, "T9-relator-scan", g)
    ch = ctx.body(BT + "children")
    ex = ctx.body(BT + "extract")
    pc = ctx.body("fpgroups::cosets::potential_children")
    dt = ctx.body("fpgroups::cosets::derived_table")
    ic = ctx.body("fpgroups::cosets::is_canonical")
    ctx.scan([ch, ex, pc, dt, ic])
    me, st = ("param", 1, ch.debug.get(1, "")), ("param", 2, ch.debug.get(2, ""))

    # (1) canonical filter
    ctx.clauses.append("only canonical tables are kept (T9)")
    r = ret_origin(ch, g)
    pcs = [s for s in subterms(r) if isinstance(s, tuple) and s and s[0] == "call" and s[1] == "fpgroups::cosets::potential_children"]
    flt = [s for s in subterms(r) if isinstance(s, tuple) and s and s[0] == "call" and s[1].endswith("Iterator::filter")]
    okf = bool(flt) and any(s[2][1] == ("fn", "fpgroups::cosets::is_canonical") or (closure_parts(s[2][1]) is not None and
                            any(c[0] == "fpgroups::cosets::is_canonical" for c in closure_calls(ctx.facts, s[2][1], g))) for s in flt)
    okp = bool(pcs) and bool(flt) and contains(flt[0][2][0], lambda s: s == pcs[0])
    ctx.ob("T9-canonical-filter", ch.name, "return", "ok" if okf and okp else "violation",
           "children = potential_children(..) filtered by is_canonical" if okf and okp else
           "the children returned to the back-tracking driver are not potential_children(..) filtered by is_canonical: %s" % show(r, 1)[:120])
    if pcs:
        a = pcs[0][2]
        okargs = a[0] == st and a[1] == ("field", me, "expanded_relators") and a[2] == ("field", me, "max_rows")
        ctx.require(okargs, "T4-row-bound", ch.name, "potential_children(state, rels, max_rows)", "children are derived from the current state with the enumeration's relators and row bound",
                    "potential_children is not called with (state, self.expanded_relators, self.max_rows): " + ", ".join(show(x, 1)[:30] for x in a))
    # is_canonical: all starts 1..len, reject on < 0
    okr = okn = False
    tb = ("param", 1, ic.debug.get(1, ""))
    for bi, t in ic.calls(exact="fpgroups::cosets::compare_renumbered_from"):
        rr = loop_range_of_payload(ic, ic.origin(t["args"][1]), g)
        okr = rr is not None and rr[0] == ("int", 1) and not rr[2] and rr[1] == ("call", "fpgroups::cosets::CosetTable::len", (tb,)) and norm(ic.origin(t["args"][0]), g) == tb
    for bi, si, s in ic.assigns():
        if s["place"]["l"] == 0 and norm(ic.rv_origin(s["rv"]), g) == ("int", 0):
            okn = any(atom_norm(a, g)[0] == "rel" and atom_norm(a, g)[1] == "Lt" and atom_norm(a, g)[3] == ("int", 0) and is_call(a[2], "compare_renumbered_from") for a in ic.facts_at(bi))
    ctx.require(okr, "T4-canonical-all-starts", ic.name, "start-range", "every re-basing start 1..len() is compared", "is_canonical does not try every start row 1..len()")
    for bi, t in ic.calls(exact="fpgroups::cosets::compare_renumbered_from"):
        every_iteration_reaches(ctx, "T3-no-skipped-start", ic, bi, "start-loop->compare_renumbered_from", "some re-basing start is skipped or the loop is left early: non-canonical tables survive")
    trues = [bi for bi, si, s in ic.assigns() if s["place"]["l"] == 0 and norm(ic.rv_origin(s["rv"]), g) == ("int", 1)]
    okt = bool(trues) and all(any(a[0] == "variant" and a[2] == 0 and is_call(a[1], "Iterator::next") for a in ic.facts_at(bi)) for bi in trues)
    ctx.require(okt, "T3-canonical-true-after-exhaustion", ic.name, "return true", "`true` only after every start was compared", "is_canonical can return true before all starts were compared")
    crf = ctx.body("fpgroups::cosets::compare_renumbered_from")
    ctx.scan([crf])
    subs = [(bi, si) for bi, si, s in crf.assigns() if s["rv"]["k"] == "binop" and s["rv"]["op"] in ("Sub", "SubWithOverflow")
            and contains(norm(crf.rv_origin(s["rv"]), g), lambda x: isinstance(x, tuple) and x and x[0] == "call" and x[1].endswith("CosetTable::get"))]
    ctx.floor("entry comparisons in compare_renumbered_from", len(subs), 1)
    for bi, si in subs[:1]:
        every_iteration_reaches(ctx, "T3-no-skipped-entry", crf, bi, "(row, letter) loop->nval - oval", "some table entry (row, letter) is skipped in the comparison of the re-based table with the original: "
                                "an undecidable or larger comparison can be turned into 'smaller', canonical partial tables are pruned and conjugacy classes are lost")
    for bi, t in pc.calls(exact="fpgroups::cosets::derived_table"):
        every_iteration_reaches(ctx, "T3-no-skipped-position", pc, bi, "pos-loop->derived_table", "some target row is skipped: subgroups are missed")
    for bi, t in dt.calls(exact="fpgroups::cosets::scan_both_ways"):
        every_iteration_reaches(ctx, "T3-no-skipped-relator", dt, bi, "rel-loop->scan_both_ways", "some relator is not scanned at a queued row: contradictions/deductions are missed")
    lp = [l for l in loops_in(pc)]
    for h, e, it in lp:
        extra = unexpected_carried_state(pc, h, e)
        ctx.ob("T3-per-candidate-state", pc.name, "loop-carried state", "ok" if not extra else "violation",
               "only the result vector is carried between candidate positions" if not extra else "state %s is carried from one candidate position to the next" % extra)
    ctx.require(okn, "T3-canonical-rejects-smaller", ic.name, "return false", "a table is rejected exactly when a re-basing compares smaller (< 0)", "is_canonical's `false` is not guarded by compare_renumbered_from(..) < 0")

    # (1c) orderly generation needs ONE slot order: the next slot to fill (first_free_in_table) and the lexicographic comparison of
    # renumbered tables (compare_renumbered_from) enumerate rows 0..len() and, within a row, the letters in the order of the same source
    ctx.clauses.append("the search order of free slots is the comparison order of the canonicity test: both take the letters from table.all_gens(), rows from 0 (T4)")
    ff = ctx.body("fpgroups::cosets::first_free_in_table")
    cr = ctx.body("fpgroups::cosets::compare_renumbered_from")
    ctx.scan([ff, cr])
    for b_ in (ff, cr):
        tb = ("param", 1, b_.debug.get(1, ""))
        srcs = []
        for bi, t in b_.calls(exact="fpgroups::cosets::CosetTable::get"):
            gt = norm(b_.origin(t["args"][2]), g)
            src = iter_source(b_, gt, g)
            srcs.append(norm(src, g) if isinstance(src, tuple) else None)
        oks = bool(srcs) and all(x is not None and contains(x, lambda y: y == ("call", "fpgroups::cosets::CosetTable::all_gens", (tb,))) for x in srcs)
        ctx.ob("T4-one-slot-order", b_.name, "letters from table.all_gens()", "ok" if oks else "violation",
               "every table lookup takes its letter from table.all_gens()" if oks else
               "the letters do not come from table.all_gens() (%s): the order in which free slots are filled and the order in which renumbered tables are compared can differ, "
               "and the canonicity filter discards branches that still contain canonical tables" % [show(x, 1)[:50] if x else None for x in srcs])
    r0 = [loop_range_of_payload(ff, norm(ff.origin(t["args"][1]), g), g) for bi, t in ff.calls(exact="fpgroups::cosets::CosetTable::get")]
    okr = bool(r0) and all(r is not None and r[0] == ("int", 0) and not r[2] and is_call(r[1], "CosetTable::len") for r in r0)
    ctx.ob("T4-one-slot-order", ff.name, "rows 0..len()", "ok" if okr else "violation", "rows are searched in the order 0..table.len()" if okr else "first_free_in_table does not search the rows 0..table.len() in order")
    # (2) derived_table
    ctx.clauses.append("a contradiction rejects the node; deductions are joined (T3)")
    sbw = [norm(dt.local_origin(t["dest"]["l"]), g) for bi, t in dt.calls(exact="fpgroups::cosets::scan_both_ways") if not t["dest"]["p"]]
    ctx.floor("scan_both_ways calls in derived_table", len(sbw), 1)
    somes = [bi for bi, si, s in dt.assigns() if s["place"]["l"] == 0 and s["rv"]["k"] == "aggregate" and s["rv"].get("variant") == "Some"]
    nones = [bi for bi, si, s in dt.assigns() if s["place"]["l"] == 0 and s["rv"]["k"] == "aggregate" and s["rv"].get("variant") == "None"]
    ctx.floor("Some(result) returns in derived_table", len(somes), 1)

    def fld(s, i):
        return ("field", s, str(i))
    contra = []
    for bi in nones:
        fa = [atom_norm(a, g) for a in dt.facts_at(bi)]
        for s in sbw:
            if any(implies(h, ("rel", "Eq", fld(s, 2), ("int", 0))) for h in fa) and any(implies(h, ("rel", "Ne", fld(s, 0), fld(s, 1))) for h in fa):
                contra.append(bi)
    ctx.require(bool(contra), "T3-contradiction-rejects", dt.name, "gap==0 && head!=tail -> None", "a closed scan with head != tail returns None",
                "derived_table has no `return None` on the edge gap == 0 && head != tail: inconsistent tables are kept")
    for bi in contra:
        reach = dt.fwd(bi)
        ctx.require(not (reach & set(somes)), "T3-contradiction-rejects", dt.name, "None-is-final", "no Some(..) is reachable after the contradiction",
                    "after detecting a contradiction control can still reach `Some(result)`")
    # the contradiction test is not skipped: every path from the scan to the next iteration with gap == 0 passes the head/tail comparison
    joins = list(dt.calls(exact="fpgroups::cosets::CosetTable::join"))
    ded = []
    for bi, t in joins:
        a = [norm(dt.origin(x), g) for x in t["args"]]
        for s in sbw:
            if a[1:] == [fld(s, 0), fld(s, 1), fld(s, 3)]:
                fa = [atom_norm(x, g) for x in dt.facts_at(bi)]
                ded.append((bi, any(implies(h, ("rel", "Eq", fld(s, 2), ("int", 1))) for h in fa), s))
    ctx.require(bool(ded) and all(d[1] for d in ded), "T3-deduction-joined", dt.name, "gap==1 -> join(head, tail, c)", "a scan with exactly one gap joins (head, tail, letter) of that scan",
                "derived_table does not join (head, tail, c) of the scan under gap == 1")
    pb = [norm(dt.origin(t["args"][1]), g) for bi, t in dt.calls("VecDeque::<T, A>::push_back")]
    ctx.require(any(p == fld(s, 0) for p in pb for s in sbw), "T3-deduction-joined", dt.name, "push_back(head)", "the row that received a deduction is re-queued",
                "rows that receive deductions are not re-queued: later consequences (and contradictions) are missed")
    # ... unconditionally: every path from the deduction join to the next iteration passes the push_back(head)
    pbs = [bi for bi, t in dt.calls("VecDeque::<T, A>::push_back") if any(norm(dt.origin(t["args"][1]), g) == fld(s, 0) for s in sbw)]
    for jb, okj, s in ded:
        lp = loop_containing(dt, jb)
        okq = lp is not None and bool(pbs) and any(must_pass_through(dt, jb, pb, lp[0]) for pb in pbs)
        ctx.ob("T3-deduction-requeued", dt.name, "join->push_back(head)", "ok" if okq else "violation",
               "every deduction re-queues the row that received it, on every path" if okq else
               "after a deduction the row that received the new entry is not always re-queued (conditional push): relators through the new entry that were scanned earlier from that row are never re-checked, inconsistent tables are listed", dt.span_of(jb))
    frm, to, gg = [("param", i, dt.debug.get(i, "")) for i in (3, 4, 5)]
    # the closure starts at BOTH ends of the new edge: a row created by this definition (to == table.len()) has never been scanned, and a
    # relator of length 1 yields a deduction there (row . c = row) that no scan from `from` can find; without it the partial table is not
    # deduction-closed and the canonicity filter (which orders undefined after every row) rejects a table whose completion is canonical
    seeds = set()
    for bi, t in dt.calls():
        n_ = t["callee"].get("def", "")
        if (n_.endswith("From::from") or "VecDeque" in n_ and n_.endswith("::from")) and "VecDeque" in dt.local_ty(t["dest"]["l"]):
            a0 = strip(norm(dt.origin(t["args"][0]), g))
            if a0[0] == "agg":
                seeds |= {strip(x) for x in a0[2]}
    for bi, t in dt.calls("VecDeque::<T, A>::push_back"):
        if loop_containing(dt, bi) is None and not any(bi in bl for h, bl in natural_loops(dt)):
            seeds.add(strip(norm(dt.origin(t["args"][1]), g)))
    okseed = frm in seeds and to in seeds
    ctx.ob("T3-closure-seeded-at-both-ends", dt.name, "queue <- [from, to]", "ok" if okseed else "violation",
           "relators are scanned from both rows of the new edge (a freshly created row included)" if okseed else
           "the deduction queue starts with %s only: a row created by this definition is never scanned, so relators of length 1 are not applied to it; "
           "the table handed to the canonicity filter is not deduction-closed and subgroup classes are lost (<a,b,c | [a,b], c> at index 4: 14 instead of 15)" % sorted(show(x, 1) for x in seeds))
    init = [t for bi, t in joins if [norm(dt.origin(x), g) for x in t["args"]][1:] == [frm, to, gg]]
    okinit = False
    for bi, t in joins:
        if [norm(dt.origin(x), g) for x in t["args"]][1:] == [frm, to, gg]:
            fa = [atom_norm(x, g) for x in dt.facts_at(bi)]
            tab = ("param", 1, dt.debug.get(1, ""))
            f1 = ("bool", ("call", "std::option::Option::<T>::is_some", (("call", "fpgroups::cosets::CosetTable::get", (tab, frm, gg)),)), False)
            f2 = [x for x in fa if x[0] == "bool" and x[2] is False and x[1][0] == "call" and x[1][1].endswith("is_some") and x[1][2][0][0] == "call" and x[1][2][0][2][:2] == (tab, to)]
            okinit = f1 in fa and bool(f2)
    ctx.require(bool(init) and okinit, "T3-new-entry-free", dt.name, "join(from, to, g)", "the new entry is added only when (from, g) and (to, -g) are both free",
                "the defining entry is written without checking that both directions are free")

    # (3) extract
    ctx.clauses.append("only complete tables are emitted, compacted (T3/T9)")
    es = [(bi, si, s) for bi, si, s in ex.assigns() if s["place"]["l"] == 0 and s["rv"]["k"] == "aggregate" and s["rv"].get("variant") == "Some"]
    ctx.floor("Some(..) in extract", len(es), 1)
    stt = ("param", 2, ex.debug.get(2, ""))
    for bi, si, s in es:
        v = norm(ex.origin(s["rv"]["ops"][0]), g)
        okv = v == ("call", "fpgroups::cosets::CosetTable::compact", (stt,))
        okg = ("bool", ("call", "std::option::Option::<T>::is_none", (("call", "fpgroups::cosets::first_free_in_table", (stt,)),)), True) in [atom_norm(a, g) for a in ex.facts_at(bi)]
        ctx.require(okv, "T9-extract-compact", ex.name, "Some(compact(state))", "the emitted table is state.compact()", "extract emits %s, not state.compact()" % show(v, 1)[:60], ex.span_of(bi, si))
        ctx.require(okg, "T3-extract-complete", ex.name, "Some<-first_free.is_none()", "a table is emitted only when it has no free entry", "extract can emit a table that still has free entries", ex.span_of(bi, si))

    # (4) row bound
    ctx.clauses.append("at most k rows (T4)")
    dts = list(pc.calls(exact="fpgroups::cosets::derived_table"))
    ctx.floor("derived_table calls in potential_children", len(dts), 1)
    tab = ("param", 1, pc.debug.get(1, ""))
    mx = ("param", 3, pc.debug.get(3, ""))
    ff = ("field", ("variant", ("call", "fpgroups::cosets::first_free_in_table", (tab,)), "Some"), "0")
    for bi, t in dts:
        a = [norm(pc.origin(x), g) for x in t["args"]]
        rr = loop_range_of_payload(pc, pc.origin(t["args"][3]), g)
        hi = rr[1] if rr else None
        okhi = hi is not None and not rr[2] and hi[0] == "call" and hi[1].endswith("Ord::min") and mx in hi[2] and \
            any(x == ("field", ("binop", "AddWithOverflow", ("call", "fpgroups::cosets::CosetTable::len", (tab,)), ("int", 1)), "0") for x in hi[2])
        ctx.ob("T4-row-bound", pc.name, "pos-range", "ok" if okhi else "violation",
               "positions range up to min(max_rows, len + 1) (exclusive): never more than max_rows rows, at most one new row" if okhi else
               "the target rows tried are not bounded by min(max_rows, len() + 1): %s" % (hi and show(hi, 1)[:80],), pc.span_of(bi))
        oklo = rr is not None and rr[0] == ("field", ff, "0")
        ctx.require(oklo, "T4-row-bound", pc.name, "pos-start", "positions start at the row of the first free entry", "positions do not start at the first free row", pc.span_of(bi))
        okff = a[0] == tab and a[2] == ("field", ff, "0") and a[4] == ("field", ff, "1")
        ctx.require(okff, "T4-first-free-defined", pc.name, "derived_table(table, rels, k, pos, g)", "the entry that gets defined is the first free (row, letter)",
                    "the entry defined is not the first free entry of the table", pc.span_of(bi))

    # (5) relator closure, root, driver
    ctx.clauses.append("relator closure, root table and back-tracking driver are wired consistently (T2/T9)")
    nw = ctx.body("fpgroups::cosets::CosetTables::new")
    ok = any(True for _ in nw.calls(exact="fpgroups::cosets::expanded_relator_set"))
    ctx.require(ok, "T2-relator-closure", nw.name, "expanded_relator_set", "the enumeration closes all rotations and inverses of the relators", "CosetTables::new no longer expands the relators by rotations/inverses")
    rt = ctx.body(BT + "root")
    r = ret_origin(rt, g)
    ctx.require(r == ("call", "fpgroups::cosets::CosetTable::new", (("field", ("param", 1, rt.debug.get(1, "")), "nr_gens"),)), "T9-root", rt.name, "CosetTable::new(nr_gens)",
                "root is the one-row table", "root state is " + show(r, 1)[:60])
    dr = ctx.body("<util::backtrack::BackTrackIterator<T> as std::iter::Iterator>::next")
    ctx.scan([nw, rt, dr])
    exs = [norm(dr.origin(t["args"][1]), g) for bi, t in dr.calls("BackTracking::extract")]
    chs = [norm(dr.origin(t["args"][1]), g) for bi, t in dr.calls("BackTracking::children")]
    ctx.require(len(exs) == 1 and exs == chs, "T9-driver", dr.name, "extract(current)/children(current)", "the driver extracts from and expands the same node",
                "the back-tracking driver extracts from and expands different nodes")
    rets = [(bi, norm(dr.rv_origin(s["rv"]), g)) for bi, si, s in dr.assigns() if s["place"]["l"] == 0 and not s["place"]["p"]]
    okret = all((v[0] == "call" and v[1].endswith("BackTracking::extract")) or (v[0] == "agg" and v[1].endswith("Option::None")) for bi, v in rets) and \
        any(v[0] == "call" for bi, v in rets)
    ctx.require(okret, "T9-driver", dr.name, "return value", "the driver returns exactly the extracted values", "the driver returns something other than the extracted value: " + "; ".join(show(v, 1)[:40] for bi, v in rets))
