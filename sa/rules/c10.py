"""C10 - free words are reduced elements of a free group (DESIGN 4/C10)."""
from ..core import *
from ..templates import *

FW = "fpgroups::free_words::FreeWord"
SAN = {"fpgroups::free_words::normalized"}

EXPLANATION = (
    "Decided: (a) T1 write-through: every construction of FreeWord, every assignment to its field `w` and every mutable borrow of it, "
    "in every body of the crate, takes the stored vector from free_words::normalized or copies the `w` of another FreeWord; with `w` "
    "private (field-visibility fact; thorough tier: compile-fail witness E0616/E0451) these are all writers, so every FreeWord value is "
    "freely reduced whatever operation produced it (in-place product, inverse, power, commutator, rotation, From). (b) the shape of "
    "`normalized` itself: the returned buffer is only changed by push/pop, a push is dominated by 'top does not cancel' and 'letter != 0', "
    "the pop by 'top cancels', and the cancel test compares with the negation. (c) partial_cmp delegates to cmp; Eq/PartialEq/Hash are derived. "
    "NOT decided: that cmp is a strict total order, that the relator representative is the minimum over all rotations/inverses, "
    "exactness of the permutation set (value-level).")
TRUSTED = ["rustc MIR lowering (nightly 1.97) of the dev profile", "std Vec::push/pop/last semantics",
           "A5 one-pass stack reduction is complete free reduction (argued by reading; its guard shape is checked, not its arithmetic)"]
ASSUMPTIONS = ["no unsafe code forges a FreeWord (checked: crate has no transmute into FreeWord; see sweep)"]


def run(ctx):
    ctx.clauses += ["every operation returns a freely reduced word (T1 + T8, proved modulo A5)", "order compatible with equality (T8 part)"]
    # ---- T8: field is private
    vis, ty = field_vis(ctx, FW, "w")
    ctx.require(is_private(vis), "T8-private-field", FW, "field:w", "FreeWord.w is private to its module", "FreeWord.w is visible outside free_words: %s" % vis)
    # ---- T1
    n = t1_write_through(ctx, "T1-write-through", FW, "w", SAN)
    ctx.floor("T1 write sites of FreeWord.w", n, 2)
    # ---- operations are total: a divisor that is a word length needs a non-zero guard (rotation of the empty word)
    nd = 0
    for d in sorted(ctx.facts.bodies):
        if not d.startswith("fpgroups::free_words::") or "{closure" in d:
            continue
        b = ctx.facts.bodies[d]
        sites = []
        for bi, t in b.calls():
            n_ = t["callee"].get("def", "")
            if n_.endswith("::rem_euclid") or n_.endswith("::div_euclid") or n_.endswith("::checked_rem"):
                sites.append((bi, norm(b.origin(t["args"][1]), ctx.facts.getters()), n_.split("::")[-1]))
        for bi, blk in b.live_blocks():
            t = blk["term"]
            if t["k"] == "assert" and t["msg"]["k"] in ("DivisionByZero", "RemainderByZero"):
                c = norm(b.origin(t["cond"]), ctx.facts.getters())
                if c[0] == "binop" and c[1] == "Eq" and c[3] == ("int", 0):
                    sites.append((bi, c[2], t["msg"]["k"]))
        for bi, div, what in sites:
            if not contains(div, lambda s: isinstance(s, tuple) and s and s[0] == "call" and s[1].endswith("::len")):
                continue
            nd += 1
            ok = holds(b.facts_at(bi), ("rel", "Ne", div, ("int", 0)), ctx.facts.getters()) or holds(b.facts_at(bi), ("rel", "Lt", ("int", 0), div), ctx.facts.getters())
            ctx.ob("T5-length-divisor-guarded", d, "%s by len()" % what, "ok" if ok else "violation",
                   "the division by a word length is dominated by a non-zero test on that length" if ok else
                   "a word length is used as divisor without a dominating non-zero test: the operation panics on the empty word instead of returning a (reduced) word", b.span_of(bi))
    ctx.floor("divisions by a word length in free_words", nd, 1)
    # ---- all rotations and their inverses (T4): relator_permutations / relator_representative
    ctx.clauses.append("relator permutation set / representative range over all rotations 0..len() and both the rotation and its inverse (T4)")
    gg = ctx.facts.getters()
    for fn in ("fpgroups::free_words::relator_permutations", "fpgroups::free_words::relator_representative"):
        b = ctx.body(fn)
        ctx.scan([b])
        fw = ("param", 1, b.debug.get(1, ""))
        rots = [(bi, t) for bi, t in b.calls(exact="fpgroups::free_words::FreeWord::rotated")]
        ctx.floor("rotated(..) calls in " + fn.split("::")[-1], len(rots), 1)
        for bi, t in rots:
            a = [norm(b.origin(x), gg) for x in t["args"]]
            r = loop_range_of_payload(b, a[1], gg) if a[1][0] == "field" else None
            okr = a[0] == fw and r is not None and r[0] == ("int", 0) and not r[2] and r[1] == ("call", "std::vec::Vec::<T, A>::len", (("field", fw, "w"),)) or \
                (a[0] == fw and r is not None and r[0] == ("int", 0) and not r[2] and r[1][0] == "call" and r[1][1].endswith("::len") and contains(r[1], lambda s: s == fw))
            ctx.ob("T4-all-rotations", fn, "rotated(i): i in 0..len()", "ok" if okr else "violation",
                   "every rotation 0..len() of the word is visited" if okr else
                   "the rotations visited are not all of 0..len() (%s): rotations (and their inverses) are dropped, the set / minimum depends on which rotation of a relator is given" % (r and (show(r[0], 1), show(r[1], 1)[:40], r[2]),), b.span_of(bi))
            every_iteration_reaches(ctx, "T4-all-rotations", b, bi, "rotation-loop->rotated(i)", "some rotation index is skipped")
        rot_terms = [norm(b.local_origin(t["dest"]["l"]), gg) for bi, t in rots if not t["dest"]["p"]]
        invs = [norm(b.local_origin(t["dest"]["l"]), gg) for bi, t in b.calls(exact="fpgroups::free_words::FreeWord::inverse") if not t["dest"]["p"]]
        okinv = any(iv[2][0] in rot_terms for iv in invs if iv[0] == "call")
        ctx.require(okinv, "T4-all-rotations", fn, "inverse(rotated(i))", "the inverse of every rotation is considered as well", "the inverses of the rotations are not considered")
        if fn.endswith("relator_permutations"):
            vals = [norm(b.origin(t["args"][1]), gg) for bi, t in b.calls("BTreeSet::<T, A>::insert")]
            okboth = any(v in rot_terms for v in vals) and any(v[0] == "call" and v[1].endswith("FreeWord::inverse") for v in vals)
            ctx.require(okboth, "T4-all-rotations", fn, "insert(w), insert(w.inverse())", "both the rotation and its inverse are inserted", "not both the rotation and its inverse are inserted")
    # ---- normalized shape
    nb = ctx.body("fpgroups::free_words::normalized")
    check_normalized(ctx, nb)
    # ---- partial_cmp delegates to cmp
    pc = [d for d in ctx.facts.bodies if d.endswith("::partial_cmp") and "free_words::FreeWord as" in d]
    if not pc:
        raise AnchorMissing("<FreeWord as PartialOrd>::partial_cmp")
    b = ctx.body(pc[0])
    ctx.scan([b])
    derived_po = b.f.get("derived")
    t = strip(b.local_origin(0))
    ok = False
    if derived_po:
        ord_impl = [i for i in impls_of(ctx, FW, "cmp::Ord")]
        ok = all(i["derived"] for i in ord_impl)
        detail = "PartialOrd and Ord both derived"
    else:
        if t[0] == "agg" and t[1].endswith("Option::Some") and len(t[2]) == 1:
            c = strip(t[2][0])
            if c[0] == "call" and c[1].endswith("cmp::Ord::cmp") and [strip(a) for a in c[2]] == [("param", 1, b.debug.get(1, "")), ("param", 2, b.debug.get(2, ""))]:
                ok = True
        detail = "partial_cmp returns Some(Ord::cmp(self, other))"
    ctx.require(ok, "T8-partial-cmp-delegates", b.name, "return", detail, "partial_cmp does not return Some(self.cmp(other)): " + show(t)[:120])
    for tr in ("cmp::PartialEq", "cmp::Eq", "hash::Hash"):
        im = [i for i in impls_of(ctx, FW, tr) if "Structural" not in i["trait"] and i["self_ty"] == FW]
        if not im:
            ctx.ob("T8-derived-eq", FW, tr, "undecided", "no impl found")
        elif all(i["derived"] for i in im):
            ctx.ob("T8-derived-eq", FW, tr, "ok", "derived on the single field w")
        else:
            ctx.ob("T8-derived-eq", FW, tr, "undecided", "hand-written impl: agreement with Ord not decided")


def check_normalized(ctx, nb):
    ctx.scan([nb])
    fn = nb.name
    # returned value is a Vec local that is only touched by with_capacity/new, push, pop, last
    ret = nb.local_origin(0)
    rl = strip(ret)
    ok_ret = rl[0] == "local"
    if not ok_ret:
        ctx.ob("T3-normalized-shape", fn, "return", "undecided", "return value is not a single buffer local: " + show(ret)[:80])
        return
    buf = rl[1]
    pushes, pops, others = [], [], []
    for bi, t in nb.calls():
        args = [strip(nb.origin(a)) for a in t["args"]]
        if args and args[0] == ("local", buf, nb.debug.get(buf, "")):
            n = t["callee"].get("def", "")
            if n.endswith("Vec::<T, A>::push"):
                pushes.append((bi, t))
            elif n.endswith("Vec::<T, A>::pop"):
                pops.append((bi, t))
            elif n.endswith("::last") or n.endswith("Deref::deref") or n.endswith("::len") or n.endswith("::is_empty"):
                pass
            else:
                others.append(n)
    ctx.require(not others, "T3-normalized-shape", fn, "buffer-mutators", "the result buffer is only changed through push/pop",
                "the result buffer is also passed to: %s" % others)
    ctx.floor("normalized push sites", len(pushes), 1)
    getters = ctx.facts.getters()
    for bi, t in pushes:
        atoms = nb.facts_at(bi)
        x = strip(nb.origin(t["args"][1]))
        cancel = [a for a in atoms if a[0] == "bool" and is_call(a[1], "is_some_and")]
        g1 = any(a[2] is False and is_call(strip(a[1])[2][0], "::last") for a in cancel)
        nz = any(a[0] == "rel" and a[1] == "Ne" and norm(a[2]) == norm(x) and strip(a[3]) == ("int", 0) for a in atoms)
        ctx.require(g1, "T3-normalized-shape", fn, "push:guard-top-does-not-cancel",
                    "push is dominated by the false edge of last().is_some_and(cancels)", "a letter is pushed without testing the top of the stack for cancellation", nb.span_of(bi))
        ctx.require(nz, "T3-normalized-shape", fn, "push:guard-nonzero", "push is dominated by letter != 0",
                    "a letter is pushed without the `!= 0` test", nb.span_of(bi))
    for bi, t in pops:
        atoms = nb.facts_at(bi)
        g = any(a[0] == "bool" and a[2] is True and is_call(a[1], "is_some_and") for a in atoms)
        ctx.require(g, "T3-normalized-shape", fn, "pop:guard-top-cancels", "pop only on the true edge of the cancellation test",
                    "pop is not dominated by the cancellation test", nb.span_of(bi))
    # the cancellation closure compares with the negation of the top
    cl = [ctx.facts.bodies[c] for c in ctx.facts.closures.get(fn, [])]
    okc = False
    for c in cl:
        t = strip(c.local_origin(0))
        if t[0] == "binop" and t[1] == "Eq":
            sides = [strip(t[2]), strip(t[3])]
            if any(s[0] == "unop" and s[1] == "Neg" for s in sides) or any(s[0] == "call" and s[1].endswith("ops::Neg::neg") for s in sides):
                okc = True
    ctx.require(okc, "T3-normalized-shape", fn, "closure:eq-neg", "cancellation test is `x == -y`", "no closure of normalized compares a letter with the negation of the top")
