"""C10 - free words are reduced elements of a free group (DESIGN 4/C10)."""
from ..core import *
from ..templates import *

FW = "fpgroups::free_words::FreeWord"
SAN = {"fpgroups::free_words::normalized"}

EXPLANATION = (
    "Decided: (a) T1 write-through: every construction of FreeWord, every assignment to its field `w` and every mutable borrow of it, in every "
    "body of the crate, takes the stored vector from free_words::normalized or copies the `w` of another FreeWord; with `w` private "
    "(field-visibility fact; thorough tier: compile-fail witness E0616/E0451) these are all writers, so every FreeWord value is freely reduced "
    "whatever operation produced it (in-place product, inverse, power, commutator, rotation, From). (b) the shape of `normalized` itself: the "
    "returned buffer is only changed by push/pop, a push is dominated by 'top does not cancel' and 'letter != 0', the pop by 'top cancels', and "
    "the cancel test compares with the negation. (c) partial_cmp delegates to cmp; Eq/PartialEq/Hash are derived. Also decided: cmp is "
    "lexicographic over positions 0..min(len, len) with the lengths as tie-break, and its letter comparison is a strict total order (evaluated "
    "through the path conditions of one iteration on all pairs of the letters -3..3, all triples for transitivity), so cmp is a strict total "
    "order compatible with ==. NOT decided: that the relator representative is the minimum over all rotations/inverses (only that all of them "
    "are compared), exactness of the permutation set (value-level).")
TRUSTED = ["rustc MIR lowering (nightly 1.97) of the dev profile", "std Vec::push/pop/last semantics",
           "A5 one-pass stack reduction is complete free reduction (argued by reading; its guard shape is checked, not its arithmetic)"]
ASSUMPTIONS = ["no unsafe code forges a FreeWord (checked: crate has no transmute into FreeWord; see sweep)"]


def run(ctx):
    ctx.clauses += ["every operation returns a freely reduced word (T1 + T8, proved modulo A5)", "order compatible with equality (T8 part)"]
    # ---- T8: field is private
    vis, ty = field_vis(ctx, FW, "w")
    ctx.require(is_private(vis), "T8-private-field", FW, "field:w", "FreeWord.w is private to its module", "FreeWord.w is visible outside free_words: %s" % vis)
    # ---- T1
    n = t1_write_through(ctx, "T1-write-through", FW, "w", SAN)
    ctx.floor("T1 write sites of FreeWord.w", n, 2)
    # ---- operations are total: a divisor that is a word length needs a non-zero guard (rotation of the empty word)
    nd = 0
    for d in sorted(ctx.facts.bodies):
        if not d.startswith("fpgroups::free_words::") or "{closure" in d:
            continue
        b = ctx.facts.bodies[d]
        sites = []
        for bi, t in b.calls():
            n_ = t["callee"].get("def", "")
            if n_.endswith("::rem_euclid") or n_.endswith("::div_euclid") or n_.endswith("::checked_rem"):
                sites.append((bi, norm(b.origin(t["args"][1]), ctx.facts.getters()), n_.split("::")[-1]))
        for bi, blk in b.live_blocks():
            t = blk["term"]
            if t["k"] == "assert" and t["msg"]["k"] in ("DivisionByZero", "RemainderByZero"):
                c = norm(b.origin(t["cond"]), ctx.facts.getters())
                if c[0] == "binop" and c[1] == "Eq" and c[3] == ("int", 0):
                    sites.append((bi, c[2], t["msg"]["k"]))
        for bi, div, what in sites:
            if not contains(div, lambda s: isinstance(s, tuple) and s and s[0] == "call" and s[1].endswith("::len")):
                continue
            nd += 1
            ok = holds(b.facts_at(bi), ("rel", "Ne", div, ("int", 0)), ctx.facts.getters()) or holds(b.facts_at(bi), ("rel", "Lt", ("int", 0), div), ctx.facts.getters())
            ctx.ob("T5-length-divisor-guarded", d, "%s by len()" % what, "ok" if ok else "violation",
                   "the division by a word length is dominated by a non-zero test on that length" if ok else
                   "a word length is used as divisor without a dominating non-zero test: the operation panics on the empty word instead of returning a (reduced) word", b.span_of(bi))
    ctx.floor("divisions by a word length in free_words", nd, 1)
    ordering(ctx, ctx.facts.getters())
    word_operations(ctx, ctx.facts.getters())
    # ---- all rotations and their inverses (T4): relator_permutations / relator_representative
    ctx.clauses.append("relator permutation set / representative range over all rotations 0..len() and both the rotation and its inverse (T4)")
    gg = ctx.facts.getters()
    rotations_reached(ctx, gg)
    representative_minimum(ctx, gg)
    for fn in ("fpgroups::free_words::relator_permutations", "fpgroups::free_words::relator_representative"):
        b = ctx.body(fn)
        ctx.scan([b])
        fw = ("param", 1, b.debug.get(1, ""))
        rots = [(bi, t) for bi, t in b.calls(exact="fpgroups::free_words::FreeWord::rotated")]
        ctx.floor("rotated(..) calls in " + fn.split("::")[-1], len(rots), 1)
        for bi, t in rots:
            a = [norm(b.origin(x), gg) for x in t["args"]]
            r = loop_range_of_payload(b, a[1], gg) if a[1][0] == "field" else None
            okr = a[0] == fw and r is not None and r[0] == ("int", 0) and not r[2] and r[1] == ("call", "std::vec::Vec::<T, A>::len", (("field", fw, "w"),)) or \
                (a[0] == fw and r is not None and r[0] == ("int", 0) and not r[2] and r[1][0] == "call" and r[1][1].endswith("::len") and contains(r[1], lambda s: s == fw))
            ctx.ob("T4-all-rotations", fn, "rotated(i): i in 0..len()", "ok" if okr else "violation",
                   "every rotation 0..len() of the word is visited" if okr else
                   "the rotations visited are not all of 0..len() (%s): rotations (and their inverses) are dropped, the set / minimum depends on which rotation of a relator is given" % (r and (show(r[0], 1), show(r[1], 1)[:40], r[2]),), b.span_of(bi))
            every_iteration_reaches(ctx, "T4-all-rotations", b, bi, "rotation-loop->rotated(i)", "some rotation index is skipped")
        rot_terms = [norm(b.local_origin(t["dest"]["l"]), gg) for bi, t in rots if not t["dest"]["p"]]
        invs = [norm(b.local_origin(t["dest"]["l"]), gg) for bi, t in b.calls(exact="fpgroups::free_words::FreeWord::inverse") if not t["dest"]["p"]]
        okinv = any(iv[2][0] in rot_terms for iv in invs if iv[0] == "call")
        ctx.require(okinv, "T4-all-rotations", fn, "inverse(rotated(i))", "the inverse of every rotation is considered as well", "the inverses of the rotations are not considered")
        if fn.endswith("relator_permutations"):
            vals = [norm(b.origin(t["args"][1]), gg) for bi, t in b.calls("BTreeSet::<T, A>::insert")]
            okboth = any(v in rot_terms for v in vals) and any(v[0] == "call" and v[1].endswith("FreeWord::inverse") for v in vals)
            ctx.require(okboth, "T4-all-rotations", fn, "insert(w), insert(w.inverse())", "both the rotation and its inverse are inserted", "not both the rotation and its inverse are inserted")
    # ---- normalized shape
    nb = ctx.body("fpgroups::free_words::normalized")
    check_normalized(ctx, nb)
    # ---- partial_cmp delegates to cmp
    pc = [d for d in ctx.facts.bodies if d.endswith("::partial_cmp") and "free_words::FreeWord as" in d]
    if not pc:
        raise AnchorMissing("<FreeWord as PartialOrd>::partial_cmp")
    b = ctx.body(pc[0])
    ctx.scan([b])
    derived_po = b.f.get("derived")
    t = strip(b.local_origin(0))
    ok = False
    if derived_po:
        ord_impl = [i for i in impls_of(ctx, FW, "cmp::Ord")]
        ok = all(i["derived"] for i in ord_impl)
        detail = "PartialOrd and Ord both derived"
    else:
        if t[0] == "agg" and t[1].endswith("Option::Some") and len(t[2]) == 1:
            c = strip(t[2][0])
            if c[0] == "call" and c[1].endswith("cmp::Ord::cmp") and [strip(a) for a in c[2]] == [("param", 1, b.debug.get(1, "")), ("param", 2, b.debug.get(2, ""))]:
                ok = True
        detail = "partial_cmp returns Some(Ord::cmp(self, other))"
    ctx.require(ok, "T8-partial-cmp-delegates", b.name, "return", detail, "partial_cmp does not return Some(self.cmp(other)): " + show(t)[:120])
    for tr in ("cmp::PartialEq", "cmp::Eq", "hash::Hash"):
        im = [i for i in impls_of(ctx, FW, tr) if "Structural" not in i["trait"] and i["self_ty"] == FW]
        if not im:
            ctx.ob("T8-derived-eq", FW, tr, "undecided", "no impl found")
        elif all(i["derived"] for i in im):
            ctx.ob("T8-derived-eq", FW, tr, "ok", "derived on the single field w")
        else:
            ctx.ob("T8-derived-eq", FW, tr, "undecided", "hand-written impl: agreement with Ord not decided")


def representative_minimum(ctx, g):
    """relator_representative returns the LEAST word, in FreeWord's own order, among the rotations of the word and their inverses: the running
    minimum starts as the word itself, is replaced exactly by a candidate that is smaller than it in that order (a replacement under any other
    comparison - by length first, by `<=` on something else - picks another element for words that are not cyclically reduced, where rotations
    reduce to different lengths), both candidates of every rotation are compared, and the running minimum is what is returned."""
    ctx.clauses.append("relator_representative: running minimum under FreeWord's own `<`, seeded with the word, both candidates compared, returned (T3)")
    b = ctx.body("fpgroups::free_words::relator_representative")
    fw = ("param", 1, b.debug.get(1, ""))
    bad = None
    ret = strip(norm(b.local_origin(0), g))
    cands = [l for l in b.debug if not b.is_stable_local(l) and b.local_ty(l).endswith("FreeWord")]
    defs = None
    best = None
    for l in cands:
        ds_ = [(dbb, strip(norm(d, g))) for dbb, d in b.all_defs_origins(l)]
        if len(ds_) >= 2:
            best, defs = ("local", l, b.debug.get(l, "")), ds_
    rets = [strip(norm(d, g)) for _, d in b.all_defs_origins(0)] if ret[0] == "local" else [ret]
    if best is None:
        bad = "no running minimum (a FreeWord local that is re-assigned) was found"
    else:
        init = [d for dbb, d in defs if loop_containing(b, dbb) is None]
        inloop = [(dbb, d) for dbb, d in defs if loop_containing(b, dbb) is not None]
        if init != [fw]:
            bad = "the running minimum does not start as the word itself"
        kinds = set()
        for dbb, d in inloop:
            fa = [atom_norm(a, g) for a in b.facts_at(dbb)]
            def smaller(a, d=d):
                # candidate < best or candidate <= best (replacing by an equal word changes nothing), in any spelling of FreeWord's order
                if a[0] != "rel":
                    return False
                x, y = strip(a[2]), strip(a[3])
                if a[1] in ("Lt", "Le") and x == d and y == best:
                    return True
                for c, o in ((x, y), (y, x)):
                    if is_call(c, "Ord::cmp") and o[0] == "agg" and "cmp::Ordering::" in o[1]:
                        cx, cy = strip(c[2][0]), strip(c[2][1])
                        which = o[1].split("::")[-1]
                        if (cx, cy) == (d, best) and ((a[1] == "Eq" and which == "Less") or (a[1] == "Ne" and which == "Greater")):
                            return True
                        if (cx, cy) == (best, d) and ((a[1] == "Eq" and which == "Greater") or (a[1] == "Ne" and which == "Less")):
                            return True
                return False
            if not any(smaller(a) for a in fa):
                bad = bad or "the running minimum is replaced by %s without the test `candidate < best` in FreeWord's order dominating the replacement" % show(d, 1)[:60]
            kinds.add("inverse" if is_call(d, "FreeWord::inverse") else "rotation" if is_call(d, "FreeWord::rotated") else "other")
        if not bad and kinds != {"inverse", "rotation"}:
            bad = "the candidates that can replace the running minimum are %s, not every rotation and its inverse" % sorted(kinds)
        if not bad and best not in rets:
            bad = "the running minimum is not what is returned for a non-empty word"
        # the comparison is FreeWord's: `<` resolves to PartialOrd::lt on FreeWord operands
        lts = [t for bi, t in b.calls("PartialOrd::lt")]
        if not bad and not all("FreeWord" in " ".join(str(x) for x in t["callee"].get("args", [])) and "(" not in str(t["callee"].get("args", [""])[0]) for t in lts):
            bad = "a comparison in relator_representative is not between two FreeWords"
    ctx.ob("T3-representative-minimum", b.name, "best = candidate iff candidate < best", "ok" if not bad else "violation",
           "seeded with the word; replaced exactly under `candidate < best`; rotation and inverse both compared; returned" if not bad else bad)


def ordering(ctx, g):
    """Ord for FreeWord is lexicographic with a total order on letters and the LENGTHS as tie-break: positions 0..min(len, len) are compared
    with the same index on both sides; a decision inside the loop is taken only at a difference; the letter comparison (decided by evaluating
    the path conditions of the in-loop returns for all pairs of letters in -3..3) is antisymmetric, total and transitive; when one word is
    a prefix of the other the result is self.len().cmp(&other.len()) of the two words' own lengths"""
    ctx.clauses.append("cmp is a strict total order compatible with ==: lexicographic, total letter order, length tie-break (T4/T9, letter order decided on all pairs)")
    b = ctx.body("<fpgroups::free_words::FreeWord as std::cmp::Ord>::cmp")
    ctx.scan([b])
    me, ot = ("param", 1, b.debug.get(1, "")), ("param", 2, b.debug.get(2, ""))
    lw = lambda p: ("call", "std::vec::Vec::<T, A>::len", (("field", p, "w"),))
    rets = [(bi, [strip(norm(b.origin(x), g)) for x in t["args"]]) for bi, t in b.calls("Ord::cmp") if t["dest"]["l"] == 0 and not t["dest"]["p"]]
    loops = natural_loops(b)
    inl = [(bi, a) for bi, a in rets if any(bi in bl for h, bl in loops)]
    outl = [(bi, a) for bi, a in rets if not any(bi in bl for h, bl in loops)]
    # also returns inside the loop body that are not in the natural loop (they leave it): classify by dominating Some-edge of next()
    if not inl:
        inl = [(bi, a) for bi, a in rets if any(atom_norm(x, g)[0] == "variant" and atom_norm(x, g)[2] == 1 and is_call(atom_norm(x, g)[1], "Iterator::next") for x in b.facts_at(bi))]
        outl = [r for r in rets if r not in inl]
    ctx.floor("letter comparisons returned from inside the loop of cmp", len(inl), 1)
    # tie-break
    okt = len(outl) == 1 and [strip(x) for x in outl[0][1]] == [lw(me), lw(ot)]
    ctx.ob("T9-ordering", b.name, "tie-break", "ok" if okt else "violation",
           "after the common prefix the result is self.w.len().cmp(&other.w.len())" if okt else
           "the tie-break after the common prefix is not self.w.len().cmp(&other.w.len()): %s - a word and its proper prefix compare as Equal (or the wrong way round)" % [[show(x, 1)[:30] for x in a] for bi, a in outl])
    # positions
    X = Y = None
    for bi, a in inl:
        for x in a:
            if is_call(x, "Index::index") or x[0] == "index":
                base = strip(x[2][0]) if x[0] == "call" else strip(x[1])
                if base == ("field", me, "w"):
                    X = x
                if base == ("field", ot, "w"):
                    Y = x
    okp = X is not None and Y is not None
    if okp:
        ix = X[2][1] if X[0] == "call" else X[2]
        iy = Y[2][1] if Y[0] == "call" else Y[2]
        r = loop_range_of_payload(b, ix, g)
        okp = ix == iy and r is not None and r[0] == ("int", 0) and not r[2] and is_call(r[1], "Ord::min") and {strip(x) for x in r[1][2]} == {lw(me), lw(ot)}
    ctx.ob("T9-ordering", b.name, "positions", "ok" if okp else "violation",
           "letters self.w[i], other.w[i] at the same position i in 0..min(len, len)" if okp else "the letters compared are not self.w[i] and other.w[i] for i in 0..min(self.w.len(), other.w.len())")
    if not okp:
        return
    # letter order: evaluate the path conditions of one iteration
    hdrs = [h for h, bl in loops]
    ent = None
    for hh, e, it in loops_in(b):
        ent = e
    if ent is None:
        ctx.ob("T9-ordering", b.name, "letter order", "violation", "the comparison loop was not found")
        return
    targets = {bi for bi, a in inl}
    cont = set(hdrs)
    paths = paths_to(b, ent, targets | cont, stop=(), g=g)
    retargs = dict(inl)
    letters = [v for v in range(-3, 4) if v != 0]
    tab = {}
    bad = None
    for x in letters:
        for y in letters:
            hits = []
            for tgt, atoms in paths:
                vals = [eval_atom_env(a, {X: x, Y: y}) for a in atoms if any(isinstance(z, tuple) and contains(z, lambda s_: s_ in (X, Y)) for z in a[1:])]
                if any(v is None for v in vals):
                    bad = bad or "a branch condition of the letter comparison cannot be evaluated: %s" % [show_atom(a)[:50] for a in atoms][:2]
                    continue
                if all(vals):
                    hits.append(tgt)
            hits = sorted(set(hits))
            if len(hits) != 1:
                bad = bad or "for letters (%d, %d) %d outcomes are possible" % (x, y, len(hits))
                continue
            if hits[0] in cont:
                tab[(x, y)] = 0
            else:
                a0, a1 = [eval_term_env(z, {X: x, Y: y}) for z in retargs[hits[0]]]
                if a0 is None or a1 is None:
                    bad = bad or "the value returned for letters (%d, %d) is not a comparison of the two letters" % (x, y)
                    continue
                tab[(x, y)] = (a0 > a1) - (a0 < a1)
    if not bad:
        for x in letters:
            for y in letters:
                if (tab[(x, y)] == 0) != (x == y):
                    bad = bad or "letters %d and %d compare as %s" % (x, y, "equal" if tab[(x, y)] == 0 else "different although equal")
                elif tab[(x, y)] != -tab[(y, x)]:
                    bad = bad or "the letter order is not antisymmetric: cmp(%d, %d) = %d but cmp(%d, %d) = %d" % (x, y, tab[(x, y)], y, x, tab[(y, x)])
        for x in letters:
            for y in letters:
                for z in letters:
                    if not bad and tab[(x, y)] < 0 and tab[(y, z)] < 0 and not tab[(x, z)] < 0:
                        bad = "the letter order is not transitive: %d < %d < %d but not %d < %d" % (x, y, z, x, z)
    ctx.ob("T9-ordering", b.name, "letter order", "ok" if not bad else "violation",
           "the letter comparison is a strict total order on the 6 letters -3..3 (36 pairs, 216 triples); a decision is taken exactly at a difference" if not bad else bad)


def word_operations(ctx, g):
    """shape of the word operations (each result passes through FreeWord::new / the reducing product, which T1 decides separately):
    inverse = the letters in reverse order, each negated; w^m for m >= 0 = the m-fold product empty * w * .. * w, for m < 0 = (w^-1)^(-m);
    commutator = w v w^-1 v^-1; rotated(i) = letters i.. followed by letters ..i with i = i mod len (the empty word rotates to itself)"""
    ctx.clauses.append("inverse / power / commutator / rotation have their defining shape (T9)")
    W = "fpgroups::free_words::FreeWord::"
    b = ctx.body(W + "inverse")
    ctx.scan(ctx.facts.with_closures(b.name))
    me = ("param", 1, b.debug.get(1, ""))
    r = norm(b.local_origin(0), g)
    oki = is_call(r, W + "new")
    if oki:
        a = strip(r[2][0])
        res = closure_result(ctx.facts, a[2][1], g) if is_call(a, "Iterator::map") else None
        oki = is_call(a, "Iterator::map") and is_call(strip(a[2][0]), "Iterator::rev") and contains(a[2][0], lambda y: y == ("field", me, "w")) and \
            res is not None and ((res[0] == "unop" and res[1] == "Neg") or is_call(res, "Neg::neg")) and contains(res, lambda y: y[0] == "param" and y[1] == 2)
    ctx.ob("T9-word-operations", b.name, "inverse", "ok" if oki else "violation",
           "inverse = new(w.iter().rev().map(|x| -x))" if oki else "inverse is not the reversed word with every letter negated: " + show(r, 1)[:90])
    b = ctx.body(W + "raised_to")
    ctx.scan(ctx.facts.with_closures(b.name))
    me, m_ = ("param", 1, b.debug.get(1, "")), ("param", 2, b.debug.get(2, ""))
    okneg = okpos = False
    for dbb, d in b.all_defs_origins(0):
        d = norm(d, g)
        fa = [atom_norm(x, g) for x in b.facts_at(dbb)]
        if is_call(d, W + "raised_to"):
            okneg = strip(d[2][0]) == ("call", W + "inverse", (me,)) and strip(d[2][1]) in (("unop", "Neg", m_), ("call", "std::ops::Neg::neg", (m_,))) and any(implies(x, ("rel", "Lt", m_, ("int", 0))) for x in fa if x[0] == "rel")
        if is_call(d, "Iterator::fold"):
            rng = strip(d[2][0])
            res = closure_result(ctx.facts, d[2][2], g)
            okpos = rng[0] == "agg" and rng[1].endswith("ops::Range::Range") and [strip(x) for x in rng[2]] == [("int", 0), m_] and is_call(strip(d[2][1]), W + "empty") and \
                res is not None and is_call(res, "Mul::mul") and strip(res[2][0])[:2] == ("param", 2) and strip(res[2][1]) in (("field", ("param", 1, ""), "0"), me)
    ctx.ob("T9-word-operations", b.name, "raised_to", "ok" if okneg and okpos else "violation",
           "w^m = fold of m products from the empty word; negative exponents go through the inverse" if okneg and okpos else
           "raised_to is not ((0..m).fold(empty, |a, _| a * w), and inverse().raised_to(-m) for m < 0): negative branch ok %s, non-negative branch ok %s" % (okneg, okpos))
    b = ctx.body(W + "commutator")
    me, ot = ("param", 1, b.debug.get(1, "")), ("param", 2, b.debug.get(2, ""))
    r = norm(b.local_origin(0), g)
    mul = lambda x, y: ("call", "std::ops::Mul::mul", (x, y))
    want = mul(mul(mul(me, ot), ("call", W + "inverse", (me,))), ("call", W + "inverse", (ot,)))
    flat = lambda t: map_term(t, lambda x: (x[0], x[1], tuple(strip(a) for a in x[2])) if x[0] == "call" else None)
    okc = flat(r) == want
    ctx.ob("T9-word-operations", b.name, "commutator", "ok" if okc else "violation", "[w, v] = w v w^-1 v^-1" if okc else "commutator is " + show(r, 1)[:90])
    b = ctx.body(W + "rotated")
    me = ("param", 1, b.debug.get(1, ""))
    okr = okr0 = False
    for dbb, d in b.all_defs_origins(0):
        d = norm(d, g)
        fa = [atom_norm(x, g) for x in b.facts_at(dbb)]
        if strip(d) == me or (is_call(d, "Clone::clone") and strip(d[2][0]) == me):
            okr0 = any(x[0] == "rel" and x[1] == "Eq" and x[3] == ("int", 0) for x in fa)
        if is_call(d, W + "new"):
            a = strip(d[2][0])
            names = [x[1].split("::")[-1] for x in subterms(a) if x[0] == "call"]
            sk = [x for x in subterms(a) if is_call(x, "Iterator::skip")]
            tk = [x for x in subterms(a) if is_call(x, "Iterator::take")]
            ch = [x for x in subterms(a) if is_call(x, "Iterator::chain")]
            okr = len(sk) == 1 and len(tk) == 1 and len(ch) >= 1 and strip(sk[0][2][1]) == strip(tk[0][2][1]) and any(is_call(x, "rem_euclid") for x in subterms(sk[0][2][1]))
            if okr:
                # skip(i) comes first: the chain whose first operand contains the skip and whose second contains the take
                okr = any(contains(c[2][0], lambda y: y == sk[0]) and contains(c[2][1], lambda y: y == tk[0]) for c in ch)
    ctx.ob("T9-word-operations", b.name, "rotated", "ok" if okr and okr0 else "violation",
           "rotated(i) = new(w[i..] ++ w[..i]) with i reduced modulo len; the empty word is returned as it is" if okr and okr0 else
           "rotated is not (letters from i on, then the first i letters, i mod len, empty word unchanged): rotation branch ok %s, empty branch ok %s" % (okr, okr0))



def rotations_reached(ctx, g):
    """relator_permutations / relator_representative treat the empty word apart and run their loop over all rotations for EVERY other word: the
    rotation loop is reached exactly for lengths >= 1 (a guard `len == 1` or `len != 0` on the special case sends words of length 1, or all
    non-empty words, past the loop: inverses / the minimum are lost).  The guard is evaluated for lengths 0, 1, 2, 5"""
    ctx.clauses.append("the loop over all rotations (and inverses) is reached exactly for non-empty words (T3, guard evaluated on a length table)")
    for fn in ("relator_permutations", "relator_representative"):
        b = ctx.body("fpgroups::free_words::" + fn)
        sites = list(b.calls("FreeWord::rotated"))
        bad = None
        if len(sites) != 1:
            bad = "%d rotated(..) calls" % len(sites)
        else:
            tab = reach_table_by_length(b, sites[0][0], g, any_len=True)
            # the loop bound itself (i < len) is one of the dominating facts: for length 0 the body is not reached
            if tab != {0: False, 1: True, 2: True, 5: True}:
                bad = "the rotations are looked at for words of length %s only" % (tab if tab is None else [L for L, v in tab.items() if v])
            else:
                # what is returned when the loop is skipped: only the word itself, and only for the empty word
                pass
        ctx.ob("T3-rotations-reached", b.name, "rotated(i) for every non-empty word", "ok" if not bad else "violation",
               "the rotation loop is reached exactly for lengths >= 1" if not bad else bad)


def check_normalized(ctx, nb):
    ctx.scan([nb])
    fn = nb.name
    # returned value is a Vec local that is only touched by with_capacity/new, push, pop, last
    ret = nb.local_origin(0)
    rl = strip(ret)
    ok_ret = rl[0] == "local"
    if not ok_ret:
        ctx.ob("T3-normalized-shape", fn, "return", "undecided", "return value is not a single buffer local: " + show(ret)[:80])
        return
    buf = rl[1]
    pushes, pops, others = [], [], []
    for bi, t in nb.calls():
        args = [strip(nb.origin(a)) for a in t["args"]]
        if args and args[0] == ("local", buf, nb.debug.get(buf, "")):
            n = t["callee"].get("def", "")
            if n.endswith("Vec::<T, A>::push"):
                pushes.append((bi, t))
            elif n.endswith("Vec::<T, A>::pop"):
                pops.append((bi, t))
            elif n.endswith("::last") or n.endswith("Deref::deref") or n.endswith("::len") or n.endswith("::is_empty"):
                pass
            else:
                others.append(n)
    ctx.require(not others, "T3-normalized-shape", fn, "buffer-mutators", "the result buffer is only changed through push/pop",
                "the result buffer is also passed to: %s" % others)
    ctx.floor("normalized push sites", len(pushes), 1)
    getters = ctx.facts.getters()
    for bi, t in pushes:
        atoms = nb.facts_at(bi)
        x = strip(nb.origin(t["args"][1]))
        cancel = [a for a in atoms if a[0] == "bool" and is_call(a[1], "is_some_and")]
        g1 = any(a[2] is False and is_call(strip(a[1])[2][0], "::last") for a in cancel)
        nz = any(a[0] == "rel" and a[1] == "Ne" and norm(a[2]) == norm(x) and strip(a[3]) == ("int", 0) for a in atoms)
        ctx.require(g1, "T3-normalized-shape", fn, "push:guard-top-does-not-cancel",
                    "push is dominated by the false edge of last().is_some_and(cancels)", "a letter is pushed without testing the top of the stack for cancellation", nb.span_of(bi))
        ctx.require(nz, "T3-normalized-shape", fn, "push:guard-nonzero", "push is dominated by letter != 0",
                    "a letter is pushed without the `!= 0` test", nb.span_of(bi))
    for bi, t in pops:
        atoms = nb.facts_at(bi)
        g = any(a[0] == "bool" and a[2] is True and is_call(a[1], "is_some_and") for a in atoms)
        ctx.require(g, "T3-normalized-shape", fn, "pop:guard-top-cancels", "pop only on the true edge of the cancellation test",
                    "pop is not dominated by the cancellation test", nb.span_of(bi))
    # the cancellation closure compares with the negation of the top
    cl = [ctx.facts.bodies[c] for c in ctx.facts.closures.get(fn, [])]
    okc = False
    for c in cl:
        t = strip(c.local_origin(0))
        if t[0] == "binop" and t[1] == "Eq":
            sides = [strip(t[2]), strip(t[3])]
            if any(s[0] == "unop" and s[1] == "Neg" for s in sides) or any(s[0] == "call" and s[1].endswith("ops::Neg::neg") for s in sides):
                okc = True
    ctx.require(okc, "T3-normalized-shape", fn, "closure:eq-neg", "cancellation test is `x == -y`", "no closure of normalized compares a letter with the negation of the top")
