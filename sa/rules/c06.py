"""C06 - D-set generator: closure and orderly-generation filter applied to every node, complete sets only, numbering (DESIGN 4/C06)."""
from ..core import *
from ..templates import *

BT = "<generators::dset_generators::DSetBackTracking as util::backtrack::BackTracking>::"

EXPLANATION = (
    "Decided: (1) the commutation closure and the orderly-generation filter are applied to every generated node: in children() every "
    "result.push(State { dset, .. }) is dominated by check_and_apply_implications(&mut dset, i, d) == true and check_canonicity(&dset, ..) "
    "== true on that same dset, with no mutation of it in between, and (i, d) is the state's next undefined entry which set(i, d, e) defines; "
    "the images tried are the inclusive range d..=min(size + 1, max_size), each guarded by 'new chamber or still free'. (2) only complete "
    "D-sets are emitted: extract returns Some(dset.clone()) only on next_i_d.is_none(), and next_i_d of a child is next_undefined(&dset, i, d) "
    "of the child's own dset. (3) numbered consecutively from 1: counter starts at 0 and is incremented by the constant 1 exactly once, before "
    "it is handed to the constructor, only on the Some path. (4) the root is the one-chamber D-set of the requested dimension with (0, 1) as "
    "first undefined entry. NOT decided: that no two outputs are isomorphic and every class is represented (correctness of check_canonicity "
    "and of the implication closure).")
TRUSTED = ["rustc MIR lowering", "generic back-tracking driver (checked under C12: extracts from and expands the same node)"]
ASSUMPTIONS = []


def implications(ctx, g):
    """shape of the commutation closure: every far-apart index (symmetric test) is scanned for every queued entry, a closed orbit with
    head != tail rejects, a single gap is filled and re-queued unconditionally, `true` only when the queue is empty"""
    ctx.clauses.append("commutation closure: symmetric far-apart test, all indices, contradiction rejects, deductions applied and re-queued (T3/T4)")
    M_ = "generators::dset_generators::"
    b = ctx.body(M_ + "check_and_apply_implications")
    ctx.scan([b])
    scans = list(b.calls(exact=M_ + "scan_orbit"))
    ctx.floor("scan_orbit calls in check_and_apply_implications", len(scans), 1)
    for bi, t in scans:
        a = [norm(b.origin(x), g) for x in t["args"]]
        i_t, j_t = a[1], a[2]
        r = loop_range_of_payload(b, b.origin(t["args"][2]), g)
        okr = r is not None and r[0] == ("int", 0) and r[2] and r[1][0] in ("call", "field") and ("dim" in str(r[1]))
        ctx.require(okr, "T4-commutation-all-indices", b.name, "j-range", "the partner index ranges over 0..=dim()", "the partner index does not range over 0..=dim(): %s" % (r and (show(r[0], 1), show(r[1], 1)[:40], r[2]),), b.span_of(bi))
        sym = False
        for at in b.facts_at(bi):
            at = atom_norm(at, g)
            if at[0] == "rel" and at[1] in ("Lt", "Le"):
                lo, x = at[2], at[3]
                if lo[0] == "int" and ((at[1] == "Lt" and lo[1] == 1) or (at[1] == "Le" and lo[1] == 2)):
                    if x[0] == "call" and (x[1].endswith("::abs_diff") or x[1].endswith("::abs")) and contains(x, lambda s: s == i_t) and contains(x, lambda s: s == j_t):
                        sym = True
        ctx.ob("T3-commutation-symmetric", b.name, "scan_orbit<-|i - j| > 1", "ok" if sym else "violation",
               "an orbit is scanned for every index j with |i - j| > 1 (symmetric test)" if sym else
               "the far-apart test guarding the orbit scan is not the symmetric |i - j| > 1: commutation with lower (or higher) indices is never checked, non-commuting sets are generated", b.span_of(bi))
        lb = loop_containing(b, bi)
    res = [norm(b.local_origin(t["dest"]["l"]), g) for bi, t in scans if not t["dest"]["p"]]
    def fld(s, i):
        return ("field", s, str(i))
    falses = [bi for bi, si, s in b.assigns() if s["place"]["l"] == 0 and norm(b.rv_origin(s["rv"]), g) == ("int", 0)]
    trues = [bi for bi, si, s in b.assigns() if s["place"]["l"] == 0 and norm(b.rv_origin(s["rv"]), g) == ("int", 1)]
    okc = False
    for bi in falses:
        fa = [atom_norm(a, g) for a in b.facts_at(bi)]
        for s in res:
            if any(implies(h, ("rel", "Eq", fld(s, 2), ("int", 0))) for h in fa) and any(implies(h, ("rel", "Ne", fld(s, 0), fld(s, 1))) for h in fa):
                okc = True
                ctx.require(not (b.fwd(bi) & set(trues)), "T3-commutation-contradiction", b.name, "false-is-final", "no `true` is reachable after a contradiction", "after a contradiction control can still reach `true`")
    ctx.require(okc, "T3-commutation-contradiction", b.name, "gap==0 && head!=tail -> false", "a closed 4-cycle scan with head != tail rejects", "no `return false` on gap == 0 && head != tail")
    sets = [(bi, [norm(b.origin(x), g) for x in t["args"]]) for bi, t in b.calls(exact="dsets::PartialDSet::set")]
    pbs = [(bi, norm(b.origin(t["args"][1]), g)) for bi, t in b.calls("VecDeque::<T, A>::push_back")]
    okd = False
    for bi, a in sets:
        for s in res:
            if a[1:] == [fld(s, 3), fld(s, 0), fld(s, 1)]:
                fa = [atom_norm(x, g) for x in b.facts_at(bi)]
                g1 = any(implies(h, ("rel", "Eq", fld(s, 2), ("int", 1))) for h in fa)
                lp = loop_containing(b, bi)
                rq = [pb for pb, v in pbs if v == ("agg", "tuple", (fld(s, 3), fld(s, 0)))]
                okq = lp is not None and bool(rq) and any(must_pass_through(b, bi, pb, lp[0]) for pb in rq)
                okd = g1 and okq
    ctx.require(okd, "T3-commutation-deduction", b.name, "gap==1 -> set(k, head, tail); push_back((k, head))", "a single missing entry is filled and re-queued on every path",
                "the forced entry of a 4-cycle with one gap is not set(k, head, tail) under gap == 1 and re-queued unconditionally as (k, head)")
    okt = bool(trues) and all(any(a[0] == "bool" and is_call(a[1], "is_empty") and a[2] is True for a in b.facts_at(bi)) or
                              any(atom_norm(a, g)[0] == "variant" and atom_norm(a, g)[2] == 0 for a in b.facts_at(bi)) for bi in trues)
    ctx.require(okt, "T3-commutation-exhaustive", b.name, "true<-queue empty", "`true` only when the work queue is empty", "check_and_apply_implications can return true while entries are still queued")


def run(ctx):
    g = ctx.facts.getters()
    ch = ctx.body(BT + "children")
    ex = ctx.body(BT + "extract")
    rt = ctx.body(BT + "root")
    ctx.scan([ch, ex, rt])
    me, st = ("param", 1, ch.debug.get(1, "")), ("param", 2, ch.debug.get(2, ""))
    nid = ("field", ("variant", ("field", st, "next_i_d"), "Some"), "0")
    i_t, d_t = ("field", nid, "0"), ("field", nid, "1")

    ctx.clauses.append("commutation closure and orderly-generation filter on every generated node (T3)")
    pushes = [(bi, t) for bi, t in ch.calls("Vec::<T, A>::push") if "DSetGenState" in t["callee"].get("path_with_args", "")]
    ctx.floor("state pushes in DSet children()", len(pushes), 1)
    for bi, t in pushes:
        v = norm(ch.origin(t["args"][1]), g)
        okshape = v[0] == "agg" and v[1].endswith("DSetGenState::DSetGenState") and len(v[2]) == 3
        if not okshape:
            ctx.ob("T3-node-filters", ch.name, "push(State)", "undecided", "pushed value is not a State aggregate: " + show(v, 1)[:60])
            continue
        dset = v[2][0]
        fa = [atom_norm(a, g) for a in ch.facts_at(bi, deep=True)]
        imp = any(a[0] == "bool" and a[2] is True and a[1][0] == "call" and a[1][1].endswith("check_and_apply_implications") and list(a[1][2]) == [dset, i_t, d_t] for a in fa)
        can = any(a[0] == "bool" and a[2] is True and a[1][0] == "call" and a[1][1].endswith("check_canonicity") and a[1][2][0] == dset for a in fa)
        ctx.ob("T3-node-filters", ch.name, "push(State)<-check_and_apply_implications", "ok" if imp else "violation",
               "dominated by check_and_apply_implications(&mut dset, i, d) on the pushed dset and the defined entry" if imp else
               "a node is generated without (a still valid) check_and_apply_implications on its D-set: non-commuting sets are generated", ch.span_of(bi))
        ctx.ob("T3-node-filters", ch.name, "push(State)<-check_canonicity", "ok" if can else "violation",
               "dominated by check_canonicity(&dset, ..) on the pushed dset" if can else
               "a node is generated without (a still valid) check_canonicity on its D-set: isomorphic copies are generated", ch.span_of(bi))
        # per-child flags: the flags checked by check_canonicity are the ones stored in the child, and they are a copy of the
        # parent's flags made inside this loop iteration (no leakage between sibling candidates)
        flags = v[2][1]
        cc = [a for a in fa if a[0] == "bool" and a[2] is True and a[1][0] == "call" and a[1][1].endswith("check_canonicity")]
        cflags = None
        for a in cc:
            x = a[1][2][1]
            while x[0] == "call" and x[2]:
                x = x[2][0]
            cflags = x
        same = cflags is not None and flags == cflags
        fresh = False
        if same and flags[0] == "local":
            defs = ch.all_defs_origins(flags[1])
            lb = loop_blocks_of_payload(ch, ch.origin([x for x in ch.calls(exact="dsets::PartialDSet::set")][0][1]["args"][3])) if any(True for _ in ch.calls(exact="dsets::PartialDSet::set")) else None
            if len(defs) == 1 and lb is not None:
                dbb, dterm = defs[0]
                src = norm(dterm, g)
                fresh = src == ("field", st, "is_remap_start") and ch.dominates(lb[1], dbb)
        ctx.ob("T3-per-child-state", ch.name, "State.is_remap_start", "ok" if same and fresh else "violation",
               "the flags passed to check_canonicity are the child's own, cloned from the parent's inside the iteration" if same and fresh else
               "the canonicity flags of a child are not a per-iteration copy of the parent's flags (same object as checked: %s, cloned from state.is_remap_start inside the loop: %s): updates made while testing one sibling leak into the next" % (same, fresh), ch.span_of(bi))
        nxt = v[2][2]
        oknx = nxt == ("call", "generators::dset_generators::next_undefined", (dset, i_t, d_t))
        ctx.require(oknx, "T3-next-undefined", ch.name, "State.next_i_d", "the child's next entry is next_undefined(&dset, i, d) of its own dset",
                    "the child's next undefined entry is not computed from its own D-set: " + show(nxt, 1)[:80], ch.span_of(bi))
    sets = [(bi, [norm(ch.origin(a), g) for a in t["args"]]) for bi, t in ch.calls(exact="dsets::PartialDSet::set")]
    ctx.floor("set calls in DSet children()", len(sets), 1)
    for bi, a in sets:
        r = loop_range_of_payload(ch, a[3], g) if a[3][0] == "field" else None
        okd = a[1] == i_t and a[2] == d_t
        ctx.require(okd, "T4-defines-next-entry", ch.name, "set(i, d, e)", "the entry defined is the state's next undefined entry", "set() defines a different entry than next_i_d", ch.span_of(bi))
        okr = False
        if r is not None and r[2] and r[0] == d_t:
            hi = r[1]
            size1 = ("field", ("binop", "AddWithOverflow", ("field", ("field", st, "dset"), "size"), ("int", 1)), "0")
            okr = hi[0] == "call" and hi[1].endswith("Ord::min") and size1 in hi[2] and ("field", me, "max_size") in hi[2]
        ctx.require(okr, "T4-image-range", ch.name, "e in d..=min(size+1, max_size)", "candidate images are d..=min(size + 1, max_size)",
                    "candidate images are not the inclusive range d..=min(size + 1, max_size): %s" % (r and (show(r[0], 1)[:30], show(r[1], 1)[:60], r[2]),), ch.span_of(bi))

    for h, e, it in loops_in(ch):
        scratch = set()
        for bi_, t_ in ch.calls("check_canonicity"):
            for a_ in t_["args"][2:4]:
                o_ = strip(ch.origin(a_))
                while o_[0] == "call" and o_[2]:
                    o_ = strip(o_[2][0])
                if o_[0] == "local":
                    scratch.add(o_[1])
        extra = unexpected_carried_state(ch, h, e, scratch)
        ctx.ob("T3-per-child-state", ch.name, "loop-carried state", "ok" if not extra else "violation",
               "only the result vector and the two scratch renumbering buffers are carried between candidates" if not extra else
               "state %s is carried from one candidate image to the next" % extra)
    implications(ctx, g)
    ctx.clauses.append("only complete D-sets are emitted (T3)")
    es = [(bi, si, s) for bi, si, s in ex.assigns() if s["place"]["l"] == 0 and s["rv"]["k"] == "aggregate" and s["rv"].get("variant") == "Some"]
    ctx.floor("Some(..) in DSet extract", len(es), 1)
    stt = ("param", 2, ex.debug.get(2, ""))
    for bi, si, s in es:
        fa = [atom_norm(a, g) for a in ex.facts_at(bi)]
        okg = ("bool", ("call", "std::option::Option::<T>::is_none", (("field", stt, "next_i_d"),)), True) in fa or ("variant", ("field", stt, "next_i_d"), 0) in fa
        v = norm(ex.origin(s["rv"]["ops"][0]), g)
        ctx.require(okg, "T3-extract-complete", ex.name, "Some<-next_i_d.is_none()", "a D-set is emitted only when no entry is undefined", "extract can emit a D-set with undefined entries", ex.span_of(bi, si))
        ctx.require(v == ("field", stt, "dset"), "T3-extract-complete", ex.name, "Some(state.dset)", "the emitted D-set is the state's own", "extract emits " + show(v, 1)[:50], ex.span_of(bi, si))

    ctx.clauses.append("numbered consecutively from 1 (T4)")
    counter_rule(ctx, "T4-consecutive-numbering", "generators::dset_generators::DSets::new", "<generators::dset_generators::DSets as std::iter::Iterator>::next",
                 "SimpleDSet::from_partial", g)

    ctx.clauses.append("root = one chamber, first entry (0, 1) (T4)")
    r = ret_origin(rt, g)
    okroot = r[0] == "agg" and r[2][0] == ("call", "dsets::PartialDSet::new", (("int", 1), ("field", ("param", 1, rt.debug.get(1, "")), "dim"))) and \
        r[2][2] == ("agg", "adt:std::option::Option::Some", (("agg", "tuple", (("int", 0), ("int", 1))),))
    ctx.require(okroot, "T4-root", rt.name, "root", "root = PartialDSet::new(1, dim), next (0, 1)", "root state is " + show(r, 1)[:120])
