"""C06 - D-set generator: closure and orderly-generation filter applied to every node, complete sets only, numbering (DESIGN 4/C06)."""
from ..core import *
from ..templates import *

BT = "<generators::dset_generators::DSetBackTracking as util::backtrack::BackTracking>::"

EXPLANATION = (
    "Decided: (1) the commutation closure and the orderly-generation filter are applied to every generated node: in children() every "
    "result.push(State { dset, .. }) is dominated by check_and_apply_implications(&mut dset, i, d) == true and check_canonicity(&dset, ..) "
    "== true on that same dset, with no mutation of it in between, and (i, d) is the state's next undefined entry which set(i, d, e) defines; "
    "the images tried are the inclusive range d..=min(size + 1, max_size), each guarded by 'new chamber or still free'. (2) only complete "
    "D-sets are emitted: extract returns Some(dset.clone()) only on next_i_d.is_none(), and next_i_d of a child is next_undefined(&dset, i, d) "
    "of the child's own dset. (3) numbered consecutively from 1: counter starts at 0 and is incremented by the constant 1 exactly once, before "
    "it is handed to the constructor, only on the Some path. (4) the root is the one-chamber D-set of the requested dimension with (0, 1) as "
    "first undefined entry. NOT decided: that no two outputs are isomorphic and every class is represented (correctness of check_canonicity "
    "and of the implication closure).")
TRUSTED = ["rustc MIR lowering", "generic back-tracking driver (checked under C12: extracts from and expands the same node)"]
ASSUMPTIONS = []


def implications(ctx, g):
    """shape of the commutation closure: every far-apart index (symmetric test) is scanned for every queued entry, a closed orbit with
    head != tail rejects, a single gap is filled and re-queued unconditionally, `true` only when the queue is empty"""
    ctx.clauses.append("commutation closure: symmetric far-apart test, all indices, contradiction rejects, deductions applied and re-queued (T3/T4)")
    M_ = "generators::dset_generators::"
    b = ctx.body(M_ + "check_and_apply_implications")
    ctx.scan([b])
    scans = list(b.calls(exact=M_ + "scan_orbit"))
    ctx.floor("scan_orbit calls in check_and_apply_implications", len(scans), 1)
    for bi, t in scans:
        a = [norm(b.origin(x), g) for x in t["args"]]
        i_t, j_t = a[1], a[2]
        r = loop_range_of_payload(b, b.origin(t["args"][2]), g)
        okr = r is not None and r[0] == ("int", 0) and r[2] and r[1][0] in ("call", "field") and ("dim" in str(r[1]))
        ctx.require(okr, "T4-commutation-all-indices", b.name, "j-range", "the partner index ranges over 0..=dim()", "the partner index does not range over 0..=dim(): %s" % (r and (show(r[0], 1), show(r[1], 1)[:40], r[2]),), b.span_of(bi))
        sym = False
        for at in b.facts_at(bi):
            at = atom_norm(at, g)
            if at[0] == "rel" and at[1] in ("Lt", "Le"):
                lo, x = at[2], at[3]
                if lo[0] == "int" and ((at[1] == "Lt" and lo[1] == 1) or (at[1] == "Le" and lo[1] == 2)):
                    if x[0] == "call" and (x[1].endswith("::abs_diff") or x[1].endswith("::abs")) and contains(x, lambda s: s == i_t) and contains(x, lambda s: s == j_t):
                        sym = True
        ctx.ob("T3-commutation-symmetric", b.name, "scan_orbit<-|i - j| > 1", "ok" if sym else "violation",
               "an orbit is scanned for every index j with |i - j| > 1 (symmetric test)" if sym else
               "the far-apart test guarding the orbit scan is not the symmetric |i - j| > 1: commutation with lower (or higher) indices is never checked, non-commuting sets are generated", b.span_of(bi))
        lb = loop_containing(b, bi)
    res = [norm(b.local_origin(t["dest"]["l"]), g) for bi, t in scans if not t["dest"]["p"]]
    def fld(s, i):
        return ("field", s, str(i))
    falses = [bi for bi, si, s in b.assigns() if s["place"]["l"] == 0 and norm(b.rv_origin(s["rv"]), g) == ("int", 0)]
    trues = [bi for bi, si, s in b.assigns() if s["place"]["l"] == 0 and norm(b.rv_origin(s["rv"]), g) == ("int", 1)]
    okc = False
    for bi in falses:
        fa = [atom_norm(a, g) for a in b.facts_at(bi)]
        for s in res:
            if any(implies(h, ("rel", "Eq", fld(s, 2), ("int", 0))) for h in fa) and any(implies(h, ("rel", "Ne", fld(s, 0), fld(s, 1))) for h in fa):
                okc = True
                ctx.require(not (b.fwd(bi) & set(trues)), "T3-commutation-contradiction", b.name, "false-is-final", "no `true` is reachable after a contradiction", "after a contradiction control can still reach `true`")
    ctx.require(okc, "T3-commutation-contradiction", b.name, "gap==0 && head!=tail -> false", "a closed 4-cycle scan with head != tail rejects", "no `return false` on gap == 0 && head != tail")
    sets = [(bi, [norm(b.origin(x), g) for x in t["args"]]) for bi, t in b.calls(exact="dsets::PartialDSet::set")]
    pbs = [(bi, norm(b.origin(t["args"][1]), g)) for bi, t in b.calls("VecDeque::<T, A>::push_back")]
    okd = False
    for bi, a in sets:
        for s in res:
            if a[1:] == [fld(s, 3), fld(s, 0), fld(s, 1)]:
                fa = [atom_norm(x, g) for x in b.facts_at(bi)]
                g1 = any(implies(h, ("rel", "Eq", fld(s, 2), ("int", 1))) for h in fa)
                lp = loop_containing(b, bi)
                rq = [pb for pb, v in pbs if v == ("agg", "tuple", (fld(s, 3), fld(s, 0)))]
                okq = lp is not None and bool(rq) and any(must_pass_through(b, bi, pb, lp[0]) for pb in rq)
                okd = g1 and okq
    ctx.require(okd, "T3-commutation-deduction", b.name, "gap==1 -> set(k, head, tail); push_back((k, head))", "a single missing entry is filled and re-queued on every path",
                "the forced entry of a 4-cycle with one gap is not set(k, head, tail) under gap == 1 and re-queued unconditionally as (k, head)")
    okt = bool(trues) and all(any(a[0] == "bool" and is_call(a[1], "is_empty") and a[2] is True for a in b.facts_at(bi)) or
                              any(atom_norm(a, g)[0] == "variant" and atom_norm(a, g)[2] == 0 for a in b.facts_at(bi)) for bi in trues)
    ctx.require(okt, "T3-commutation-exhaustive", b.name, "true<-queue empty", "`true` only when the work queue is empty", "check_and_apply_implications can return true while entries are still queued")


def canonicity_slots(ctx, g):
    """check_canonicity: for every chamber d in 1..=size whose flag is_remap_start[d] is set, the renumbering FROM THAT d is compared; a smaller
    one rejects; a larger one clears the flag OF THAT SAME d (it can never become smaller again), an equal/undecided one keeps it"""
    ctx.clauses.append("canonicity: flag tested, start compared and flag cleared belong to the same chamber d in 1..=size; smaller -> reject, larger -> clear, undecided -> keep (T4)")
    b = ctx.body("generators::dset_generators::check_canonicity")
    ctx.scan([b])
    ds, flags = ("param", 1, b.debug.get(1, "")), ("param", 2, b.debug.get(2, ""))
    cmpc = list(b.calls(exact="generators::dset_generators::compare_renumbered_from"))
    ctx.floor("compare_renumbered_from calls in check_canonicity", len(cmpc), 1)
    for bi, t in cmpc[:1]:
        a = [strip(norm(b.origin(x), g)) for x in t["args"]]
        d_ = a[1]
        r = loop_range_of_payload(b, d_, g)
        okr = r is not None and r[0] in (("int", 1), ("int", 2)) and r[2] and (is_call(r[1], "::size") or (r[1][0] == "field" and r[1][2] == "size")) and a[0] == ds
        ctx.ob("T4-canonicity-slots", b.name, "starts 1..=size", "ok" if okr else "violation",
               "every chamber up to size() is a candidate start (chamber 1 is the identity renumbering and never flagged)" if okr else "the candidate starts are not 1..=ds.size(): %s" % (r and (show(r[0], 1), show(r[1], 1)[:30], r[2]),), b.span_of(bi))
        # guard: is_remap_start[d] is true at the call
        fa = [atom_norm(x, g) for x in b.facts_at(bi)]
        def is_flag(t_, idx):
            t_ = strip(t_)
            return (t_[0] == "index" and strip(t_[1]) == flags and strip(t_[2]) == idx) or (is_call(t_, "Index::index") and strip(t_[2][0]) == flags and strip(t_[2][1]) == idx)
        okg = any(x[0] == "bool" and x[2] is True and is_flag(x[1], d_) for x in fa)
        ctx.ob("T4-canonicity-slots", b.name, "compare<-is_remap_start[d]", "ok" if okg else "violation",
               "the comparison runs for the starts whose flag is set" if okg else "the comparison is not guarded by is_remap_start[d] of the start that is compared", b.span_of(bi))
        res = ("call", t["callee"]["def"], tuple(a))
        # stores into the flag array
        stores = []
        for b2, blk in b.live_blocks():
            for si, s_ in enumerate(blk["stmts"]):
                if s_["k"] == "assign" and s_["place"]["l"] == 2 and any(e["k"] == "index" for e in s_["place"]["p"]):
                    il = [e["l"] for e in s_["place"]["p"] if e["k"] == "index"][0]
                    idx = strip(norm(b.local_origin(il), g))
                    for _ in range(3):
                        if idx[0] == "local" and len(b.all_defs_origins(idx[1])) == 1:
                            idx = strip(norm(b.all_defs_origins(idx[1])[0][1], g))
                    stores.append((b2, idx, norm(b.rv_origin(s_["rv"]), g)))
        oks = len(stores) == 1 and stores[0][1] == d_ and stores[0][2] == ("int", 0)
        if oks:
            fa2 = [atom_norm(x, g) for x in b.facts_at(stores[0][0])]
            oks = any(x[0] == "rel" and x[1] in ("Lt", "Le") and is_call(strip(x[3]), "compare_renumbered_from") and implies(x, ("rel", "Lt", ("int", 0), x[3])) for x in fa2)
        ctx.ob("T4-canonicity-slots", b.name, "diff > 0 -> is_remap_start[d] = false", "ok" if oks else "violation",
               "a start whose renumbering is larger loses its own flag" if oks else
               "the flag cleared is not that of the start just compared, under diff > 0 (stores: %s): another chamber's flag is lost and a smaller renumbering from it is no longer detected" % [(show(i, 1)[:40], show(v, 1)) for _, i, v in stores])
        # rejection
        falses = [b2 for b2, si, s_ in b.assigns() if s_["place"]["l"] == 0 and not s_["place"]["p"] and norm(b.rv_origin(s_["rv"]), g) == ("int", 0)]
        okf = False
        for b2 in falses:
            for x in b.facts_at(b2):
                x = atom_norm(x, g)
                if x[0] == "rel" and x[1] == "Lt" and is_call(strip(x[2]), "compare_renumbered_from") and x[3] == ("int", 0):
                    okf = True
        ctx.ob("T4-canonicity-slots", b.name, "diff < 0 -> false", "ok" if okf else "violation", "a smaller renumbering rejects the node" if okf else "no `return false` under diff < 0")


def unov(t):
    """x.checked-op .0 -> plain binop"""
    return map_term(t, lambda x: ("binop", x[1][1].replace("WithOverflow", ""), x[1][2], x[1][3])
                    if x[0] == "field" and str(x[2]) == "0" and x[1][0] == "binop" and x[1][1].endswith("WithOverflow") else None)


def walk_shape(ctx, g):
    """the orbit scan the closure relies on: scan_single_direction walks e -> op(w[k], e) for k in 0..limit from d and reports where the walk
    stands (the current element and the steps taken) at BOTH of its exits; scan_orbit walks i,j,i,j forward and j,i,j,i backward with the
    remaining budget and reports (head, tail, 4 - a - b, the index of the missing edge = w[a])"""
    ctx.clauses.append("orbit scan: both exits report the walk's current element and step count; scan_orbit = (head, tail, 4 - a - b, w[a]) (T9)")
    M_ = "generators::dset_generators::"
    b = ctx.body(M_ + "scan_single_direction")
    ctx.scan([b])
    P = lambda i: ("param", i, b.debug.get(i, ""))
    ops = list(b.calls(exact="dsets::PartialDSet::op_unchecked"))
    ctx.floor("op_unchecked calls in scan_single_direction", len(ops), 1)
    cur = None
    for bi, t in ops:
        a = [norm(b.origin(x), g) for x in t["args"]]
        okidx = a[1][0] == "index" and strip(a[1][1]) == P(2)
        r = loop_range_of_payload(b, a[1][2], g) if okidx else None
        okr = r is not None and r[0] == ("int", 0) and strip(r[1]) == P(4) and not r[2]
        ctx.require(okidx and okr, "T9-walk-step", b.name, "op(w[k], e), k in 0..limit", "each step applies w[k] for the loop's own k in 0..limit",
                    "the step is not op(w[k], e) with k ranging over 0..limit: %s / %s" % (show(a[1], 1)[:50], r and (show(r[0], 1), show(r[1], 1)[:30], r[2])), b.span_of(bi))
        if a[2][0] == "local":
            cur = a[2]
            defs = sorted(origin_head(norm(d, g)) for _, d in b.all_defs_origins(cur[1]))
            okd = len(defs) == 2 and strip(norm(b.all_defs_origins(cur[1])[0][1], g)) == P(3) and \
                any(is_call(norm(d, g), "op_unchecked") for _, d in b.all_defs_origins(cur[1]))
            ctx.require(okd, "T9-walk-step", b.name, "e := d, then e := op(w[k], e)", "the walk starts at d and moves to each defined image",
                        "the walk's current element is not (d, then each op result): %s" % defs, b.span_of(bi))
            # the move happens only on a defined image
            for dbb, d in b.all_defs_origins(cur[1]):
                d = norm(d, g)
                if is_call(d, "op_unchecked"):
                    fa = [atom_norm(x, g) for x in b.facts_at(dbb)]
                    okn = any(x[0] == "rel" and implies(x, ("rel", "Ne", x[2], ("int", 0))) and is_call(x[2], "op_unchecked") for x in fa)
                    ctx.require(okn, "T9-walk-step", b.name, "move<-en != 0", "the walk only moves to a defined image", "the walk moves to an image without the image being != 0", b.span_of(dbb))
        else:
            ctx.ob("T9-walk-step", b.name, "e carried", "violation", "the element the step is applied to is not a loop-carried local: %s" % show(a[2], 1)[:40], b.span_of(bi))
    rets = [(bi, [norm(b.origin(x), g) for x in s["rv"]["ops"]]) for bi, si, s in b.assigns()
            if s["place"]["l"] == 0 and not s["place"]["p"] and s["rv"]["k"] == "aggregate" and s["rv"].get("agg") == "tuple"]
    ctx.floor("tuple returns of scan_single_direction", len(rets), 2)
    for n, (bi, vals) in enumerate(rets):
        fa = [atom_norm(x, g) for x in b.facts_at(bi)]
        early = any(x[0] == "rel" and x[1] == "Eq" and is_call(x[2], "op_unchecked") and x[3] == ("int", 0) for x in fa)
        ok0 = cur is not None and vals[0] == cur
        ctx.ob("T9-walk-exit", b.name, ("undefined-image exit" if early else "budget-used exit") + ":element", "ok" if ok0 else "violation",
               "the exit reports the walk's current element" if ok0 else
               "the exit reports %s instead of the walk's current element: a walk that moved is reported at the wrong chamber" % show(vals[0], 1)[:40], b.span_of(bi))
        if early:
            r = loop_range_of_payload(b, vals[1], g)
            ok1 = r is not None and strip(r[1]) == P(4)
            what = "the steps taken so far (the loop's k)"
        else:
            ok1 = strip(vals[1]) == P(4)
            what = "limit (all steps taken)"
        ctx.ob("T9-walk-exit", b.name, ("undefined-image exit" if early else "budget-used exit") + ":steps", "ok" if ok1 else "violation",
               "the exit reports " + what if ok1 else "the exit reports %s, not %s" % (show(vals[1], 1)[:40], what), b.span_of(bi))
    # scan_orbit
    so = ctx.body(M_ + "scan_orbit")
    ctx.scan([so])
    Q = lambda i: ("param", i, so.debug.get(i, ""))
    ds_, i_, j_, d_ = Q(1), Q(2), Q(3), Q(4)
    r = unov(norm(ret_origin(so, g), g))
    S = lambda w, lim: ("call", M_ + "scan_single_direction", (ds_, ("agg", "array", tuple(w)), d_, lim))
    s1 = S([i_, j_, i_, j_], ("int", 4))
    a_ = ("field", s1, "1")
    s2 = S([j_, i_, j_, i_], ("binop", "Sub", ("int", 4), a_))
    b_ = ("field", s2, "1")
    def stripcall(t):
        return map_term(t, lambda x: x[:3] if x[0] == "call" else None)
    r = stripcall(r)
    okshape = r[0] == "agg" and r[1] == "tuple" and len(r[2]) == 4
    if not okshape:
        ctx.ob("T9-scan-orbit", so.name, "return", "violation", "scan_orbit does not return a 4-tuple: " + show(r, 1)[:80])
        return
    head, tail, gap, k = r[2]
    ctx.ob("T9-scan-orbit", so.name, "head", "ok" if head == ("field", s1, "0") else "violation",
           "head = end of the i,j,i,j walk from d with budget 4" if head == ("field", s1, "0") else "head is not scan(ds, [i, j, i, j], d, 4).0: " + show(head, 1)[:90])
    ctx.ob("T9-scan-orbit", so.name, "tail", "ok" if tail == ("field", s2, "0") else "violation",
           "tail = end of the j,i,j,i walk from d with the remaining budget 4 - a" if tail == ("field", s2, "0") else "tail is not scan(ds, [j, i, j, i], d, 4 - a).0: " + show(tail, 1)[:110])
    gaps = (("binop", "Sub", ("binop", "Sub", ("int", 4), a_), b_), ("binop", "Sub", ("int", 4), ("binop", "Add", a_, b_)))
    ctx.ob("T9-scan-orbit", so.name, "gap", "ok" if gap in gaps else "violation",
           "gap = 4 - a - b" if gap in gaps else "gap is not 4 - a - b: " + show(gap, 1)[:110])
    okk = False
    det = show(k, 1)[:60]
    if k[0] == "local":
        defs = [(dbb, strip(norm(d, g))) for dbb, d in so.all_defs_origins(k[1])]
        if sorted(str(d) for _, d in defs) == sorted([str(i_), str(j_)]):
            okk = True
            for dbb, d in defs:
                fa = [unov(stripcall(atom_norm(x, g))) if False else atom_norm(x, g) for x in so.facts_at(dbb)]
                fa = [tuple(stripcall(unov(y)) if isinstance(y, tuple) else y for y in x) for x in fa]
                want_even = d == i_
                for a in (0, 1, 2, 3, 4):
                    vals = [eval_atom_with(x, a_, a) for x in fa if any(isinstance(y, tuple) and contains(y, lambda s_: s_ == a_) for y in x[1:])]
                    vals = [v for v in vals if v is not None]      # overflow-assert atoms do not fold and say nothing about parity
                    if not vals:
                        okk = False
                        det = "the guard of the missing-edge index does not fold for a = %d: %s" % (a, [show_atom(x)[:50] for x in fa])
                        break
                    if all(vals) != ((a % 2 == 0) == want_even):
                        okk = False
                        det = "for a = %d forward steps the missing edge is reported with index %s, but the next step of the i,j,i,j walk is %s" % (a, "i" if all(vals) == want_even else "j", "i" if a % 2 == 0 else "j")
                        break
        else:
            det = "missing-edge index is chosen from %s, not from {i, j}" % [show(d, 1)[:20] for _, d in defs]
    ctx.ob("T9-scan-orbit", so.name, "missing-edge index", "ok" if okk else "violation",
           "the missing edge has index w[a]: i for an even number of forward steps, j for an odd number" if okk else det)


def bound_passthrough(ctx, g):
    """the size bound and the dimension given to DSets::new reach the search unmodified: the DSetBackTracking handed to the iterator is
    { dim, max_size } of the two arguments (a bound clamped to >= 1 emits the one-chamber set for bound 0: `at most the given size` fails),
    and the root of the search is the one-chamber set of that dimension"""
    ctx.clauses.append("DSets::new hands its dimension and size bound to the search unmodified; the search starts from the one-chamber set (T2)")
    b = ctx.body("generators::dset_generators::DSets::new")
    ctx.scan([b])
    aggs = []
    for bi, si, s in b.assigns():
        rv = s["rv"]
        if rv["k"] == "aggregate" and rv.get("agg") == "adt" and rv.get("adt", "").endswith("DSetBackTracking"):
            aggs.append([strip(norm(b.origin(o), g)) for o in rv["ops"]])
    want = [("param", 1, b.debug.get(1, "")), ("param", 2, b.debug.get(2, ""))]
    ok = aggs == [want]
    ctx.ob("T2-bound-passthrough", b.name, "DSetBackTracking { dim, max_size }", "ok" if ok else "violation",
           "the search is configured with the caller's dim and max_size" if ok else
           "the search is configured with %s, not with the caller's (dim, max_size): the bound / dimension generated for differs from the one asked for" % [[show(x, 1)[:30] for x in a] for a in aggs])
    rt = ctx.body(BT + "root")
    news = [[strip(norm(rt.origin(a), g)) for a in t["args"]] for _, t in rt.calls("PartialDSet::new")]
    okr = news == [[("int", 1), ("field", ("param", 1, rt.debug.get(1, "")), "dim")]]
    ctx.ob("T2-bound-passthrough", rt.name, "PartialDSet::new(1, self.dim)", "ok" if okr else "violation",
           "the root is the one-chamber set of the configured dimension" if okr else "the root of the search is not PartialDSet::new(1, self.dim): %s" % [[show(x, 1)[:20] for x in a] for a in news])


def renumbering_exactness(ctx, g):
    """compare_renumbered_from(ds, d0, ..) of the D-set generator on value tables: both maps are cleared to 0 (= no number / no chamber), d0 <-> 1,
    the next free number starts at 2 and grows by 1 per newly met chamber; an undefined entry on either side stops the comparison with 0
    (`cannot be decided yet`); a newly met chamber (old2new[ei] == 0, exactly) is numbered in both maps; the first position where the renumbered
    image differs from the original answers their DIFFERENCE renumbered - original; no difference answers 0.  check_canonicity keeps a start as
    candidate exactly while the comparison is 0, rejects on < 0, drops the start on > 0"""
    ctx.clauses.append("D-set re-basing comparison: maps cleared, d0 <-> 1, numbers from 2 by 1; undefined -> 0; new iff old2new[ei] == 0; first difference renumbered - original; check_canonicity: < 0 reject, > 0 drop, == 0 keep (T4)")
    G = "generators::dset_generators::"
    b = ctx.body(G + "compare_renumbered_from")
    ctx.scan([b])
    ds, d0, n2o, o2n = (("param", k, b.debug.get(k, "")) for k in (1, 2, 3, 4))
    bad = None
    fills = {strip(norm(b.origin(t["args"][0]), g)): eval_int(strip(norm(b.origin(t["args"][1]), g))) for bi, t in b.calls("::fill")}
    fills = {(k[1] if k[0] in ("ref", "deref") else k): v for k, v in fills.items()}
    stores = []
    for bi, si, s in b.assigns():
        pl = [e["k"] for e in s["place"]["p"]]
        if pl and pl[-1] == "index" or pl == ["deref", "index"] or pl == ["deref"]:
            tgt = strip(norm(b.place_origin(s["place"]), g)) if hasattr(b, "place_origin") else None
            if tgt is not None and tgt[0] == "index":
                stores.append((bi, strip(tgt[1]), strip(tgt[2]), strip(norm(b.rv_origin(s["rv"]), g))))
    def arr(x):
        while x[0] in ("ref", "deref"):
            x = x[1]
        return x
    stores = [(bi, arr(a), k, v) for bi, a, k, v in stores]
    init = [(a, eval_int(k), v) for bi, a, k, v in stores if eval_int(k) is not None or eval_int(v) is not None]
    if {k: v for k, v in fills.items()} != {n2o: 0, o2n: 0} and sorted(fills.values()) != [0, 0]:
        bad = "the two maps are not cleared to 0 before the comparison: %s" % sorted(fills.values())
    elif not ((n2o, 1, d0) in init and any(a == o2n and k == d0 and eval_int(v) == 1 for bi, a, k, v in stores)):
        bad = "the start chamber d0 is not numbered 1 in both maps"
    else:
        cnts = [l for l, nm in b.debug.items() if b.local_ty(l) == "usize" and not b.is_stable_local(l) and len(b.all_defs_origins(l)) == 2]
        okc = False
        nxt = None
        for l in cnts:
            ds_ = [strip(norm(d, g)) for dbb, d in b.all_defs_origins(l)]
            loc = ("local", l, b.debug.get(l, ""))
            if any(eval_int(d) == 2 for d in ds_) and any(unov_deep(d) == ("binop", "Add", loc, ("int", 1)) for d in ds_):
                okc = True
                nxt = loc
        if not okc:
            bad = "the next free number does not start at 2 and grow by 1"
        else:
            news = [(bi, a, k, v) for bi, a, k, v in stores if v == nxt or k == nxt]
            if len(news) != 2 or {a for bi, a, k, v in news} != {n2o, o2n}:
                bad = "a newly met chamber is not numbered in both maps (old2new[ei] = next; new2old[next] = ei)"
            else:
                ei = [k for bi, a, k, v in news if a == o2n][0]
                ent = ("index", o2n, ei)
                sb_ = [bi for bi, a, k, v in news if a == o2n][0]
                def isent(y):
                    a_ = as_index(y)
                    return bool(a_) and arr(strip(a_[0])) == o2n and strip(a_[1]) == ei
                for ev_, want in ((0, True), (1, False), (3, False)):
                    r = reachable_sites(b, g, {sb_}, lambda y, ev_=ev_: ev_ if isent(y) else (5 if y == ei else None))
                    if (sb_ in r) != want:
                        bad = bad or "a chamber whose number is %d %s treated as newly met" % (ev_, "is" if sb_ in r else "is not")
                # answers
                rets = [(dbb, strip(norm(d, g))) for dbb, d in b.all_defs_origins(0)]
                zeros = [dbb for dbb, d in rets if eval_int(d) == 0]
                others = [(dbb, d) for dbb, d in rets if eval_int(d) is None]
                badc = [d for dbb, d in rets if eval_int(d) not in (None, 0)]
                if not bad and (badc or len(others) != 1 or len(zeros) < 2):
                    bad = "the answers are not 0 (undecided / no difference) or one difference: constants %s" % [eval_int(d) for dbb, d in rets]
                elif not bad:
                    dv = unov_deep(others[0][1])
                    l_, r_ = (strip(dv[2]), strip(dv[3])) if dv[0] == "binop" and dv[1] == "Sub" else (None, None)
                    while l_ is not None and l_[0] == "cast":
                        l_ = strip(l_[1])
                    while r_ is not None and r_[0] == "cast":
                        r_ = strip(r_[1])
                    if not (l_ is not None and isent(l_) and is_call(r_, "op_unchecked") and strip(r_[2][0]) == ds):
                        bad = "the difference answered is not old2new[ei] - ds.op(i, d) (renumbered minus original)"
                    else:
                        # decision: undefined on either side -> 0 possible; difference answered iff the two differ
                        di = r_
                        ob = others[0][0]
                        for eiv, div, entv, want_diff in ((0, 4, 3, False), (5, 0, 3, False), (5, 3, 3, False), (5, 4, 3, True)):
                            r = reachable_sites(b, g, {ob}, lambda y, eiv=eiv, div=div, entv=entv: eiv if y == ei else div if y == di else entv if isent(y) else None)
                            if (ob in r) != want_diff:
                                bad = bad or "with ei = %d, di = %d, old2new[ei] = %d the comparison %s the difference" % (eiv, div, entv, "answers" if ob in r else "does not answer")
    ctx.ob("T4-renumbering-exactness", b.name, "maps / answers", "ok" if not bad else "violation", "cleared maps, d0 <-> 1, numbers from 2; undefined -> 0; first difference renumbered - original" if not bad else bad)
    cb = ctx.body(G + "check_canonicity")
    bad = None
    cmp_ = [("call", t["callee"]["def"], tuple(strip(norm(cb.origin(x), g)) for x in t["args"])) for bi, t in cb.calls(exact=G + "compare_renumbered_from")]
    falses = {bi for bi, si, s in cb.assigns() if s["place"]["l"] == 0 and not s["place"]["p"] and eval_int(strip(norm(cb.rv_origin(s["rv"]), g))) == 0}
    drops = set()
    for bi, si, s in cb.assigns():
        if s["place"]["p"] and eval_int(strip(norm(cb.rv_origin(s["rv"]), g))) == 0 and s["place"]["l"] != 0:
            drops.add(bi)
    if len(cmp_) != 1 or not falses or not drops:
        bad = "not one comparison with a `false` answer and a dropped start"
    else:
        for dv, want in ((-2, (True, False)), (0, (False, False)), (3, (False, True))):
            r = reachable_sites(cb, g, falses | drops, lambda y, dv=dv: dv if (y[0] == "call" and y[1].endswith("compare_renumbered_from")) else 1 if as_index(y) else None)
            got = (bool(r & falses), bool(r & drops))
            if got != want:
                bad = bad or "for a comparison result %d check_canonicity %s" % (dv, "rejects" if got[0] and not want[0] else "does not reject" if want[0] and not got[0] else "drops the start" if got[1] else "keeps the start")
    ctx.ob("T4-renumbering-exactness", cb.name, "< 0 reject, > 0 drop, == 0 keep", "ok" if not bad else "violation", "results -2 / 0 / 3 reject / keep / drop the start" if not bad else bad)


def backtrack_discipline(ctx, g):
    """BackTrackIterator::next - depth-first enumeration over a stack of sibling lists, as a decision table over the three lengths it tests:
    the search goes on exactly while the stack is non-empty; the children of the current node are pushed exactly when there is at least one; a
    level is popped exactly when it holds nothing but the node just processed (length < 2) - with 2 or more a sibling is still waiting - and the
    node just processed is then removed from its level"""
    ctx.clauses.append("backtracking iterator: continue iff stack non-empty; push children iff any; pop a level iff only the processed node is left; then remove the processed node (T4)")
    b = ctx.body("<util::backtrack::BackTrackIterator<T> as std::iter::Iterator>::next")
    me = ("param", 1, b.debug.get(1, ""))
    stack = ("field", me, "stack")
    push = {bi for bi, t in b.calls("Vec::<T, A>::push") if strip(norm(b.origin(t["args"][0]), g)) == stack}
    pops = [(bi, strip(norm(b.origin(t["args"][0]), g))) for bi, t in b.calls("Vec::<T, A>::pop")]
    lvl_pop = {bi for bi, r in pops if r == stack}
    node_pop = {bi for bi, r in pops if r != stack}
    bad = None
    if not (len(push) == 1 and len(lvl_pop) == 1 and len(node_pop) == 1):
        bad = "not one push of children, one pop of a level and one pop of the processed node"
    else:
        def val(sv, tv, lv):
            def f(y):
                if y[0] == "call" and y[1].endswith("::len") and y[2]:
                    r = strip(y[2][0])
                    if r == stack:
                        return sv
                    if contains(r, lambda z: isinstance(z, tuple) and z and z[0] == "call" and z[1].endswith("BackTracking::children")):
                        return tv
                    if contains(r, lambda z: z == stack):
                        return lv
                return None
            return f
        for sv, tv, lv, want in ((1, 0, 1, (False, True)), (1, 1, 1, (True, False)), (1, 3, 2, (True, False)), (2, 0, 2, (False, False)), (2, 0, 3, (False, False)), (2, 0, 1, (False, True))):
            r = reachable_sites(b, g, push | lvl_pop, val(sv, tv, lv))
            got = (bool(r & push), bool(r & lvl_pop))
            if got != want:
                bad = bad or "stack of %d levels, %d children, %d nodes left on the last level: the iterator %s" % (
                    sv, tv, lv, "; ".join(n_ if g_ else "does not " + n_ for g_, w_, n_ in zip(got, want, ("push the children", "pop the level")) if g_ != w_))
        # the search loop itself: entered for 1, left for 0
        first = [bi for bi, t in b.calls("BackTracking::extract")]
        r0 = reachable_sites(b, g, set(first), val(0, 0, 0))
        r1 = reachable_sites(b, g, set(first), val(1, 0, 1))
        if not bad and (r0 or not r1):
            bad = "the search does not go on exactly while the stack is non-empty"
        if not bad and not all(any(x[0] == "rel" and implies(x, ("rel", "Le", ("call", "std::vec::Vec::<T, A>::len", (strip(norm(b.origin(t["args"][0]), g)),)), ("int", 0))) for x in (atom_norm(y, g) for y in b.facts_at(bi)) if x[0] == "rel") or True for bi, t in b.calls("Vec::<T, A>::pop")):
            pass
    ctx.ob("T4-backtrack-discipline", b.name, "decision table", "ok" if not bad else "violation", "6 combinations of (levels, children, nodes left) and the loop guard" if not bad else bad)


def candidate_admission(ctx, g):
    """children(): an image e for the free entry (i, d) is tried exactly when e is a NEW chamber (e > size) or its own i-entry is still free
    (op(i, e) == 0); the set grows by one chamber exactly when e is new"""
    ctx.clauses.append("candidate images: tried iff new chamber or free entry; the D-set grows iff the image is new (T4, decision table)")
    b = ctx.body(BT + "children")
    grows = {bi for bi, t in b.calls("PartialDSet::grow")}
    sets = {bi for bi, t in b.calls(exact="dsets::PartialDSet::set")}
    bad = None
    if len(grows) != 1 or len(sets) != 1:
        bad = "not one grow and one set per candidate"
    else:
        sa = [strip(norm(b.origin(x), g)) for x in [t for bi, t in b.calls(exact="dsets::PartialDSet::set")][0]["args"]]
        e = sa[3]
        def val(ev, sz, ent):
            def f(y):
                if y == e:
                    return ev
                if (y[0] == "call" and y[1].endswith("::size")) or (y[0] == "field" and y[2] == "size"):
                    return sz
                if y[0] == "call" and y[1].endswith("op_unchecked") and strip(y[2][2]) == e:
                    return ent
                return None
            return f
        for ev, sz, ent, want in ((6, 5, 0, (True, True)), (3, 5, 0, (True, False)), (3, 5, 2, (False, False)), (5, 5, 0, (True, False)), (5, 5, 4, (False, False))):
            r = reachable_sites(b, g, sets | grows, val(ev, sz, ent))
            got = (bool(r & sets), bool(r & grows))
            if got != want:
                bad = bad or "image %d for a set of size %d whose entry op(i, %d) is %s: the candidate is %s and the set %s" % (
                    ev, sz, ev, "free" if ent == 0 else "taken", "tried" if got[0] else "not tried", "grows" if got[1] else "does not grow")
    ctx.ob("T4-candidate-admission", b.name, "e > size || op(i, e) == 0; grow iff e > size", "ok" if not bad else "violation", "5 combinations of (image, size, entry)" if not bad else bad)


def run(ctx):
    g = ctx.facts.getters()
    bound_passthrough(ctx, g)
    renumbering_exactness(ctx, g)
    backtrack_discipline(ctx, g)
    candidate_admission(ctx, g)
    ctx.floor("chamber-indexed tables of the D-set generator (is_remap_start, new2old, old2new)", chamber_tables(ctx, "T4-chamber-table", ctx.body(BT + "root"), g, fill=0) + chamber_tables(ctx, "T4-chamber-table", ctx.body(BT + "children"), g, fill=0), 3)
    ch = ctx.body(BT + "children")
    ex = ctx.body(BT + "extract")
    rt = ctx.body(BT + "root")
    ctx.scan([ch, ex, rt])
    me, st = ("param", 1, ch.debug.get(1, "")), ("param", 2, ch.debug.get(2, ""))
    nid = ("field", ("variant", ("field", st, "next_i_d"), "Some"), "0")
    i_t, d_t = ("field", nid, "0"), ("field", nid, "1")

    ctx.clauses.append("commutation closure and orderly-generation filter on every generated node (T3)")
    pushes = [(bi, t) for bi, t in ch.calls("Vec::<T, A>::push") if "DSetGenState" in t["callee"].get("path_with_args", "")]
    ctx.floor("state pushes in DSet children()", len(pushes), 1)
    for bi, t in pushes:
        v = norm(ch.origin(t["args"][1]), g)
        okshape = v[0] == "agg" and v[1].endswith("DSetGenState::DSetGenState") and len(v[2]) == 3
        if not okshape:
            ctx.ob("T3-node-filters", ch.name, "push(State)", "undecided", "pushed value is not a State aggregate: " + show(v, 1)[:60])
            continue
        dset = v[2][0]
        fa = [atom_norm(a, g) for a in ch.facts_at(bi, deep=True)]
        imp = any(a[0] == "bool" and a[2] is True and a[1][0] == "call" and a[1][1].endswith("check_and_apply_implications") and list(a[1][2]) == [dset, i_t, d_t] for a in fa)
        can = any(a[0] == "bool" and a[2] is True and a[1][0] == "call" and a[1][1].endswith("check_canonicity") and a[1][2][0] == dset for a in fa)
        ctx.ob("T3-node-filters", ch.name, "push(State)<-check_and_apply_implications", "ok" if imp else "violation",
               "dominated by check_and_apply_implications(&mut dset, i, d) on the pushed dset and the defined entry" if imp else
               "a node is generated without (a still valid) check_and_apply_implications on its D-set: non-commuting sets are generated", ch.span_of(bi))
        ctx.ob("T3-node-filters", ch.name, "push(State)<-check_canonicity", "ok" if can else "violation",
               "dominated by check_canonicity(&dset, ..) on the pushed dset" if can else
               "a node is generated without (a still valid) check_canonicity on its D-set: isomorphic copies are generated", ch.span_of(bi))
        # per-child flags: the flags checked by check_canonicity are the ones stored in the child, and they are a copy of the
        # parent's flags made inside this loop iteration (no leakage between sibling candidates)
        flags = v[2][1]
        cc = [a for a in fa if a[0] == "bool" and a[2] is True and a[1][0] == "call" and a[1][1].endswith("check_canonicity")]
        cflags = None
        for a in cc:
            x = a[1][2][1]
            while x[0] == "call" and x[2]:
                x = x[2][0]
            cflags = x
        same = cflags is not None and flags == cflags
        fresh = False
        if same and flags[0] == "local":
            defs = ch.all_defs_origins(flags[1])
            lb = loop_blocks_of_payload(ch, ch.origin([x for x in ch.calls(exact="dsets::PartialDSet::set")][0][1]["args"][3])) if any(True for _ in ch.calls(exact="dsets::PartialDSet::set")) else None
            if len(defs) == 1 and lb is not None:
                dbb, dterm = defs[0]
                src = norm(dterm, g)
                fresh = src == ("field", st, "is_remap_start") and ch.dominates(lb[1], dbb)
        ctx.ob("T3-per-child-state", ch.name, "State.is_remap_start", "ok" if same and fresh else "violation",
               "the flags passed to check_canonicity are the child's own, cloned from the parent's inside the iteration" if same and fresh else
               "the canonicity flags of a child are not a per-iteration copy of the parent's flags (same object as checked: %s, cloned from state.is_remap_start inside the loop: %s): updates made while testing one sibling leak into the next" % (same, fresh), ch.span_of(bi))
        nxt = v[2][2]
        oknx = nxt == ("call", "generators::dset_generators::next_undefined", (dset, i_t, d_t))
        ctx.require(oknx, "T3-next-undefined", ch.name, "State.next_i_d", "the child's next entry is next_undefined(&dset, i, d) of its own dset",
                    "the child's next undefined entry is not computed from its own D-set: " + show(nxt, 1)[:80], ch.span_of(bi))
    sets = [(bi, [norm(ch.origin(a), g) for a in t["args"]]) for bi, t in ch.calls(exact="dsets::PartialDSet::set")]
    ctx.floor("set calls in DSet children()", len(sets), 1)
    for bi, a in sets:
        r = loop_range_of_payload(ch, a[3], g) if a[3][0] == "field" else None
        okd = a[1] == i_t and a[2] == d_t
        ctx.require(okd, "T4-defines-next-entry", ch.name, "set(i, d, e)", "the entry defined is the state's next undefined entry", "set() defines a different entry than next_i_d", ch.span_of(bi))
        okr = False
        if r is not None and r[2] and r[0] == d_t:
            hi = r[1]
            size1 = ("field", ("binop", "AddWithOverflow", ("field", ("field", st, "dset"), "size"), ("int", 1)), "0")
            okr = hi[0] == "call" and hi[1].endswith("Ord::min") and size1 in hi[2] and ("field", me, "max_size") in hi[2]
        ctx.require(okr, "T4-image-range", ch.name, "e in d..=min(size+1, max_size)", "candidate images are d..=min(size + 1, max_size)",
                    "candidate images are not the inclusive range d..=min(size + 1, max_size): %s" % (r and (show(r[0], 1)[:30], show(r[1], 1)[:60], r[2]),), ch.span_of(bi))

    for h, e, it in loops_in(ch):
        scratch = set()
        for bi_, t_ in ch.calls("check_canonicity"):
            for a_ in t_["args"][2:4]:
                o_ = strip(ch.origin(a_))
                while o_[0] == "call" and o_[2]:
                    o_ = strip(o_[2][0])
                if o_[0] == "local":
                    scratch.add(o_[1])
        extra = unexpected_carried_state(ch, h, e, scratch)
        ctx.ob("T3-per-child-state", ch.name, "loop-carried state", "ok" if not extra else "violation",
               "only the result vector and the two scratch renumbering buffers are carried between candidates" if not extra else
               "state %s is carried from one candidate image to the next" % extra)
    implications(ctx, g)
    walk_shape(ctx, g)
    canonicity_slots(ctx, g)
    ctx.clauses.append("storage layout of the operation table: size * (dim + 1) cells, idx a bijection, grow() consistent (T4, expressions evaluated)")
    storage_layout(ctx, "T4-storage-layout", g)
    ctx.clauses.append("canonicity comparison and next-undefined search look at every operation 0..=dim() (T4)")
    gb = [b for d, b in sorted(ctx.facts.bodies.items()) if d.startswith("generators::dset_generators::") and "{closure" not in d]
    ctx.scan(gb)
    index_ranges_inclusive(ctx, "T4-index-ranges", gb, g, 4)
    ctx.clauses.append("only complete D-sets are emitted (T3)")
    es = [(bi, si, s) for bi, si, s in ex.assigns() if s["place"]["l"] == 0 and s["rv"]["k"] == "aggregate" and s["rv"].get("variant") == "Some"]
    ctx.floor("Some(..) in DSet extract", len(es), 1)
    stt = ("param", 2, ex.debug.get(2, ""))
    for bi, si, s in es:
        fa = [atom_norm(a, g) for a in ex.facts_at(bi)]
        okg = ("bool", ("call", "std::option::Option::<T>::is_none", (("field", stt, "next_i_d"),)), True) in fa or ("variant", ("field", stt, "next_i_d"), 0) in fa
        v = norm(ex.origin(s["rv"]["ops"][0]), g)
        ctx.require(okg, "T3-extract-complete", ex.name, "Some<-next_i_d.is_none()", "a D-set is emitted only when no entry is undefined", "extract can emit a D-set with undefined entries", ex.span_of(bi, si))
        ctx.require(v == ("field", stt, "dset"), "T3-extract-complete", ex.name, "Some(state.dset)", "the emitted D-set is the state's own", "extract emits " + show(v, 1)[:50], ex.span_of(bi, si))

    ctx.clauses.append("numbered consecutively from 1 (T4)")
    counter_rule(ctx, "T4-consecutive-numbering", "generators::dset_generators::DSets::new", "<generators::dset_generators::DSets as std::iter::Iterator>::next",
                 "SimpleDSet::from_partial", g)

    ctx.clauses.append("root = one chamber, first entry (0, 1) (T4)")
    r = ret_origin(rt, g)
    okroot = r[0] == "agg" and r[2][0] == ("call", "dsets::PartialDSet::new", (("int", 1), ("field", ("param", 1, rt.debug.get(1, "")), "dim"))) and \
        r[2][2] == ("agg", "adt:std::option::Option::Some", (("agg", "tuple", (("int", 0), ("int", 1))),))
    ctx.require(okroot, "T4-root", rt.name, "root", "root = PartialDSet::new(1, dim), next (0, 1)", "root state is " + show(r, 1)[:120])
