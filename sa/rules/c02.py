"""C02 - basic D-set queries are total for every index pair and chamber (DESIGN 4/C02)."""
from ..core import *
from ..templates import *
from ..t5 import T5

REPS = ["dsets::PartialDSet", "dsets::SimpleDSet", "dsyms::PartialDSym", "dsyms::SimpleDSym"]

EXPLANATION = (
    "Decided: totality of the basic queries. For op, r, m (DSet) and v (DSym) in each of the four representations, and the trait defaults "
    "DSet::{r,m,walk} they inherit, every potentially panicking operation reachable (through helpers such as idx/op_unchecked, derived from "
    "the helpers' own MIR, not hard-coded) whose operand originates directly from an integer parameter - overflow asserts of `i - 1`, `i + 1`, "
    "`(d-1)*(dim+1)`, Vec indexing by a parameter - is dominated by a still-valid range guard on that parameter (lower bound for "
    "subtraction, some upper bound for addition/multiplication/indexing). Hence no index pair, including |i-j|>1 and i=0, and no chamber number "
    "can make a query panic through its arguments; out-of-range arguments reach the `None` arm. Sites whose operands come from struct fields "
    "(orbit tables) are listed as invariant-justified (axiom A6), not proved. NOT decided: involution, r = orbit length, m = r*v, symmetry, "
    "agreement between representations, orbit/traversal/orientation semantics (value-level).")
TRUSTED = ["rustc MIR lowering of the dev profile (overflow and bounds asserts present)", "A4 dim(), size() < usize::MAX",
           "A6 struct invariants of the orbit tables (sizes established by collect_orbits and the constructors)",
           "weak criterion: an upper bound on the right value dominates; tightness of the bound is not proved"]
ASSUMPTIONS = ["public unchecked constructors (PartialDSym::from_fields, SimpleDSet::from_partial_unchecked) are outside the claim"]


def scope(ctx):
    q = []
    for r in REPS:
        for m in ("op", "r", "m"):
            q.append("<%s as dsets::DSet>::%s" % (r, m))
        q.append("<%s as dsyms::DSym>::v" % r)
    q += ["dsets::DSet::r", "dsets::DSet::m", "dsets::DSet::walk"]
    present = [x for x in q if x in ctx.facts.bodies]
    # the four `op` impls and the two DSym impls must exist (anchors); r/m overrides are optional (defaults apply)
    for r in REPS:
        ctx.body("<%s as dsets::DSet>::op" % r)
    for r in REPS[2:]:
        ctx.body("<%s as dsyms::DSym>::v" % r)
    for d in ("dsets::DSet::r", "dsets::DSet::m", "dsets::DSet::walk"):
        ctx.body(d)
    return present


def run(ctx):
    ctx.clauses += ["out-of-range arguments give None and no query panics for any index pair / chamber (T5)"]
    q = scope(ctx)
    eng = T5(ctx.facts)
    n = 0
    for e in q:
        body = ctx.facts.bodies[e]
        ctx.scan(ctx.facts.bodies[d] for d in ctx.facts.reachable(e) if d in ctx.facts.bodies)
        ints = {i for i in range(1, body.argc + 1) if body.local_ty(i) in INT_TYS}
        n += eng.evaluate_entry(ctx, "T5-range-guard", e, lambda t, ints=ints: t[0] == "param" and t[1] in ints)
    ctx.floor("parameter-origin panic sites in the query scope", n, 20)
    ctx.notes.append("T5 engine stats: %s" % eng.stats)


def sweep(ctx):
    """informational (thorough tier): the same range-guard template over every public function of the crate that takes an
    integer argument - i.e. which public functions have argument preconditions (may panic for some integer arguments).
    Never alarming: most of these are documented `_unchecked` / builder functions with asserts."""
    from .. import report
    eng = T5(ctx.facts)
    per_fn = {}
    for d, b in sorted(ctx.facts.bodies.items()):
        if b.f["def_kind"] == "Closure" or "Public" not in b.f.get("vis", "") or "property_based_tests" in d:
            continue
        ints = {i for i in range(1, b.argc + 1) if b.local_ty(i) in INT_TYS}
        if not ints:
            continue
        sub = report.Ctx("SWEEP", ctx.facts)
        try:
            eng.evaluate_entry(sub, "sweep", d, lambda t, ints=ints: t[0] == "param" and t[1] in ints, report_invariant=False, deep=False)
        except Exception:
            continue
        v = [o["site"][:80] for o in sub.obs if o["status"] == "violation"]
        if v:
            per_fn[d] = v
    ctx.sweep.append({"template": "T5 range-guard over all public functions with integer parameters", "functions_with_argument_preconditions": len(per_fn),
                      "sites": sum(len(v) for v in per_fn.values()), "per_function": {k: v[:3] for k, v in sorted(per_fn.items())}})
