"""C02 - basic D-set queries are total for every index pair and chamber (DESIGN 4/C02)."""
import itertools
from ..core import *
from ..templates import *
from ..t5 import T5

REPS = ["dsets::PartialDSet", "dsets::SimpleDSet", "dsyms::PartialDSym", "dsyms::SimpleDSym"]

EXPLANATION = (
    "Decided: totality of the basic queries. For op, r, m (DSet) and v (DSym) in each of the four representations, and the trait defaults "
    "DSet::{r,m,walk} they inherit, every potentially panicking operation reachable (through helpers such as idx/op_unchecked, derived from "
    "the helpers' own MIR, not hard-coded) whose operand originates directly from an integer parameter - overflow asserts of `i - 1`, `i + 1`, "
    "`(d-1)*(dim+1)`, Vec indexing by a parameter - is dominated by a still-valid range guard on that parameter (lower bound for "
    "subtraction, some upper bound for addition/multiplication/indexing). Hence no index pair, including |i-j|>1 and i=0, and no chamber number "
    "can make a query panic through its arguments. Out-of-range arguments give None (T4-none-outside-ranges): the branch conditions on every path to a "
    "`Some(..)` return of op / r / v / m are evaluated for all argument tuples with an index in 0..=4 and a chamber in {0, 1, 5, 6} on a D-set of dimension 3 and size 5; "
    "for an out-of-range tuple no such path is possible (conditions that are table lookups count as possibly true; `?` on a sibling accessor with out-of-range arguments is not taken). Sites whose operands come from struct fields "
    "(orbit tables) are listed as invariant-justified (axiom A6), not proved. NOT decided: involution, r = orbit length, m = r*v, symmetry, "
    "agreement between representations, orbit/traversal/orientation semantics (value-level) - except their range completeness: the derived queries "
    "(elements, indices, full_traversal, partial_orientation, is_connected, is_complete, is_loopless, is_weakly_oriented, is_oriented, orbit_reps, orbit_reps_2d) "
    "are checked to range over all indices 0..=dim(), all chambers 1..=size() and every component (T4), a necessary condition for coinciding "
    "with the graph-theoretic definitions on disconnected inputs.")
TRUSTED = ["rustc MIR lowering of the dev profile (overflow and bounds asserts present)", "A4 dim(), size() < usize::MAX",
           "A6 struct invariants of the orbit tables (sizes established by collect_orbits and the constructors)",
           "weak criterion: an upper bound on the right value dominates; tightness of the bound is not proved"]
ASSUMPTIONS = ["public unchecked constructors (PartialDSym::from_fields, SimpleDSet::from_partial_unchecked) are outside the claim"]


def scope(ctx):
    q = []
    for r in REPS:
        for m in ("op", "r", "m"):
            q.append("<%s as dsets::DSet>::%s" % (r, m))
        q.append("<%s as dsyms::DSym>::v" % r)
    q += ["dsets::DSet::r", "dsets::DSet::m", "dsets::DSet::walk"]
    present = [x for x in q if x in ctx.facts.bodies]
    # the four `op` impls and the two DSym impls must exist (anchors); r/m overrides are optional (defaults apply)
    for r in REPS:
        ctx.body("<%s as dsets::DSet>::op" % r)
    for r in REPS[2:]:
        ctx.body("<%s as dsyms::DSym>::v" % r)
    for d in ("dsets::DSet::r", "dsets::DSet::m", "dsets::DSet::walk"):
        ctx.body(d)
    return present


def run(ctx):
    ctx.clauses += ["out-of-range arguments give None and no query panics for any index pair / chamber (T5)"]
    q = scope(ctx)
    eng = T5(ctx.facts)
    n = 0
    for e in q:
        body = ctx.facts.bodies[e]
        ctx.scan(ctx.facts.bodies[d] for d in ctx.facts.reachable(e) if d in ctx.facts.bodies)
        ints = {i for i in range(1, body.argc + 1) if body.local_ty(i) in INT_TYS}
        n += eng.evaluate_entry(ctx, "T5-range-guard", e, lambda t, ints=ints: t[0] == "param" and t[1] in ints)
    ctx.floor("parameter-origin panic sites in the query scope", n, 20)
    query_ranges(ctx)
    default_m_table(ctx, ctx.facts.getters())
    none_outside_ranges(ctx, ctx.facts.getters())
    collect_orbits_shape(ctx, ctx.facts.getters())
    builders(ctx, ctx.facts.getters())
    predicates(ctx, ctx.facts.getters())
    collect_orbits_walk(ctx, ctx.facts.getters())
    ctx.clauses.append("storage layout of the operation table: size * (dim + 1) cells, idx a bijection, grow() consistent (T4, expressions evaluated)")
    storage_layout(ctx, "T4-storage-layout", ctx.facts.getters())
    table_slots(ctx)
    ctx.clauses.append("PartialDSym and SimpleDSym (PartialDSet and SimpleDSet) answer the queries with sibling implementations of the same structure (T4 cross-check)")
    for m_, tr in (("r", "dsets::DSet"), ("m", "dsets::DSet"), ("v", "dsyms::DSym"), ("op", "dsets::DSet")):
        siblings_agree(ctx, "T4-siblings-agree", "<dsyms::PartialDSym as %s>::%s" % (tr, m_), "<dsyms::SimpleDSym as %s>::%s" % (tr, m_), "PartialDSym ~ SimpleDSym", compare_fields=True)
    siblings_agree(ctx, "T4-siblings-agree", "<dsets::PartialDSet as dsets::DSet>::op", "<dsets::SimpleDSet as dsets::DSet>::op", "PartialDSet ~ SimpleDSet", ignore=("unreachable_unchecked",))
    ctx.notes.append("T5 engine stats: %s" % eng.stats)


def default_m_table(ctx, g):
    """the trait-default m(i, j, d) of a plain D-set (no degrees stored) is a function of |i - j| only: 1 on the diagonal, 0 (= undetermined)
    for adjacent indices IN EITHER ORDER, 2 otherwise, None outside the ranges; decided by evaluating the path conditions of the returns
    for all 0 <= i, j <= 4 (dim 3) and d in 0..=6 (size 5)"""
    ctx.clauses.append("default m(i, j, d): symmetric decision table 1 / 0 / 2 by |i - j|, None exactly outside 0..=dim x 1..=size (T4, path conditions evaluated on all small arguments)")
    b = ctx.body("dsets::DSet::m")
    ctx.scan([b])
    me, i_, j_, d_ = (("param", k, b.debug.get(k, "")) for k in (1, 2, 3, 4))
    dim_t, size_t = ("call", "dsets::DSet::dim", (me,)), ("call", "dsets::DSet::size", (me,))
    rets = {}
    for bi, si, s in b.assigns():
        if s["place"]["l"] == 0 and not s["place"]["p"]:
            v = norm(b.rv_origin(s["rv"]), g)
            if v[0] == "agg" and v[1].endswith("Option::None"):
                rets[bi] = None
            elif v[0] == "agg" and v[1].endswith("Option::Some"):
                rets[bi] = eval_int(v[2][0])
    paths = paths_to(b, 0, set(rets), g=g)
    bad = None
    n = 0
    for i in range(5):
        for j in range(5):
            for d in (0, 1, 5, 6):
                hits = set()
                for tgt, atoms in paths:
                    vals = [eval_atom_env(a, {i_: i, j_: j, d_: d, dim_t: 3, size_t: 5}) for a in atoms if not is_ovf_atom(a)]
                    if any(v is None for v in vals):
                        bad = bad or "a branch condition of m() cannot be evaluated: %s" % [show_atom(a)[:40] for a in atoms if not is_ovf_atom(a) and eval_atom_env(a, {i_: i, j_: j, d_: d, dim_t: 3, size_t: 5}) is None][:1]
                        continue
                    if all(vals):
                        hits.add(tgt)
                if len(hits) != 1:
                    bad = bad or "for (i, j, d) = (%d, %d, %d) %d returns are possible" % (i, j, d, len(hits))
                    continue
                got = rets[hits.pop()]
                want = None if (i > 3 or j > 3 or d < 1 or d > 5) else (1 if i == j else 0 if abs(i - j) == 1 else 2)
                n += 1
                if got != want:
                    bad = bad or "m(%d, %d, %d) on a D-set of dimension 3 and size 5 is %s, expected %s%s" % (
                        i, j, d, "None" if got is None else "Some(%s)" % got, "None" if want is None else "Some(%d)" % want,
                        " (m is symmetric in its two indices)" if want == 0 else "")
    ctx.ob("T4-default-m-table", b.name, "decision table", "ok" if not bad and n else "violation",
           "1 on the diagonal, 0 for adjacent indices in either order, 2 otherwise, None outside the ranges (%d argument triples)" % n if not bad and n else (bad or "nothing evaluated"))


def delegated(atom, env, me, DIM=3, SIZE=5):
    """`self.r(i, j, d)?` / `if let Some(..) = self.op(i, d)`: the success arm of a sibling accessor called on self with integer arguments that are
    out of range for it is not taken (that accessor is itself in the scope of this rule); None when the atom is not of that form"""
    if atom[0] != "variant":
        return None
    t = atom[1]
    success = 1         # Option::Some
    while t[0] == "call" and t[1].endswith("Try::branch"):
        t = t[2][0]
        success = 0     # ControlFlow::Continue
    if atom[2] != success:
        return None
    if t[0] != "call" or t[1].split("::")[-1] not in ("op", "r", "v", "m") or not t[1].startswith(("dsets::DSet::", "dsyms::DSym::", "<dsets::", "<dsyms::")):
        return None
    args = t[2]
    if len(args) < 3 or strip(args[0]) != me or any(strip(a) not in env for a in args[1:]):
        return None
    vals = [env[strip(a)] for a in args[1:]]
    if any(v > DIM for v in vals[:-1]) or vals[-1] < 1 or vals[-1] > SIZE:
        return False
    return None


def none_outside_ranges(ctx, g):
    """"out-of-range arguments give None": in every accessor that builds its own answer (op of the two set representations, r / v of the two
    symbol representations, the trait defaults r and m), no path that ends in a `Some(..)` is possible for an index > dim, for chamber 0 or for a
    chamber > size.  Decided by evaluating the branch conditions along every path to a return for all 0 <= i, j <= 4, d in {0, 1, 5, 6} on a
    D-set of dimension 3 and size 5; a condition that is not a function of the arguments (a table lookup) counts as possibly true."""
    ctx.clauses.append("an index > dim(), chamber 0 or a chamber > size() reaches only `None` returns in op / r / v / m (T4, path conditions evaluated)")
    n = 0
    for name in scope(ctx):
        b = ctx.facts.bodies[name]
        rets = {}
        other = False
        for bi, si, s in b.assigns():
            if s["place"]["l"] == 0 and not s["place"]["p"]:
                v = norm(b.rv_origin(s["rv"]), g)
                if v[0] == "agg" and v[1].endswith("Option::None"):
                    rets[bi] = False
                elif v[0] == "agg" and v[1].endswith("Option::Some"):
                    rets[bi] = True
                else:
                    other = True
        if not any(rets.values()) or name.endswith("::walk"):
            continue    # pure delegation (PartialDSym::op -> dset.op) or `?`-propagation (m = r? * v?): None whenever the delegate is None
        ctx.scan([b])
        ints = [k for k in range(2, b.argc + 1) if b.local_ty(k) in INT_TYS]
        me = ("param", 1, b.debug.get(1, ""))
        ps = [("param", k, b.debug.get(k, "")) for k in ints]
        paths = paths_to(b, 0, set(rets), g=g)
        bad = None
        cnt = 0
        # two shapes: (dimension 3, size 5) and (dimension 3, size 1) - the second tells `i > dim()` from `i > size()`
        for DIM, SIZE in ((3, 5), (3, 1)):
            base = {("call", "dsets::DSet::dim", (me,)): DIM, ("call", "dsets::DSet::size", (me,)): SIZE, ("field", me, "dim"): DIM, ("field", me, "size"): SIZE}
            for vals in itertools.product(*([range(DIM + 2)] * (len(ps) - 1) + [(0, 1, SIZE, SIZE + 1)])):
                env = dict(base)
                env.update(dict(zip(ps, vals)))
                outside = any(v > DIM for v in vals[:-1]) or vals[-1] < 1 or vals[-1] > SIZE
                cnt += 1
                names = [p[2] for p in ps]
                for tgt, atoms in paths:
                    ev = [delegated(a, env, me, DIM, SIZE) if delegated(a, env, me, DIM, SIZE) is not None else eval_atom_env(a, env) for a in atoms if not is_ovf_atom(a)]
                    if outside and rets[tgt] and all(e is None or e for e in ev):
                        bad = bad or "%s(%s) on a D-set of dimension %d and size %d can reach a `Some(..)` return (%s): out-of-range arguments must give None" % (
                            name.split("::")[-1], ", ".join("%s = %d" % (a_, v_) for a_, v_ in zip(names, vals)), DIM, SIZE, b.span_of(tgt))
                    if not outside and not rets[tgt] and ev and all(e is True for e in ev):
                        # a None that depends only on the arguments and the shape (no table lookup on the path): the range guard itself rejects a legal query
                        bad = bad or "%s(%s) on a D-set of dimension %d and size %d is answered None by the range guard alone (%s) although every argument is in range" % (
                            name.split("::")[-1], ", ".join("%s = %d" % (a_, v_) for a_, v_ in zip(names, vals)), DIM, SIZE, b.span_of(tgt))
        n += 1
        ctx.ob("T4-none-outside-ranges", name, "Some(..) returns", "ok" if not bad and cnt else "violation",
               "no Some(..) return is reachable for an out-of-range tuple and no in-range tuple is rejected by the guard alone (%d argument tuples on two shapes, %d paths)" % (cnt, len(paths)) if not bad and cnt else (bad or "nothing evaluated"))
    ctx.floor("accessors that build their own Option", n, 8)


def builders(ctx, g):
    """every representation conversion goes through build_set / build_sym_using_vs / build_sym_using_ms: the set is filled with op(i, d) at (i, d)
    for ALL i in 0..=dim, d in 1..=size; branching numbers are stored per adjacent index pair (i, i + 1) at the representatives of the
    (i, i + 1)-orbits, as v(i, d) resp. m(i, d) / r(i, i + 1, d); as_partial_dsym / as_dset hand over the source's own op and v"""
    ctx.clauses.append("build_set / build_sym_using_vs / build_sym_using_ms store op(i, d), v(i, d), m(i, d) / r(i, i+1, d) at the slot (i, d) they were asked for; as_* conversions hand over the source's op and v (T9)")
    P = lambda b, k: ("param", k, b.debug.get(k, ""))

    def payload_range(b, t):
        r = loop_range_of_payload(b, t, g)
        return (eval_int(r[0]), strip(r[1]), r[2]) if r else None

    def some_of_call(x, f, args):
        """x == (call(f, (args..)) as Some).0"""
        x = strip(x)
        if not (x[0] == "field" and x[2] == "0" and x[1][0] == "variant" and x[1][2] == "Some"):
            return False
        c = strip(x[1][1])
        return is_call(c, "Fn::call") and strip(c[2][0]) == f and strip(c[2][1]) == ("agg", "tuple", tuple(args))
    # A
    b = ctx.body("derived::build_set")
    ctx.scan([b])
    sets = list(b.calls(exact="dsets::PartialDSet::set"))
    news = [[strip(norm(b.origin(a), g)) for a in t["args"]] for _, t in b.calls("PartialDSet::new")]
    bad = None
    if len(sets) != 1 or news != [[P(b, 1), P(b, 2)]]:
        bad = "not one set(..) on PartialDSet::new(size, dim)"
    else:
        a = [strip(norm(b.origin(x), g)) for x in sets[0][1]["args"]]
        ri, rd = payload_range(b, a[1]), payload_range(b, a[2])
        if not some_of_call(a[3], P(b, 3), (a[1], a[2])):
            bad = "set(i, d, x): x is not the Some-payload of op(i, d) for the same (i, d): %s" % show(a[3], 1)[:70]
        elif not (ri and ri[0] == 0 and ri[2] and (is_call(ri[1], "::dim") or ri[1] == P(b, 2) or (ri[1][0] == "field" and ri[1][2] == "dim")) and rd and rd[0] == 1 and rd[2] and (is_call(rd[1], "::size") or rd[1] == P(b, 1) or (rd[1][0] == "field" and rd[1][2] == "size"))):
            bad = "the loops are not i in 0..=dim, d in 1..=size (%s, %s)" % (ri and (ri[0], show(ri[1], 1)[:20], ri[2]), rd and (rd[0], show(rd[1], 1)[:20], rd[2]))
    ctx.ob("T9-builders", b.name, "set(i, d, op(i, d))", "ok" if not bad else "violation", "every (i, d) in 0..=dim x 1..=size gets op(i, d) when defined" if not bad else bad)
    # B, C
    for fn in ("build_sym_using_vs", "build_sym_using_ms"):
        b = ctx.body("derived::" + fn)
        ctx.scan([b])
        sv = list(b.calls(exact="dsyms::PartialDSym::set_v"))
        bad = None
        if len(sv) != 1:
            bad = "not one set_v(..)"
        else:
            a = [strip(norm(b.origin(x), g)) for x in sv[0][1]["args"]]
            I, D, X = a[1], a[2], a[3]
            ri = payload_range(b, I)
            src = iter_source(b, D, g)
            src = strip(norm(src, g)) if isinstance(src, tuple) else None
            reps = [y for y in subterms(src)] if src else []
            reps = [y for y in reps if is_call(y, "DSet::orbit_reps_2d")]
            plus1 = lambda t_: unov_deep(strip(t_)) == ("binop", "Add", I, ("int", 1))
            if not (ri and ri[0] == 0 and not ri[2] and is_call(ri[1], "::dim")):
                bad = "the index loop is not i in 0..dim() (one slot per ADJACENT pair (i, i + 1))"
            elif not (len(reps) == 1 and strip(reps[0][2][0]) == a[0] and strip(reps[0][2][1]) == I and plus1(reps[0][2][2])):
                bad = "the chambers are not the representatives orbit_reps_2d(i, i + 1) of the symbol being built"
            elif fn == "build_sym_using_vs":
                if not some_of_call(X, P(b, 2), (I, D)):
                    bad = "set_v(i, d, x): x is not the Some-payload of v(i, d): %s" % show(X, 1)[:60]
            else:
                ok = X[0] == "binop" and X[1] == "Div" and some_of_call(X[2], P(b, 2), (I, D))
                rr = strip(X[3]) if ok else None
                ok = ok and rr[0] == "field" and rr[1][0] == "variant" and is_call(strip(rr[1][1]), "DSet::r")
                if ok:
                    ra = [strip(y) for y in strip(rr[1][1])[2]]
                    ok = ra[0] == a[0] and ra[1] == I and plus1(ra[2]) and ra[3] == D
                if not ok:
                    bad = "set_v(i, d, x): x is not m(i, d) / r(i, i + 1, d) of the symbol being built: %s" % show(X, 1)[:80]
        ctx.ob("T9-builders", b.name, "set_v(i, d, ..)", "ok" if not bad else "violation",
               ("v(i, d)" if fn.endswith("vs") else "m(i, d) / r(i, i + 1, d)") + " at the representatives of the (i, i + 1)-orbits, i in 0..dim" if not bad else bad)
    # D
    for fn, want_v in (("as_partial_dsym", True), ("as_dset", False)):
        b = ctx.body("derived::" + fn)
        ctx.scan(ctx.facts.with_closures(b.name))
        ds = P(b, 1)
        r = strip(norm(b.local_origin(0), g))
        bs = r if is_call(r, "derived::build_set") else (strip(r[2][0]) if is_call(r, "derived::build_sym_using_vs") else None)
        bad = None
        if bs is None or not is_call(bs, "derived::build_set"):
            bad = "not built by build_set"
        else:
            A = [strip(y) for y in bs[2]]
            opr = apply_closure(ctx.facts, A[2], [("local", -1, "i"), ("local", -2, "d")], g)
            if not (A[0] == ("call", "dsets::DSet::size", (ds,)) and A[1] == ("call", "dsets::DSet::dim", (ds,))):
                bad = "not built with the source's size() and dim()"
            elif opr is None or strip(opr) != ("call", "dsets::DSet::op", (ds, ("local", -1, "i"), ("local", -2, "d"))):
                bad = "op(i, d) of the copy is not ds.op(i, d): %s" % (show(opr, 1)[:60] if opr else None)
            elif want_v:
                vr = apply_closure(ctx.facts, strip(r[2][1]), [("local", -1, "i"), ("local", -2, "d")], g)
                w = ("call", "dsyms::DSym::v", (ds, ("local", -1, "i"), ("binop", "Add", ("local", -1, "i"), ("int", 1)), ("local", -2, "d")))
                if vr is None or unov_deep(strip(vr)) != w:
                    bad = "v(i, d) of the copy is not ds.v(i, i + 1, d): %s" % (show(vr, 1)[:60] if vr else None)
        ctx.ob("T9-builders", b.name, "copy", "ok" if not bad else "violation", "size, dim, op(i, d)%s of the source" % (", v(i, i + 1, d)" if want_v else "") if not bad else bad)


def predicates(ctx, g):
    """the graph predicates as decision procedures (path conditions / returned expressions evaluated over all outcomes of their opaque tests):
    is_connected - false exactly when the traversal starts a SECOND component (a seed item, i = None, at a chamber > 1);
    is_loopless - every (i, d) has op(i, d) != Some(d); is_oriented = is_loopless && is_weakly_oriented;
    orientations_match(i, d, ori) - true iff op(i, d) is undefined, a loop, d is unsigned, or the two signs differ;
    partial_orientation - an unsigned chamber reached from d gets the opposite sign of d (PLUS for a seed);
    DSet::r - counts the steps of d under (i, j) from 0, one per step, and answers when the walk is back at d;
    Traversal::next - the new chamber goes to the FRONT of the queues of the indices 0 and 1 and to the back of the others"""
    ctx.clauses.append("graph predicates as decision tables: is_connected, is_loopless, is_oriented, orientations_match, partial_orientation, default r, traversal queue discipline (T4)")
    T = "dsets::DSet::"
    # is_connected
    b = ctx.body(T + "is_connected")
    bad = None
    item = None
    for bi, t in b.calls("Option::<T>::is_none"):
        a = strip(norm(b.origin(t["args"][0]), g))
        if a[0] == "field" and a[2] == "0":
            item = strip(a[1])
    if item is None:
        bad = "no test `i.is_none()` on the traversal item"
    else:
        isn = [("call", t["callee"]["def"], (strip(norm(b.origin(t["args"][0]), g)),)) for bi, t in b.calls("Option::<T>::is_none")][0]
        dch = ("field", item, "1")
        for none_, dv, want in ((1, 1, {True}), (1, 2, {False, True}), (0, 5, {True}), (1, 3, {False, True})):
            got = bool_results(b, g, lambda y, none_=none_, dv=dv: none_ if (y[0] == "call" and y[1].endswith("is_none")) else dv if y == dch else None)
            # `true` is always a possible answer after the loop; `false` must be possible exactly for a seed item at a chamber > 1
            if (False in got) != (False in want):
                bad = bad or "for a traversal item with i %s at chamber %d is_connected %s answer false" % ("= None" if none_ else "= Some(..)", dv, "can" if False in got else "cannot")
    ctx.ob("T4-predicates", b.name, "false iff a seed item at a chamber > 1", "ok" if not bad else "violation", "4 combinations of (i is None, chamber)" if not bad else bad)
    # is_loopless
    b = ctx.body(T + "is_loopless")
    ctx.scan(ctx.facts.with_closures(b.name))
    inner = [cb for cb in ctx.facts.with_closures(b.name) if "{closure#0}::{closure#0}" in cb.name]
    bad = None
    if len(inner) != 1:
        bad = "not all(|i| all(|d| ..))"
    else:
        r = strip(norm(inner[0].local_origin(0), g))
        okn = (is_call(r, "PartialEq::ne") or (r[0] == "binop" and r[1] == "Ne"))
        args = [strip(x) for x in (r[2] if r[0] == "call" else r[2:4])] if okn else []
        okn = okn and any(is_call(x, "DSet::op") for x in args) and any(x[0] == "agg" and x[1].endswith("Option::Some") for x in args)
        if okn:
            o = [x for x in args if is_call(x, "DSet::op")][0]
            sm = [x for x in args if x[0] == "agg"][0]
            okn = strip(o[2][2]) == strip(sm[2][0])
        if not okn:
            bad = "the test is not op(i, d) != Some(d): %s" % show(r, 1)[:60]
    ctx.ob("T4-predicates", b.name, "op(i, d) != Some(d) everywhere", "ok" if not bad else "violation", "no chamber is its own i-neighbour" if not bad else bad)
    # is_oriented
    b = ctx.body(T + "is_oriented")
    got = {}
    for lv, wv in ((0, 0), (0, 1), (1, 0), (1, 1)):
        got[(lv, wv)] = bool_results(b, g, lambda y, lv=lv, wv=wv: lv if (y[0] == "call" and y[1].endswith("is_loopless")) else wv if (y[0] == "call" and y[1].endswith("is_weakly_oriented")) else None)
    okk = all((True in v) == (k == (1, 1)) and (False in v or k == (1, 1)) for k, v in got.items())
    ctx.ob("T4-predicates", b.name, "is_loopless && is_weakly_oriented", "ok" if okk else "violation",
           "true exactly when both hold" if okk else "is_oriented is not the conjunction of is_loopless and is_weakly_oriented: %s" % got)
    # orientations_match
    b = ctx.body(T + "orientations_match")
    me, i_, d_, ori = (("param", k, b.debug.get(k, "")) for k in (1, 2, 3, 4))
    opc = ("call", "dsets::DSet::op", (me, i_, d_))
    di = ("field", ("variant", opc, "Some"), "0")
    bad = None
    for defined, loop, zero, differ in [(0, 0, 0, 0)] + [(1, l, z, df) for l in (0, 1) for z in (0, 1) for df in (0, 1)]:
        def val(y, defined=defined, loop=loop, zero=zero, differ=differ):
            if y == ("discr", opc):
                return 1 if defined else 0
            if y == d_:
                return 2
            if y == di:
                return 2 if loop else 3
            if y[0] == "call" and y[1].endswith("PartialEq::eq") and any(strip(z)[0] == "agg" and "ZERO" in strip(z)[1] for z in y[2]):
                return zero
            if y[0] == "call" and y[1].endswith("PartialEq::ne") and all(as_index(strip(z)) for z in y[2]):
                return differ
            if y[0] == "call" and y[1].endswith("PartialEq::eq") and all(as_index(strip(z)) for z in y[2]):
                return 1 - differ
            return None
        got = bool_results(b, g, val)
        want = (not defined) or bool(loop) or bool(zero) or bool(differ)
        if got != {want}:
            bad = bad or "op(i, d) %s, %s, d %s, signs %s: orientations_match can answer %s, expected %s" % (
                "defined" if defined else "undefined", "a loop" if loop else "not a loop", "unsigned" if zero else "signed", "differ" if differ else "equal", sorted(got, key=str), want)
    ctx.ob("T4-predicates", b.name, "undefined || loop || unsigned || signs differ", "ok" if not bad else "violation", "9 combinations" if not bad else bad)
    # partial_orientation
    b = ctx.body(T + "partial_orientation")
    bad = None
    stores = []
    for bi, si, s in b.assigns():
        if [e["k"] for e in s["place"]["p"]] == ["deref"]:
            tgt = strip(norm(b.local_origin(s["place"]["l"]), g))
            if is_call(tgt, "IndexMut::index_mut"):
                stores.append((bi, strip(tgt[2][1]), s["rv"]))
    if len(stores) != 1:
        bad = "%d sign stores" % len(stores)
    else:
        sb_, key, rv = stores[0]
        item = strip(key[1]) if key[0] == "field" and key[2] == "2" else None
        if item is None:
            bad = "the sign is not stored at the chamber reached (third component of the traversal item)"
        else:
            vloc = rv["op"]["place"]["l"] if rv["k"] == "use" and rv["op"]["k"] in ("copy", "move") else None
            defs = [(dbb, strip(norm(d, g))) for dbb, d in b.all_defs_origins(vloc)] if vloc is not None else []
            tab = {}
            for dbb, d in defs:
                nm = d[1].split("::")[-1] if d[0] == "agg" else "?"
                fa = [atom_norm(x, g) for x in b.facts_at(dbb)]
                par = [x for x in fa if x[0] == "rel" and any(as_index(strip(z)) and strip(as_index(strip(z))[1]) == ("field", item, "1") for z in x[2:4] if isinstance(z, tuple))]
                pol = {(x[1], strip(z)[1].split("::")[-1]) for x in par for z in x[2:4] if isinstance(z, tuple) and strip(z)[0] == "agg"}
                tab[nm] = pol
            unsigned = any(x[0] == "rel" and x[1] == "Eq" and any(strip(z)[0] == "agg" and "ZERO" in strip(z)[1] for z in x[2:4] if isinstance(z, tuple)) and
                           any(as_index(strip(z)) and strip(as_index(strip(z))[1]) == key for z in x[2:4] if isinstance(z, tuple)) for x in (atom_norm(y, g) for y in b.facts_at(sb_)))
            if tab != {"MINUS": {("Eq", "PLUS")}, "PLUS": {("Ne", "PLUS")}}:
                bad = "the new sign is not MINUS exactly when the chamber it was reached from is PLUS (else PLUS): %s" % tab
            elif not unsigned:
                bad = "a sign is assigned to a chamber that may already have one (not under sgn[di] == ZERO)"
    ctx.ob("T4-predicates", b.name, "sgn[di] = opposite of sgn[d], once", "ok" if not bad else "violation", "unsigned chambers get MINUS from a PLUS parent, PLUS otherwise" if not bad else bad)
    # chamber-indexed work tables and the closing test of the 2-orbit walks
    nt = chamber_tables(ctx, "T4-chamber-table", ctx.body(T + "partial_orientation"), g, fill=None) + chamber_tables(ctx, "T4-chamber-table", ctx.body(T + "orbit_reps_2d"), g, fill=0) + \
        chamber_tables(ctx, "T4-chamber-table", ctx.body("dsyms::collect_orbits"), g, fill=0)
    ctx.floor("chamber-indexed work tables (partial_orientation, orbit_reps_2d, collect_orbits)", nt, 4)
    walk_closing(ctx, g)
    # default r
    b = ctx.body(T + "r")
    bad = None
    somes = [(bi, strip(norm(b.rv_origin(s["rv"]), g))) for bi, si, s in b.assigns() if s["place"]["l"] == 0 and not s["place"]["p"] and strip(norm(b.rv_origin(s["rv"]), g))[1].endswith("Option::Some")]
    if len(somes) != 1 or strip(somes[0][1][2][0])[0] != "local":
        bad = "the answer is not Some(counter)"
    else:
        cnt = strip(somes[0][1][2][0])
        defs = [strip(norm(d, g)) for dbb, d in b.all_defs_origins(cnt[1])]
        ini = [d for d in defs if eval_int(d) is not None]
        inc = [d for d in defs if unov_deep(d) == ("binop", "Add", cnt, ("int", 1))]
        fa = [atom_norm(x, g) for x in b.facts_at(somes[0][0])]
        d_ = ("param", 4, b.debug.get(4, ""))
        back = any(x[0] == "rel" and x[1] == "Eq" and d_ in (strip(x[2]), strip(x[3])) and any(strip(z)[0] == "local" for z in (x[2], x[3])) for x in fa)
        if len(defs) != 2 or [eval_int(x) for x in ini] != [0] or len(inc) != 1:
            bad = "the orbit length is not counted from 0 by steps of 1: %s" % [show(d, 1)[:30] for d in defs]
        elif not back:
            bad = "the count is not answered exactly when the walk is back at d"
    ctx.ob("T4-predicates", b.name, "r = number of (i, j)-steps until back at d", "ok" if not bad else "violation", "counter 0, +1 per step, answered at e == d" if not bad else bad)
    # traversal queue discipline
    nb = ctx.body("<dsets::Traversal<'a, T, I> as std::iter::Iterator>::next")
    pf = {bi for bi, t in nb.calls("VecDeque::<T, A>::push_front")}
    pb_ = {bi for bi, t in nb.calls("VecDeque::<T, A>::push_back")}
    bad = None
    if len(pf) != 1 or len(pb_) != 1:
        bad = "not one push_front and one push_back"
    else:
        ks = [strip(z) for bi in pf for x in (atom_norm(y, g) for y in nb.facts_at(bi)) if x[0] == "rel" and any(isinstance(w, tuple) and strip(w)[0] == "int" and strip(w)[1] in (1, 2) for w in x[2:4])
              for z in x[2:4] if isinstance(z, tuple) and strip(z)[0] != "int"]
        for kv, want_front in ((0, True), (1, True), (2, False), (3, False)):
            r = reachable_sites(nb, g, pf | pb_, lambda y, kv=kv: kv if y in ks else None)
            if (bool(r & pf), bool(r & pb_)) != (want_front, not want_front):
                bad = bad or "for index %d the new chamber goes to the %s of the queue (indices 0 and 1: front, the others: back)" % (kv, "front" if r & pf else "back")
    ctx.ob("T4-predicates", nb.name, "push_front iff k < 2", "ok" if not bad else "violation", "indices 0, 1 -> front; 2, 3 -> back" if not bad else bad)


def collect_orbits_walk(ctx, g):
    """collect_orbits: for every adjacent pair (i, i + 1) and EVERY chamber 1..=size() not yet seen, the walk alternates op(i, .) and op(i + 1, .)"""
    b = ctx.body("dsyms::collect_orbits")
    ops = [[strip(norm(b.origin(x), g)) for x in t["args"]] for bi, t in b.calls("op_unchecked")]
    bad = None
    if len(ops) != 2:
        bad = "%d op_unchecked steps in the walk" % len(ops)
    else:
        idx = [unov_deep(a[1]) for a in ops]
        base = [x for x in idx if x[0] == "field"]
        nxt = [x for x in idx if x[0] == "binop"]
        if len(base) != 1 or len(nxt) != 1 or nxt[0] != ("binop", "Add", base[0], ("int", 1)):
            bad = "the walk does not alternate op(i, .) and op(i + 1, .): indices %s" % [show(x, 1)[:30] for x in idx]
        else:
            ri = loop_range_of_payload(b, base[0], g)
            seeds = [strip(norm(d, g)) for l, nm in b.debug.items() for dbb, d in b.all_defs_origins(l) if not b.is_stable_local(l) and b.local_ty(l) == "usize"]
            rd = [loop_range_of_payload(b, x, g) for x in seeds if x[0] == "field" and x[2] == "0"]
            rd = [r for r in rd if r and eval_int(r[0]) == 1]
            if not (ri and eval_int(ri[0]) == 0 and not ri[2] and (is_call(strip(ri[1]), "::dim") or strip(ri[1])[0] == "field")):
                bad = "the index pairs are not (i, i + 1) for i in 0..dim()"
            elif not (rd and all(r[2] and (is_call(strip(r[1]), "::size") or (strip(r[1])[0] == "field" and strip(r[1])[2] == "size")) for r in rd)):
                bad = "the orbits are not started from every chamber 1..=size(): %s" % [(show(r[0], 1), show(r[1], 1)[:20], r[2]) for r in rd]
    ctx.ob("T4-collect-orbits", b.name, "walk", "ok" if not bad else "violation", "op(i, .), op(i + 1, .) alternately, from every unseen chamber 1..=size(), i in 0..dim()" if not bad else bad)


def collect_orbits_shape(ctx, g):
    """collect_orbits walks every (i, i+1)-orbit once, alternating op i and op i+1 from its smallest chamber until it returns; per orbit it
    records the number of double steps (r), whether the walk met a fixed chamber of either operation (a 'chain': the orbit lies on a
    mirror) and the orbit number of every chamber met.  Both accumulators start afresh for every orbit and both are pushed for every orbit."""
    ctx.clauses.append("collect_orbits: per orbit, r = number of double steps and is_chain = some chamber fixed by op i or op i+1, both reset and pushed per orbit (T2/T4)")
    b = ctx.body("dsyms::collect_orbits")
    ctx.scan([b])
    ds = ("param", 1, b.debug.get(1, ""))
    L = {n: l for l, n in b.debug.items()}
    need = ("orbit_rs", "orbit_is_chain", "steps", "is_chain", "e")
    if any(n not in L for n in need):
        raise AnchorMissing("collect_orbits locals %s" % [n for n in need if n not in L])
    loops = natural_loops(b)
    def depth(bb):
        return sum(1 for h, bl in loops if bb in bl)
    # steps
    sd = [(dbb, norm(d, g)) for dbb, d in b.all_defs_origins(L["steps"])]
    st = ("local", L["steps"], "steps")
    oks = sorted(depth(dbb) for dbb, d in sd) == [2, 3] and any(d == ("int", 0) for dbb, d in sd) and \
        any(unov_term(d) == ("binop", "Add", st, ("int", 1)) for dbb, d in sd)
    ctx.ob("T4-collect-orbits", b.name, "steps", "ok" if oks else "violation",
           "r counts one per double step, from 0 for every orbit" if oks else "the step counter is not (0 per orbit, +1 per double step): %s" % [(depth(dbb), show(d, 1)[:30]) for dbb, d in sd])
    # is_chain
    cd = [(dbb, norm(d, g)) for dbb, d in b.all_defs_origins(L["is_chain"])]
    ic = ("local", L["is_chain"], "is_chain")
    resets = [dbb for dbb, d in cd if d == ("int", 0)]
    ors = [d for dbb, d in cd if d[0] == "binop" and d[1] == "BitOr" and ic in d[2:]]
    idxs = set()
    okeq = True
    for d in ors:
        eq = [x for x in d[2:] if x != ic][0]
        if not (eq[0] == "binop" and eq[1] == "Eq"):
            okeq = False
            continue
        calls = [x for x in subterms(eq) if is_call(x, "::op_unchecked") or is_call(x, "DSet::op")]
        if not calls or strip(calls[0][2][0]) != ds:
            okeq = False
        for c in calls:
            idxs.add(show(unov_term(strip(c[2][1])), 1)[-30:])
    okc = len(resets) == 1 and depth(resets[0]) == 2 and len(ors) == 2 and okeq
    ctx.ob("T4-collect-orbits", b.name, "is_chain", "ok" if okc else "violation",
           "is_chain starts false for every orbit and accumulates a fixed-chamber test after the op i step and after the op i+1 step" if okc else
           "is_chain is not (false per orbit, |= fixed-chamber test after each of the two steps): resets at loop depth %s, %d accumulating updates" % ([depth(r) for r in resets], len(ors)))
    # pushes: both, once per orbit, after the walk
    pr = [bi for bi, t in b.calls("Vec::<T, A>::push") if strip(norm(b.origin(t["args"][0]), g)) == ("local", L["orbit_rs"], "orbit_rs") and strip(norm(b.origin(t["args"][1]), g)) == st]
    pc = [bi for bi, t in b.calls("Vec::<T, A>::push") if strip(norm(b.origin(t["args"][0]), g)) == ("local", L["orbit_is_chain"], "orbit_is_chain") and strip(norm(b.origin(t["args"][1]), g)) == ic]
    okp = len(pr) == 1 and len(pc) == 1 and depth(pr[0]) == 2 and depth(pc[0]) == 2 and (b.dominates(pr[0], pc[0]) or b.dominates(pc[0], pr[0]))
    if okp:
        # neither push can be skipped once the other is reached
        first, second = (pr[0], pc[0]) if b.dominates(pr[0], pc[0]) else (pc[0], pr[0])
        hdr = [h for h, bl in loops if first in bl and depth(h) == 2]
        okp = all(must_pass_through(b, first, second, h) for h in hdr) if hdr else False
    ctx.ob("T4-collect-orbits", b.name, "push(steps), push(is_chain)", "ok" if okp else "violation",
           "every orbit contributes exactly one r and one chain flag, in step" if okp else
           "orbit_rs and orbit_is_chain are not both pushed exactly once per orbit (pushes of steps: %d, of is_chain: %d): the two tables get out of step" % (len(pr), len(pc)))


def query_ranges(ctx):
    """T4: the derived queries range over all indices, all chambers and all components (necessary for 'coincide with their
    graph-theoretic definitions' on disconnected and partial inputs)"""
    g = ctx.facts.getters()
    ctx.clauses.append("derived queries range over all indices / chambers / components (T4)")
    D = "dsets::DSet::"
    def me(b):
        return ("param", 1, b.debug.get(1, ""))
    b = ctx.body(D + "elements")
    ctx.require(ret_origin(b, g) == ("call", "std::ops::RangeInclusive::<Idx>::new", (("int", 1), ("call", D + "size", (me(b),)))), "T4-query-ranges", b.name, "1..=size()", "elements() = 1..=size()", "elements() is " + show(ret_origin(b, g), 1)[:60])
    b = ctx.body(D + "indices")
    ctx.require(ret_origin(b, g) == ("call", "std::ops::RangeInclusive::<Idx>::new", (("int", 0), ("call", D + "dim", (me(b),)))), "T4-query-ranges", b.name, "0..=dim()", "indices() = 0..=dim()", "indices() is " + show(ret_origin(b, g), 1)[:60])
    b = ctx.body(D + "full_traversal")
    ctx.require(ret_origin(b, g) == ("call", D + "traversal", (me(b), ("call", D + "indices", (me(b),)), ("call", D + "elements", (me(b),)))), "T4-query-ranges", b.name, "traversal(indices(), elements())",
                "the full traversal uses all indices and all chambers as seeds", "full_traversal() is " + show(ret_origin(b, g), 1)[:80])
    for fn in ("partial_orientation", "is_connected"):
        b = ctx.body(D + fn)
        srcs = [norm(b.def_origin(b.origin(t["args"][0])), g) for bi, t in b.calls("Iterator::next")]
        full = ("call", D + "full_traversal", (me(b),))
        alt = ("call", D + "traversal", (me(b), ("call", D + "indices", (me(b),)), ("call", D + "elements", (me(b),))))
        ok = any(contains(s_, lambda x: x in (full, alt)) for s_ in srcs)
        ctx.ob("T4-query-ranges", b.name, "iterates full_traversal()", "ok" if ok else "violation",
               fn + " visits every component (seeds = all chambers)" if ok else
               fn + " does not iterate the full traversal (all indices, every chamber as seed): chambers outside the visited components are ignored: " + "; ".join(show(s_, 1)[:70] for s_ in srcs))
    for fn in ("is_complete", "is_loopless", "is_weakly_oriented"):
        b = ctx.body(D + fn)
        ctx.scan(ctx.facts.with_closures(b.name))
        ok_outer = ok_inner = False
        for bi, t in b.calls("Iterator::all"):
            r = range_of(b, b.origin(t["args"][0]), g)
            ok_outer = r is not None and r[0] == ("int", 0) and r[2] and r[1] == ("call", D + "dim", (me(b),))
            cp = closure_parts(b.origin(t["args"][1]))
            if cp:
                cb = ctx.facts.bodies.get(cp[0])
                for bj, t2 in (cb.calls("Iterator::all") if cb else []):
                    r2 = range_of(cb, cb.origin(t2["args"][0]), g)
                    if r2 is not None:
                        caps = [norm(c, g) for c in cp[1]]
                        hi = map_term(r2[1], lambda n: caps[int(n[2])] if n[0] == "field" and n[1][0] == "param" and n[1][1] == 1 and str(n[2]).isdigit() and int(n[2]) < len(caps) else None)
                        ok_inner = r2[0] == ("int", 1) and r2[2] and hi == ("call", D + "size", (me(b),))
        ctx.ob("T4-query-ranges", b.name, "all indices x all chambers", "ok" if ok_outer and ok_inner else "violation",
               fn + " quantifies over 0..=dim() and 1..=size()" if ok_outer and ok_inner else fn + " does not quantify over all indices 0..=dim() and all chambers 1..=size() (outer ok: %s, inner ok: %s)" % (ok_outer, ok_inner))
    # overrides of is_complete in the four representations: a full quantification, a delegation to the wrapped set, or `true` behind a
    # constructor that asserts completeness
    for d_ in sorted(ctx.facts.bodies):
        if not (d_.endswith(" as dsets::DSet>::is_complete")):
            continue
        b = ctx.facts.bodies[d_]
        ctx.scan(ctx.facts.with_closures(b.name))
        r = ret_origin(b, g)
        alls = list(b.calls("Iterator::all"))
        rng = [range_of(b, b.origin(t["args"][0]), g) for bi, t in alls]
        isdim = lambda x: x is not None and (x == ("call", D + "dim", (me(b),)) or (x[0] == "field" and x[1] == me(b) and x[2] == "dim"))
        issize = lambda x: x is not None and (is_call(x, "::size") or (x[0] == "field" and x[2] == "size"))
        if r == ("int", 1):
            ty = d_.split(" as ")[0].lstrip("<")
            ctor = ctx.facts.bodies.get(ty + "::from_partial")
            okc = False
            if ctor is not None:
                p1 = ("param", 1, ctor.debug.get(1, ""))
                for bi, blk in ctor.live_blocks():
                    t = blk["term"]
                    if t["k"] == "switch":
                        dd = norm(ctor.origin(t["discr"]), g)
                        if is_call(dd, "is_complete") and strip(dd[2][0]) == p1:
                            okc = True
            ctx.ob("T4-query-ranges", b.name, "true <- constructor asserts", "ok" if okc else "violation",
                   "`true` is justified by %s::from_partial asserting is_complete() of its argument" % ty.split("::")[-1] if okc else
                   "is_complete() is constantly true but %s::from_partial does not test is_complete() of its argument" % ty.split("::")[-1])
            continue
        deleg = [t for bi, t in b.calls("::is_complete") if strip(norm(b.origin(t["args"][0]), g))[0] == "field" and strip(norm(b.origin(t["args"][0]), g))[1] == me(b)]
        if deleg:
            # the delegated answer must be necessary for `true`: every way of returning true passes the call's true edge
            dj = bool_join_disjuncts(b, 0, g)
            if dj and not all(any(a[0] == "bool" and a[2] is True and is_call(a[1], "::is_complete") for a in atoms) for bb, atoms in dj):
                deleg = []
        full = [rr for rr in rng if rr is not None and rr[0] == ("int", 0) and rr[2] and isdim(rr[1])]
        inner_ok = False
        for bi, t in alls:
            cp = closure_parts(b.origin(t["args"][1]))
            cb = ctx.facts.bodies.get(cp[0]) if cp else None
            for bj, t2 in (cb.calls("Iterator::all") if cb else []):
                r2 = range_of(cb, cb.origin(t2["args"][0]), g)
                if r2 is not None and r2[0] == ("int", 1) and r2[2] and issize(r2[1]):
                    inner_ok = True
        ok = bool(deleg) or (bool(full) and inner_ok)
        ctx.ob("T4-query-ranges", b.name, "all indices x all chambers", "ok" if ok else "violation",
               "delegates to the wrapped set's is_complete()" if deleg else "quantifies over 0..=dim() and 1..=size()" if ok else
               "the override does not quantify over all indices 0..=dim() and all chambers 1..=size() (ranges: %s): undefined entries of the last operation / chamber go unnoticed, "
               "and the asserting constructors accept incomplete sets" % [(show(x[0], 1), show(x[1], 1)[:20], x[2]) for x in rng if x])
    b = ctx.body(D + "is_weakly_oriented")
    r = ret_origin(b, g)
    ok = contains(r, lambda x: x == ("call", D + "partial_orientation", (me(b),)))
    ctx.require(ok, "T4-query-ranges", b.name, "uses partial_orientation()", "orientation test uses the sign assignment of partial_orientation()", "is_weakly_oriented does not use partial_orientation(self)")
    b = ctx.body(D + "is_oriented")
    calls = sorted(t["callee"].get("def", "") for bi, t in b.calls())
    ctx.require(calls == [D + "is_loopless", D + "is_weakly_oriented"], "T4-query-ranges", b.name, "is_loopless && is_weakly_oriented", "oriented = loopless and weakly oriented", "is_oriented calls " + str(calls))
    b = ctx.body(D + "orbit_reps")
    for bi, t in b.calls("Vec::<T, A>::push"):
        fa = b.facts_at(bi)
        okp = any(a[0] == "bool" and a[2] is True and is_call(a[1], "is_none") for a in fa)
        ctx.require(okp, "T3-orbit-reps", b.name, "push<-i.is_none()", "a representative is recorded exactly for traversal items that start a new component", "orbit_reps records chambers that do not start a component", b.span_of(bi))
    srcs = [norm(b.def_origin(b.origin(t["args"][0])), g) for bi, t in b.calls("Iterator::next")]
    okr = any(contains(s_, lambda x: x == ("call", D + "traversal", (me(b), ("param", 2, b.debug.get(2, "")), ("param", 3, b.debug.get(3, ""))))) for s_ in srcs)
    ctx.require(okr, "T3-orbit-reps", b.name, "traversal(indices, seeds)", "uses the caller's indices and seeds", "orbit_reps does not traverse with the given indices and seeds")
    b = ctx.body(D + "orbit_reps_2d")
    srcs = [range_of(b, b.origin(t["args"][0]), g) for bi, t in b.calls("Iterator::next")]
    okr = any(r is not None and r[0] == ("int", 1) and r[2] and r[1] == ("call", D + "size", (me(b),)) for r in srcs)
    ctx.require(okr, "T4-query-ranges", b.name, "1..=size()", "every chamber is a candidate representative", "orbit_reps_2d does not scan all chambers 1..=size()")


def walk_closing(ctx, g):
    """the 2-orbit walks of orbit_reps_2d / collect_orbits (they decide which chambers Display prints a degree for and FromStr reads one for):
    left exactly when back at the start chamber, an undefined operation leaves the walk where it is (shared with C01)"""
    T = "dsets::DSet::"
    for fn in (T + "orbit_reps_2d", "dsyms::collect_orbits"):
        wb = ctx.body(fn)
        okx = False
        other_exit = False
        for hh, bl in natural_loops(wb):
            closing = []
            exits = loop_exit_atoms(wb, hh, bl, g)
            for e_, ats in exits:
                hit = False
                for a in ats:
                    a = atom_norm(a, g)
                    if a[0] == "rel" and a[1] == "Eq":
                        l_, r_ = strip(a[2]), strip(a[3])
                        walk = [x for x in (l_, r_) if x[0] == "local" and not wb.is_stable_local(x[1])]
                        seed = [x for x in (l_, r_) if x[0] == "field" and x[2] == "0"]
                        if walk and seed and loop_range_of_payload(wb, seed[0], g):
                            hit = True
                closing.append(hit)
            if any(closing):
                okx = True
                # the walk has no other way out (a step bound, a second test): an orbit left early is reported a second time
                if not all(closing):
                    other_exit = True
        if okx and other_exit:
            ctx.ob("T4-predicates", wb.name, "walk closed only at e == d", "violation",
                   "the walk around a 2-orbit can also be left before it is back at its start chamber (a second loop exit): chambers of a long chain stay unvisited and start orbits of their own")
        ctx.ob("T4-predicates", wb.name, "walk closed at e == d", "ok" if okx else "violation",
               "the walk around a 2-orbit ends exactly when it is back at the chamber it started from" if okx else "the 2-orbit walk is not left exactly when e == d (the start chamber of the orbit)")
    n = 0
    for d, b in sorted(ctx.facts.bodies.items()):
        if (d.startswith("dsets::") or d.startswith("<dsets::")) and "::test" not in d and not b.f.get("test"):
            n += op_fallback_is_fixed_point(ctx, "T4-undefined-op-stays", b, g, allow_zero=True)
    ctx.floor("op(k, x).unwrap_or(x) sites in dsets.rs", n, 3)


def table_slots(ctx):
    """T4: the symbol representations read r from the orbit-length table and v from the branching table, through the orbit index of the
    smaller of the two adjacent indices, in both argument orders (necessary for symmetry in i, j and agreement of the representations)"""
    g = ctx.facts.getters()
    ctx.clauses.append("r reads orbit_rs, v reads orbit_vs, via orbit_index[min(i, j)], in both argument orders (T4)")
    for rep in REPS[2:]:
        for fn, table in (("<%s as dsets::DSet>::r" % rep, "orbit_rs"), ("<%s as dsyms::DSym>::v" % rep, "orbit_vs")):
            b = ctx.facts.bodies.get(fn)
            if b is None:
                continue
            me = ("param", 1, b.debug.get(1, ""))
            i_, j_, d_ = [("param", k, b.debug.get(k, "")) for k in (2, 3, 4)]
            n = 0
            for bi, t in b.calls("ops::Index::index"):
                base = norm(b.origin(t["args"][0]), g)
                if not (base[0] == "field" and base[1] == me and base[2] in ("orbit_rs", "orbit_vs")):
                    continue
                n += 1
                idx = norm(b.origin(t["args"][1]), g)
                fa = [atom_norm(a, g) for a in b.facts_at(bi)]
                up = any(implies(h, ("rel", "Eq", j_, ("field", ("binop", "AddWithOverflow", i_, ("int", 1)), "0"))) for h in fa)     # j == i + 1
                down = any(implies(h, ("rel", "Eq", i_, ("field", ("binop", "AddWithOverflow", j_, ("int", 1)), "0"))) for h in fa) or \
                    any(implies(h, ("rel", "Eq", j_, ("field", ("binop", "SubWithOverflow", i_, ("int", 1)), "0"))) for h in fa)      # i == j + 1  /  j == i - 1
                up = up or any(implies(h, ("rel", "Eq", i_, ("field", ("binop", "SubWithOverflow", j_, ("int", 1)), "0"))) for h in fa)
                low = i_ if up else (j_ if down else None)
                want = ("call", "std::ops::Index::index", (("call", "std::ops::Index::index", (("field", me, "orbit_index"), low)), d_)) if low is not None else None
                ok = base[2] == table and want is not None and idx == want
                ctx.ob("T4-orbit-table-slots", fn, "%s[orbit_index[%s][d]]" % (base[2], "i" if up else "j" if down else "?"), "ok" if ok else "violation",
                       "reads %s through the orbit index of the smaller index" % table if ok else
                       "%s reads %s[%s] in the branch %s: expected %s[orbit_index[min(i, j)][d]] - r, v and m are then not symmetric in (i, j) / the representations disagree" % (
                           fn.split("::")[-1], base[2], show(idx, 1)[:50], "j == i + 1" if up else "i == j + 1" if down else "(unrecognised guard)", table), b.span_of(bi))
            ctx.floor("orbit table reads in " + fn, n, 2)


def sweep(ctx):
    """informational (thorough tier): the same range-guard template over every public function of the crate that takes an
    integer argument - i.e. which public functions have argument preconditions (may panic for some integer arguments).
    Never alarming: most of these are documented `_unchecked` / builder functions with asserts."""
    from .. import report
    eng = T5(ctx.facts)
    per_fn = {}
    for d, b in sorted(ctx.facts.bodies.items()):
        if b.f["def_kind"] == "Closure" or "Public" not in b.f.get("vis", "") or "property_based_tests" in d:
            continue
        ints = {i for i in range(1, b.argc + 1) if b.local_ty(i) in INT_TYS}
        if not ints:
            continue
        sub = report.Ctx("SWEEP", ctx.facts)
        try:
            eng.evaluate_entry(sub, "sweep", d, lambda t, ints=ints: t[0] == "param" and t[1] in ints, report_invariant=False, deep=False)
        except Exception:
            continue
        v = [o["site"][:80] for o in sub.obs if o["status"] == "violation"]
        if v:
            per_fn[d] = v
    ctx.sweep.append({"template": "T5 range-guard over all public functions with integer parameters", "functions_with_argument_preconditions": len(per_fn),
                      "sites": sum(len(v) for v in per_fn.values()), "per_function": {k: v[:3] for k, v in sorted(per_fn.items())}})
