"""C11 - coset enumeration returns the coset table of the subgroup (DESIGN 4/C11)."""
from ..core import *
from ..templates import *

CT = "fpgroups::cosets::CosetTable"
BASE_ROW = 0

EXPLANATION = (
    "Decided: (1) base-row agreement: in coset_table the scans of the words that come from iterating the subgroup_gens parameter start at "
    "canon(K) with K a constant equal to the base row 0 (the only row CosetTable::new creates and the row coset_representative starts from), "
    "and such a scan exists, so the subgroup actually constrains the table and closes at row 0; the relator scans start at canon(i) for the "
    "row i of the new definition join(i, n, g) and only for relator rotations beginning with g; the relator set is the rotation/inverse "
    "closure. (2) coset_representative reads the table: the key inserted for a new row is the payload of table.get(i, g) for the popped row i "
    "and the same letter g that is multiplied onto the popped row's word. (3) every function that returns a CosetTable built by enumeration "
    "returns compact() of it (no dead rows). (4) entries are only written through set(), set() is only called by join/merge/compact, join "
    "writes both directions (g and -g), and scan_and_connect joins only when exactly one entry is missing and merges only on a closed scan "
    "with head != tail. NOT decided: that Todd-Coxeter terminates with the true index, permutation/transitivity/relator closure of the result.")
TRUSTED = ["rustc MIR lowering", "union-find (IntPartition) correctness, see C20", "A7 base row 0 by construction of CosetTable::new"]
ASSUMPTIONS = ["the subgroup has finite index (the routine asserts a 100000-row limit otherwise)"]


def compact_slots(ctx, g):
    """compact(): the live rows (canon(k) == k) are renumbered (base row 0, the others 1, 2, .. in order, counter incremented per numbered row) and
    EVERY defined entry of every live row is copied as result.set(old_to_new[k], g, old_to_new[c]) with c = get(k, g) - row, letter and image
    all translated, over all rows and all letters"""
    cp = ctx.body(CT + "::compact")
    ctx.scan([cp])
    me = ("param", 1, cp.debug.get(1, ""))
    sets = [(bi, [strip(norm(cp.origin(x), g)) for x in t["args"]]) for bi, t in cp.calls(exact=CT + "::set")]
    bad = None
    if len(sets) != 1:
        bad = "%d set(..) calls" % len(sets)
    else:
        bi, a = sets[0]
        r_, gl, im = as_index(a[1]), a[2], as_index(a[3])
        if not (r_ and im and r_[0] == im[0]):
            bad = "row and image are not both translated through one renumbering table: set(%s, .., %s)" % (show(a[1], 1)[:30], show(a[3], 1)[:30])
        else:
            k, c = strip(r_[1]), strip(im[1])
            want_c = ("field", ("variant", ("call", CT + "::get", (me, k, gl)), "Some"), "0")
            fa = [atom_norm(x, g) for x in cp.facts_at(bi)]
            live = any(x[0] == "rel" and x[1] == "Eq" and {strip(x[2]), strip(x[3])} == {("call", CT + "::canon", (me, k)), k} for x in fa)
            rk = loop_range_of_payload(cp, k, g)
            gs = iter_source(cp, gl, g)
            if c != want_c:
                bad = "the image copied is not get(k, g) of the same row and letter: %s" % show(c, 1)[:60]
            elif not live:
                bad = "entries are copied from rows that are not their own representative"
            elif not (rk and eval_int(rk[0]) == 0 and not rk[2] and is_call(strip(rk[1]), CT + "::len")):
                bad = "not every row 0..len() is visited"
            elif not (isinstance(gs, tuple) and contains(norm(gs, g), lambda y: is_call(y, CT + "::all_gens"))):
                bad = "not every letter of all_gens() is copied"
            else:
                # the numbering counter: stored, then incremented, inside the same guard
                tab = r_[0]
                stores = []
                for bj, si, s in cp.assigns():
                    if [e["k"] for e in s["place"]["p"]] == ["deref"]:
                        tgt = strip(norm(cp.local_origin(s["place"]["l"]), g))
                        if is_call(tgt, "IndexMut::index_mut") and strip(tgt[2][0]) == tab:
                            stores.append((bj, strip(tgt[2][1]), strip(norm(cp.rv_origin(s["rv"]), g))))
                if len(stores) != 1 or stores[0][2][0] != "local":
                    bad = "the renumbering table is not filled by one `old_to_new[k] = n`"
                else:
                    sb_, kk, n_ = stores[0]
                    defs = [(dbb, strip(norm(d, g))) for dbb, d in cp.all_defs_origins(n_[1])]
                    inc = [dbb for dbb, d in defs if unov_deep(d) == ("binop", "Add", n_, ("int", 1))]
                    fa2 = [atom_norm(x, g) for x in cp.facts_at(sb_)]
                    live2 = any(x[0] == "rel" and x[1] == "Eq" and {strip(x[2]), strip(x[3])} == {("call", CT + "::canon", (me, kk)), kk} for x in fa2)
                    rk2 = loop_range_of_payload(cp, kk, g)
                    if len(inc) != 1 or not (cp.dominates(sb_, inc[0]) or sb_ == inc[0]) or not live2:
                        bad = "the counter is not incremented once for every numbered live row"
                    elif not (rk2 and eval_int(rk2[0]) == 0 and not rk2[2] and is_call(strip(rk2[1]), CT + "::len")):
                        bad = "not every row is considered for a number"
    ctx.ob("T4-table-primitives", cp.name, "set(old_to_new[k], g, old_to_new[get(k, g)])", "ok" if not bad else "violation",
           "live rows numbered consecutively; every defined entry of every live row copied with row and image translated" if not bad else bad)


def exact_guards(ctx, g):
    """guards of the coset-table code decided on value tables (an implied-but-stronger or weaker guard is not accepted):
    get: Some exactly for a stored entry >= 0 (row 0 is a valid image); set: the table is grown until c < len(); compact: the renumbering table starts
    filled with 0 (the base row's number); the closing pass scans the subgroup generators exactly at row 0, merges exactly on gap == 0 with different
    ends and then records the change; the backward scan reads letter n - 1 - index, negated"""
    ctx.clauses.append("value-table guards: get (entry >= 0), set (grown until c < len), compact (fill 0), closing pass (subgroup generators at row 0 only; merge iff gap == 0 && head != tail; change recorded), backward scan index (T4)")
    me = lambda b: ("param", 1, b.debug.get(1, ""))
    gb = ctx.body(CT + "::get")
    somes = {bi for bi, si, s in gb.assigns() if s["place"]["l"] == 0 and not s["place"]["p"] and strip(norm(gb.rv_origin(s["rv"]), g))[1].endswith("Option::Some")}
    nones = {bi for bi, si, s in gb.assigns() if s["place"]["l"] == 0 and not s["place"]["p"] and strip(norm(gb.rv_origin(s["rv"]), g))[1].endswith("Option::None")}
    c_ = ("param", 2, gb.debug.get(2, ""))
    bad = None
    for ent, rowin, want in ((-1, 1, (False, True)), (0, 1, (True, False)), (5, 1, (True, False)), (5, 0, (False, True))):
        def val(y, ent=ent, rowin=rowin):
            if y == c_:
                return 2 if rowin else 9
            if is_call(y, CT + "::len"):
                return 4
            a = as_index(y)
            if a and as_index(a[0]):
                return ent
            if y[0] == "local" and gb.local_ty(y[1]) == "isize":
                return ent
            return None
        r = reachable_sites(gb, g, somes | nones, val)
        got = (bool(r & somes), bool(r & nones))
        if got != want:
            bad = bad or "for a stored entry %d in a row %s the table: get %s" % (ent, "inside" if rowin else "outside", "answers Some" if got[0] and not want[0] else "does not answer Some" if want[0] and not got[0] else "answers None" if got[1] else "does not answer None")
    ctx.ob("T4-exact-guards", gb.name, "Some iff c < len && entry >= 0", "ok" if not bad else "violation", "entries -1 / 0 / 5 inside and outside the table give None / Some / Some / None" if not bad else bad)
    sb = ctx.body(CT + "::set")
    c_ = ("param", 2, sb.debug.get(2, ""))
    exits = [atom_norm(a, g) for h, bl in natural_loops(sb) for e_, ats in loop_exit_atoms(sb, h, bl, g) for a in ats]
    ok = any(a[0] == "rel" and implies(a, ("rel", "Lt", c_, ("call", CT + "::len", (me(sb),)))) for a in exits)
    ctx.ob("T4-exact-guards", sb.name, "grown until c < len()", "ok" if ok else "violation",
           "the growth loop is left only with c < len(): row c exists when it is written" if ok else "the growth loop can be left with c == len(): the write to row c is out of bounds (exits: %s)" % [show_atom(a) for a in exits])
    cp = ctx.body(CT + "::compact")
    fills = [[strip(norm(cp.origin(x), g)) for x in t["args"]] for bi, t in cp.calls("vec::from_elem")]
    ok = len(fills) == 1 and eval_int(fills[0][0]) == 0 and is_call(fills[0][1], CT + "::len")
    ctx.ob("T4-exact-guards", cp.name, "vec![0; len()]", "ok" if ok else "violation",
           "the renumbering table starts as len() zeros (0 is the number of the base row, which is never assigned one)" if ok else "the renumbering table of compact() is not vec![0; self.len()]: %s" % [[show(x, 1)[:20] for x in f] for f in fills])
    ct = ctx.body("fpgroups::cosets::coset_table")
    merges = list(ct.calls(exact=CT + "::merge"))
    bad = None
    if len(merges) != 1:
        bad = "%d merge calls in coset_table" % len(merges)
    else:
        mb = merges[0][0]
        a = [strip(norm(ct.origin(x), g)) for x in merges[0][1]["args"]]
        sbw = strip(a[1][1]) if a[1][0] == "field" else None
        if not (sbw is not None and is_call(sbw, "cosets::scan_both_ways") and a[1] == ("field", sbw, "0") and a[2] == ("field", sbw, "1")):
            bad = "the rows merged are not (head, tail) of the scan"
        else:
            gap, head, tail = ("field", sbw, "2"), ("field", sbw, "0"), ("field", sbw, "1")
            for gv, hv, tv, want in ((0, 3, 4, True), (0, 3, 3, False), (1, 3, 4, False), (2, 3, 4, False)):
                r = reachable_sites(ct, g, {mb}, lambda y, gv=gv, hv=hv, tv=tv: gv if y == gap else hv if y == head else tv if y == tail else None)
                if (mb in r) != want:
                    bad = bad or "with gap = %d, head = %d, tail = %d the closing pass %s" % (gv, hv, tv, "merges" if mb in r else "does not merge")
            flags = [l for l, nm in ct.debug.items() if ct.local_ty(l) == "bool" and len(ct.all_defs_origins(l)) == 2]
            okflag = any(any(dbb in ct.fwd(mb) and eval_int(strip(norm(d, g))) == 1 and ct.dominates(mb, dbb) for dbb, d in ct.all_defs_origins(l)) for l in flags)
            if not bad and not okflag:
                bad = "a merge in the closing pass is not recorded in the `changed` flag (the pass would stop although the table changed)"
            # the subgroup generators: exactly at row 0
            ex = None
            for l, nm in ct.debug.items():
                ds = [(dbb, strip(norm(d, g))) for dbb, d in ct.all_defs_origins(l)]
                if len(ds) == 2 and any(contains(d, lambda y: y == ("param", 3, ct.debug.get(3, ""))) for _, d in ds) and any(d[0] in ("cast", "agg") or contains(d, lambda y: y[0] == "agg" and y[1] == "array" and not y[2]) for _, d in ds):
                    ex = ds
            if not bad:
                if ex is None:
                    bad = "the closing pass does not choose between the subgroup generators and nothing per row"
                else:
                    for dbb, d in ex:
                        withgens = contains(d, lambda y: y == ("param", 3, ct.debug.get(3, "")))
                        fa = [atom_norm(x, g) for x in ct.facts_at(dbb)]
                        rows = [y for x in fa if x[0] == "rel" for y in (strip(x[2]), strip(x[3])) if y[0] == "field"]
                        for iv in (0, 1, 2):
                            vals = [eval_atom_env(x, {r_: iv for r_ in rows}) for x in fa if x[0] == "rel"]
                            vals = [v for v in vals if v is not None]
                            if all(vals) != ((iv == 0) == withgens) and vals:
                                bad = bad or "at row %d the closing pass %s the subgroup generators (they fix row 0 and only row 0)" % (iv, "scans" if all(vals) == withgens else "does not scan")
    ctx.ob("T4-exact-guards", ct.name, "closing pass", "ok" if not bad else "violation", "subgroup generators at row 0 only; merge iff gap == 0 && head != tail, recorded in `changed`" if not bad else bad)
    si = ctx.body("fpgroups::cosets::scan_inverse")
    w_ = ("param", 2, si.debug.get(2, ""))
    gets = [[strip(norm(si.origin(x), g)) for x in t["args"]] for bi, t in si.calls(exact=CT + "::get")]
    bad = None
    if len(gets) != 1:
        bad = "%d table lookups" % len(gets)
    else:
        lt = strip(fold_std_ops(gets[0][2]))
        neg = lt[0] == "unop" and lt[1] == "Neg"
        ix = as_index(strip(lt[2])) if neg else None
        if not (ix and ix[0] == w_):
            bad = "the letter followed backwards is not -w[..]: %s" % show(lt, 1)[:50]
        else:
            idx = unov_deep(strip(ix[1]))
            pay = [y for y in subterms(idx) if isinstance(y, tuple) and y and y[0] == "field" and y[2] == "0" and strip(y[1])[0] == "variant"]
            lens = [y for y in subterms(idx) if isinstance(y, tuple) and y and y[0] == "call" and y[1].endswith("::len")]
            for k in range(5):
                env_ = {y: k for y in pay}
                env_.update({y: 5 for y in lens})
                v = eval_term_env(idx, env_)
                if v != 4 - k:
                    bad = bad or "for a word of length 5 the backward scan reads position %s at step %d (expected %d)" % (v, k, 4 - k)
    ctx.ob("T4-exact-guards", si.name, "-w[n - 1 - index]", "ok" if not bad else "violation", "step k of the backward scan follows the inverse of letter n - 1 - k" if not bad else bad)


def table_primitives(ctx, g):
    """the primitives every enumeration step is written in.
    all_gens(): every generator and every inverse exactly once, no 0 (evaluated for 3 generators).
    get(c, g): Some(canon(entry)) exactly for a row inside the table with a non-negative entry.
    merge(a, b) - the coincidence procedure: pairs are taken from a queue, both rows are made canonical, and for a != b EVERY letter is
    handled: both images defined -> the images become a new coincidence; only one defined -> the other row inherits it; then (after all
    letters) the two rows are united.  A letter skipped or a case dropped loses deductions; uniting before the letters are processed makes
    get() answer for the merged class while the rows are still read separately"""
    ctx.clauses.append("coset table primitives: all_gens = {+-1..+-n}; get = Some(canon(entry)) iff row in table and entry >= 0; merge handles all three cases for every letter and unites afterwards (T4/T9)")
    me = lambda b: ("param", 1, b.debug.get(1, ""))
    ag = ctx.body(CT + "::all_gens")
    ctx.scan(ctx.facts.with_closures(ag.name))
    bad = None
    try:
        got = eval_pipeline(ctx.facts, norm(ag.local_origin(0), g), g, [], {("field", me(ag), "nr_gens"): 3})
        if not isinstance(got, list) or sorted(got) != [-3, -2, -1, 1, 2, 3]:
            bad = "for 3 generators all_gens() is %s, not each of 1, 2, 3, -1, -2, -3 exactly once" % (got,)
    except PipelineError as e:
        bad = "all_gens() cannot be evaluated (%s)" % e
    ctx.ob("T4-table-primitives", ag.name, "letters", "ok" if not bad else "violation", "for 3 generators: 1, 2, 3, -1, -2, -3, each once" if not bad else bad)
    gb = ctx.body(CT + "::get")
    ctx.scan([gb])
    c_ = ("param", 2, gb.debug.get(2, ""))
    bad = None
    somes = [(dbb, strip(norm(d, g))) for dbb, d in gb.all_defs_origins(0) if strip(norm(d, g))[1].endswith("Option::Some")]
    if len(somes) != 1:
        bad = "%d Some(..) returns" % len(somes)
    else:
        sb_, sv = somes[0]
        pay = strip(sv[2][0])
        fa = [atom_norm(x, g) for x in gb.facts_at(sb_)]
        ent = None
        if is_call(pay, CT + "::canon") and strip(pay[2][0]) == me(gb):
            ent = strip(pay[2][1])
            while ent[0] == "cast":
                ent = strip(ent[1])
        inrow = any(implies(x, ("rel", "Lt", c_, ("call", CT + "::len", (me(gb),)))) for x in fa if x[0] == "rel")
        nonneg = ent is not None and any(x[0] == "rel" and (implies(x, ("rel", "Le", ("int", 0), ent)) or implies(x, ("rel", "Lt", ("int", -1), ent))) for x in fa)
        if ent is None:
            bad = "the answer is not the canonical row of the stored entry: %s" % show(pay, 1)[:60]
        elif not inrow or not nonneg:
            bad = "Some(..) is not dominated by c < len() and entry >= 0 (row inside the table: %s, entry defined: %s)" % (inrow, nonneg)
    ctx.ob("T4-table-primitives", gb.name, "Some(canon(entry))", "ok" if not bad else "violation", "Some(canon(entry)) under c < len() and entry >= 0" if not bad else bad)
    mb = ctx.body(CT + "::merge")
    ctx.scan([mb])
    bad = None
    pops = list(mb.calls("VecDeque::<T, A>::pop_front"))
    pushes = [(bi, [strip(norm(mb.origin(x), g)) for x in t["args"]]) for bi, t in mb.calls("VecDeque::<T, A>::push_back")]
    sets = [(bi, [strip(norm(mb.origin(x), g)) for x in t["args"]]) for bi, t in mb.calls(exact=CT + "::set")]
    unis = [(bi, [strip(norm(mb.origin(x), g)) for x in t["args"]]) for bi, t in mb.calls("IntPartition::unite")]
    if not (len(pops) == 1 and len(pushes) == 1 and len(sets) == 2 and len(unis) == 1):
        bad = "not one pop / one push / two sets / one unite (%d, %d, %d, %d)" % (len(pops), len(pushes), len(sets), len(unis))
    else:
        pop = ("field", ("variant", ("call", "std::collections::VecDeque::<T, A>::pop_front", (strip(norm(mb.origin(pops[0][1]["args"][0]), g)),)), "Some"), "0")
        a_, b_ = ("call", CT + "::canon", (me(mb), ("field", pop, "0"))), ("call", CT + "::canon", (me(mb), ("field", pop, "1")))
        gl = sets[0][1][2]
        GA, GB = ("call", CT + "::get", (me(mb), a_, gl)), ("call", CT + "::get", (me(mb), b_, gl))
        some = lambda t: ("field", ("variant", t, "Some"), "0")

        def has(bi, t, defined):
            for x in (atom_norm(y, g) for y in mb.facts_at(bi)):
                if x[0] == ("variant" if defined else "notvariant") and strip(x[1]) == t:
                    return True
            return False
        ub = unis[0][0]
        rg = iter_source(mb, gl, g)
        if unis[0][1][1:] != [a_, b_] or not any(x[0] == "rel" and x[1] == "Ne" and {strip(x[2]), strip(x[3])} == {a_, b_} for x in (atom_norm(y, g) for y in mb.facts_at(ub))):
            bad = "the rows united are not the two canonical rows of the popped pair, under a != b"
        elif pushes[0][1][1] != ("agg", "tuple", (some(GA), some(GB))) or not (has(pushes[0][0], GA, True) and has(pushes[0][0], GB, True)):
            bad = "when both images are defined they do not become the new coincidence (a.g, b.g)"
        else:
            by = {tuple(x[1][1:3]): x for x in sets}
            sb1, sa1 = by.get((b_, gl)), by.get((a_, gl))
            if not (sb1 and sa1 and sb1[1][3] == some(GA) and sa1[1][3] == some(GB) and has(sb1[0], GA, True) and has(sb1[0], GB, False) and has(sa1[0], GA, False) and has(sa1[0], GB, True)):
                bad = "a row that lacks the image does not inherit it from the other row (set(b, g, a.g) iff only a.g is defined, set(a, g, b.g) iff only b.g is)"
            elif not (isinstance(rg, tuple) and contains(norm(rg, g), lambda y: is_call(y, CT + "::all_gens"))):
                bad = "the letters handled are not all_gens()"
            else:
                lp = loop_containing(mb, sets[0][0])
                if lp is None or ub in lp[1] if isinstance(lp, tuple) and len(lp) > 1 and isinstance(lp[1], (set, list, frozenset)) else False:
                    bad = "the rows are united inside the loop over the letters"
                elif any(ub in mb.bwd(bi) for bi in (pushes[0][0], sets[0][0], sets[1][0])) and not all(bi in mb.bwd(ub) for bi in (pushes[0][0], sets[0][0], sets[1][0])):
                    bad = "the rows are united before the letters are handled"
    ctx.ob("T9-merge-shape", mb.name, "coincidence", "ok" if not bad else "violation",
           "pop (a, b); canonical; a != b: for every letter push (a.g, b.g) / set(b, g, a.g) / set(a, g, b.g) by definedness; then unite(a, b)" if not bad else bad)


def run(ctx):
    g = ctx.facts.getters()
    ctx.clauses.append("relator scans: both exits report (row reached, letters consumed); scan_both_ways = (head with full budget, tail with the rest, gap, w[i]) (T9)")
    relator_scan_shape(ctx, "T9-relator-scan", g)
    # coset_table works with expanded_relator_set(rels) too: the relators kept are exactly the non-empty ones, all rotations and inverses (shared with C12)
    from . import c12
    c12.relators_unmodified(ctx, g)
    ctx.clauses.append("coset table storage: rows of 2n + 1 cells, letter g in column g + n for get() and set() alike, -1 = undefined (T4, expressions evaluated)")
    coset_table_layout(ctx, "T4-table-layout", g)
    ct = ctx.body("fpgroups::cosets::coset_table")
    ctx.scan([ct])
    # ---------- (1) scans in coset_table
    ctx.clauses += ["subgroup generators close at row 0 (T4)", "the subgroup constrains the table (T2)"]
    sg_param = [i for i in range(1, ct.argc + 1) if ct.debug.get(i) == "subgroup_gens"]
    sg_param = sg_param[0] if sg_param else 3
    scans = list(ct.calls(exact="fpgroups::cosets::scan_and_connect"))
    sub_scans, rel_scans = [], []
    for bi, t in scans:
        src = iter_source(ct, ct.origin(t["args"][1]), g)
        if src is not None and strip(src)[0] == "param" and strip(src)[1] == sg_param:
            sub_scans.append((bi, t))
        else:
            rel_scans.append((bi, t, src))
    ctx.require(len(sub_scans) >= 1, "T2-subgroup-scanned", ct.name, "scan_and_connect(word in subgroup_gens)",
                "the words of the subgroup_gens parameter are scanned", "no scan_and_connect call takes its word from iterating the subgroup_gens parameter: the subgroup does not constrain the table")
    for bi, t in sub_scans:
        every_iteration_reaches(ctx, "T3-no-skipped-subgroup-generator", ct, bi, "subgroup-loop->scan_and_connect", "some subgroup generator can be skipped: the table is that of a smaller subgroup")
        st = norm(ct.origin(t["args"][2]), g)
        ok = st[0] == "call" and st[1].endswith("CosetTable::canon") and len(st[2]) == 2 and st[2][1] == ("int", BASE_ROW)
        k = st[2][1] if st[0] == "call" and len(st[2]) == 2 else st
        ctx.ob("T4-base-row", ct.name, "scan_and_connect(subgroup word):start", "ok" if ok else "violation",
               "subgroup generators are scanned from canon(%d), the base row" % BASE_ROW if ok else
               "subgroup generators are scanned from %s, not from canon(%d): the table describes a conjugate of the subgroup / row 0 is not fixed by H" % (show(st, 1)[:60], BASE_ROW), ct.span_of(bi))
    # relator scans: start at canon(i), i = row of the new definition; only rotations starting with the new letter
    joins = list(ct.calls(exact=CT + "::join"))
    ctx.floor("definitions (join) in coset_table", len(joins), 1)
    ctx.floor("relator scans in coset_table", len(rel_scans), 1)
    for bi, t, src in rel_scans:
        st = norm(ct.origin(t["args"][2]), g)
        okrow = False
        okletter = False
        for jb, jt in joins:
            ja = [norm(ct.origin(a), g) for a in jt["args"]]
            if ct.dominates(jb, bi) and st[0] == "call" and st[1].endswith("CosetTable::canon") and st[2][1] == ja[1]:
                okrow = True
            w = norm(ct.origin(t["args"][1]), g)
            for a in ct.facts_at(bi):
                if a[0] == "rel" and a[1] == "Eq":
                    x, y = norm(a[2], g), norm(a[3], g)
                    for p, q in ((x, y), (y, x)):
                        if q == ja[3] and p[0] == "call" and p[1].endswith("ops::Index::index") and p[2][0] == w and p[2][1] == ("int", 0):
                            okletter = True
        ctx.require(okrow, "T4-relator-scan-row", ct.name, "scan_and_connect(relator):start", "relators are scanned from canon(i), i the row of the new definition",
                    "relator scan does not start at the canonical row of the new definition: " + show(st, 1)[:80], ct.span_of(bi))
        ctx.require(okletter, "T3-relator-scan-letter", ct.name, "scan_and_connect(relator):guard", "only rotations whose first letter is the newly defined generator are scanned",
                    "relator scan is not guarded by w[0] == g for the newly defined letter", ct.span_of(bi))
        ctx.require(src is not None and contains(src, lambda s: isinstance(s, tuple) and s and s[0] == "call" and s[1].endswith("expanded_relator_set")),
                    "T2-relator-closure", ct.name, "scan_and_connect(relator):source", "scanned relators come from expanded_relator_set(relators)",
                    "scanned relators do not come from the rotation/inverse closure of the relators: " + (show(src, 1)[:80] if src else "?"), ct.span_of(bi))
    er = ctx.body("fpgroups::cosets::expanded_relator_set")
    ctx.scan([er])
    ctx.require(any(True for _ in er.calls("free_words::relator_permutations")), "T2-relator-closure", er.name, "relator_permutations",
                "closure uses relator_permutations", "expanded_relator_set no longer takes all rotations and inverses (relator_permutations)")

    # ---------- (1b) definitions only at live rows; closure of the finished table; base row kept by compact
    ctx.clauses += ["definitions are made only at live (canonical) rows, guard still valid at the definition (T3, deep validity)",
                    "every relator is closed at every row of the returned table: consistency pass or deduction queue (T3 must-pass-through)",
                    "compaction keeps the class of the base row as row 0 (T4)"]
    for jb, jt in joins:
        ja = [norm(ct.origin(a), g) for a in jt["args"]]
        live = ("rel", "Eq", ja[1], ("call", CT + "::canon", (ja[0], ja[1])))
        ok = any(implies(atom_norm(a, g), live) or implies(atom_norm(a, g), ("rel", "Eq", live[3], live[2])) for a in ct.facts_at(jb, deep=True))
        ctx.ob("T3-define-at-live-row", ct.name, "join(i, n, g)<-i == canon(i)", "ok" if ok else "violation",
               "a new coset is defined only while i == canon(i) is known to hold (no table change since the test)" if ok else
               "a definition join(i, n, g) is not dominated by a still-valid test i == canon(i): the table may have merged row i away since the test, the stale row then receives entries its class never sees", ct.span_of(jb))
    closure = []
    tab_local = norm(ct.origin(joins[0][1]["args"][0]), g) if joins else None
    for bi, t in list(ct.calls(exact="fpgroups::cosets::scan_and_connect")) + list(ct.calls(exact="fpgroups::cosets::scan_both_ways")):
        w_src = iter_source(ct, ct.origin(t["args"][1]), g)
        st = norm(ct.origin(t["args"][2]), g)
        row = st[2][1] if st[0] == "call" and st[1].endswith("CosetTable::canon") and len(st[2]) == 2 else st
        if any(ct.dominates(jb, bi) for jb, jt in joins):
            continue                      # part of the definition step
        rng = loop_range_of_payload(ct, row, g) if row[0] == "field" else None
        all_rows = rng is not None and rng[0] == ("int", 0) and not rng[2] and rng[1][0] == "call" and rng[1][1].endswith("CosetTable::len")
        from_queue = contains(row, lambda s: isinstance(s, tuple) and s and s[0] == "call" and (s[1].endswith("pop_front") or s[1].endswith("::pop")))
        rels_src = w_src is not None and contains(w_src, lambda s: isinstance(s, tuple) and s and s[0] == "call" and s[1].endswith("expanded_relator_set"))
        if (all_rows or from_queue) and rels_src:
            closure.append((bi, t, "all-rows" if all_rows else "queue"))
    okc = False
    for bi, t, kind in closure:
        lp = loop_containing(ct, bi)
        # outermost enclosing loop header
        hdr = None
        cur = bi
        while True:
            l2 = loop_containing(ct, cur)
            if l2 is None:
                break
            hdr = l2[0]
            cur = l2[0]
            # climb: find a loop that contains this header other than itself
            outer = [x for x in loops_in(ct) if x[0] != l2[0] and ct.dominates(x[1], l2[0]) and x[0] in ct.fwd(l2[0])]
            if not outer:
                break
            cur = outer[0][1]
        rets = ct.return_blocks()
        if hdr is not None and rets and all(must_pass_through(ct, 0, hdr, r) for r in rets):
            # coincidences found there are merged
            reg = {x for x in ct.fwd(hdr)}
            merges = [mb for mb, mt in ct.calls(exact=CT + "::merge")] + ([bi] if t["callee"].get("def", "").endswith("scan_and_connect") else [])
            if any(m in reg for m in merges):
                okc = True
    ctx.ob("T3-relators-closed-everywhere", ct.name, "closure pass before return", "ok" if okc else "violation",
           "every path to the return passes a loop that scans every relator at every row (or at every queued deduction) and merges coincidences" if okc else
           "relators are scanned only at the row of each new definition: deductions made by those scans are never scanned themselves and there is no consistency pass over the finished table, so coincidences can be missed (a relator may not close at some row; too many rows)")
    cp = ctx.body(CT + "::compact")
    ctx.scan([cp])
    mecp = ("param", 1, cp.debug.get(1, ""))
    base = ("call", CT + "::canon", (mecp, ("int", 0)))
    reads_base = any(norm(cp.local_origin(t["dest"]["l"]), g) == base for bi, t in cp.calls(exact=CT + "::canon") if not t["dest"]["p"])
    okb = False
    why = "compact() never looks at canon(0)"
    if reads_base:
        why = "no numbering store guarded by k != canon(0) with the counter starting at 1"
        for bi, t in cp.calls("ops::IndexMut::index_mut"):
            base_t = norm(cp.origin(t["args"][0]), g)
            if not (base_t[0] == "local" and base_t[2] == "old_to_new") and not (base_t[0] == "local"):
                continue
            idx = norm(cp.origin(t["args"][1]), g)
            fa = [atom_norm(a, g) for a in cp.facts_at(bi)]
            guarded = any(implies(h, ("rel", "Ne", idx, base)) or implies(h, ("rel", "Ne", base, idx)) for h in fa)
            # stored counter: a multi-defined local whose constant definition is 1
            dest = t["dest"]["l"]
            val = None
            for bj, si, s in cp.assigns():
                if s["place"]["l"] == dest and [e["k"] for e in s["place"]["p"]] == ["deref"]:
                    val = strip(cp.rv_origin(s["rv"]))
            starts_at_1 = False
            if val is not None and val[0] == "local":
                consts = [norm(d[1], g) for d in cp.all_defs_origins(val[1]) if norm(d[1], g)[0] == "int"]
                starts_at_1 = consts == [("int", 1)]
            if guarded and starts_at_1:
                okb = True
    ctx.ob("T4-compact-keeps-base-row", cp.name, "old_to_new[canon(0)] == 0", "ok" if okb else "violation",
           "the class of row 0 is numbered 0: the other live rows are numbered from 1 and exclude canon(0)" if okb else
           "compaction numbers the live rows in index order without regard to which row represents the class of row 0 (%s): after a merge in which row 0 lost, the base coset is no longer row 0" % why)

    siblings_agree(ctx, "T4-siblings-agree", "fpgroups::cosets::scan", "fpgroups::cosets::scan_inverse", "forward scan ~ backward scan", ignore=("len",))
    # ---------- (2) coset_representative
    ctx.clauses.append("representatives are read off the table (T2/T3)")
    cr = ctx.body("fpgroups::cosets::coset_representative")
    ctx.scan([cr])
    inserts = [(bi, t) for bi, t in cr.calls("BTreeMap::<K, V, A>::insert")] + [(bi, t) for bi, t in cr.calls("HashMap::<K, V, S>::insert")]
    ctx.floor("insertions into the representative map", len(inserts), 1)
    tparam = ("param", 1, cr.debug.get(1, ""))
    for bi, t in inserts:
        key = norm(cr.origin(t["args"][1]), g)
        word = norm(cr.origin(t["args"][2]), g)
        gets = [s for s in subterms(key) if isinstance(s, tuple) and s and s[0] == "call" and s[1].endswith("CosetTable::get") and s[2][0] == tparam]
        ok = bool(gets)
        ctx.ob("T2-representative-reads-table", cr.name, "insert:key", "ok" if ok else "violation",
               "the row that receives a representative is the result of table.get(row, letter)" if ok else
               "the row that receives a representative does not come from a table lookup (%s): representatives do not trace to their rows" % show(key, 1)[:60], cr.span_of(bi))
        if not gets:
            continue
        row, letter = gets[0][2][1], gets[0][2][2]
        # word = w * letter with w = map[popped row]
        muls = [s for s in subterms(word) if isinstance(s, tuple) and s and s[0] == "call" and s[1].endswith("ops::Mul::mul")]
        okl = any(m[2][1] == letter for m in muls)
        ctx.ob("T3-representative-letter", cr.name, "insert:word-letter", "ok" if okl else ("violation" if muls else "undecided"),
               "the letter multiplied onto the word is the letter looked up in the table" if okl else "word is extended by a different letter than the one looked up: " + show(word, 1)[:80], cr.span_of(bi))
        okw = any(contains(m[2][0], lambda s, row=row: s == row) for m in muls)
        ctx.ob("T3-representative-row", cr.name, "insert:word-prefix", "ok" if okw else ("violation" if muls else "undecided"),
               "the extended word is the representative of the row whose entry was looked up" if okw else "prefix word does not belong to the row whose table entry was followed: " + show(word, 1)[:80], cr.span_of(bi))
    # BFS discipline: the row whose entries are followed is taken from the queue, and every newly labelled row is queued
    pops = [norm(cr.local_origin(t["dest"]["l"]), g) for bi, t in cr.calls("VecDeque::<T, A>::pop_front") if not t["dest"]["p"]]
    popped = [("field", ("variant", p_, "Some"), "0") for p_ in pops]
    for bi, t in inserts:
        key = norm(cr.origin(t["args"][1]), g)
        gets = [s for s in subterms(key) if isinstance(s, tuple) and s and s[0] == "call" and s[1].endswith("CosetTable::get") and s[2][0] == tparam]
        if not gets:
            continue
        row = gets[0][2][1]
        okrow = row in popped
        ctx.ob("T3-representative-bfs", cr.name, "row followed = popped row", "ok" if okrow else "violation",
               "entries are followed only from rows taken out of the work queue (which already have a representative)" if okrow else
               "the row whose table entries are followed (%s) is not the row popped from the work queue: a row can be expanded before it has a representative (panic on the map lookup) or never" % show(row, 1)[:50], cr.span_of(bi))
        lp = None
        for h_, blocks in natural_loops(cr):
            if bi in blocks:
                lp = (h_, blocks)
        pbs = [pb for pb, t2 in cr.calls("VecDeque::<T, A>::push_back") if norm(cr.origin(t2["args"][1]), g) == key]
        okq = bool(pbs) and lp is not None and any(must_pass_through(cr, bi, pb, lp[0]) for pb in pbs)
        ctx.ob("T3-representative-bfs", cr.name, "insert -> push_back(k)", "ok" if okq else "violation",
               "every newly labelled row is queued" if okq else "a newly labelled row is not (always) put on the work queue: rows reachable only through it never get a representative", cr.span_of(bi))
    # seed = base row
    seed_ok = False
    for bi, t in cr.calls("convert::From::from"):
        if "VecDeque" in t["callee"].get("path_with_args", ""):
            a = norm(cr.origin(t["args"][0]), g)
            if a[0] == "agg" and a[2] == (("int", BASE_ROW),):
                seed_ok = True
    ctx.ob("T4-base-row", cr.name, "queue-seed", "ok" if seed_ok else "undecided", "BFS starts at row %d" % BASE_ROW if seed_ok else "BFS seed not recognised")

    # ---------- (3) compact on return
    ctx.clauses.append("exactly [G:H] rows: returned tables are compacted (T9)")
    for fn in ["fpgroups::cosets::coset_table", "fpgroups::cosets::induced_table", "fpgroups::cosets::intersection_table"]:
        b = ctx.body(fn)
        r = ret_origin(b, g)
        ok = r[0] == "call" and r[1].endswith("CosetTable::compact")
        ctx.ob("T9-compact-on-return", fn, "return", "ok" if ok else "violation",
               "returns compact() of the enumerated table" if ok else "returns %s without compact(): dead (merged) rows stay in the table" % show(r, 1)[:60])
    b = ctx.body("fpgroups::cosets::core_table")
    r = ret_origin(b, g)
    ctx.require(r[0] == "call" and r[1].endswith("induced_table"), "T9-compact-on-return", b.name, "return", "core_table returns induced_table(..) (which compacts)",
                "core_table no longer returns the result of induced_table: " + show(r, 1)[:60])
    # every public fn returning CosetTable by value is one of the known producers
    prod = []
    for d, b in ctx.facts.bodies.items():
        sig = b.f.get("sig")
        if sig and sig["output"] == CT and "Public" in b.f.get("vis", "") and not d.startswith("<"):
            prod.append(d)
    known = {"fpgroups::cosets::coset_table", "fpgroups::cosets::core_table", "fpgroups::cosets::intersection_table", CT + "::new"}
    for d in prod:
        if d not in known:
            r = ret_origin(ctx.facts.bodies[d], g)
            ok = r[0] == "call" and (r[1].endswith("CosetTable::compact") or r[1] in known)
            ctx.ob("T9-compact-on-return", d, "return(new producer)", "ok" if ok else "undecided", "public producer of CosetTable: " + show(r, 1)[:60])

    # ---------- (4) writers of entries
    ctx.clauses.append("inverse-consistent entries: only join/merge/compact write, join writes both directions (T9/T3)")
    allowed = {CT + "::join", CT + "::merge", CT + "::compact"}
    n = 0
    for b, bi, t in callers_of(ctx, CT + "::set"):
        n += 1
        ctx.ob("T9-who-may-set", b.name, "CosetTable::set", "ok" if b.name in allowed else "violation",
               "entry written inside the table implementation" if b.name in allowed else
               "a single-direction CosetTable::set outside join/merge/compact can break g / g^-1 consistency", b.span_of(bi))
    ctx.floor("CosetTable::set call sites", n, 5)
    # direct writes of the field `table`
    for b in ctx.scan(ctx.facts.all_bodies()):
        for bi, si, s in b.assigns():
            rv = s["rv"]
            if rv["k"] in ("ref", "rawptr") and (rv.get("mut") or rv["k"] == "rawptr") and any(e["k"] == "field" and e.get("adt") == CT and e["name"] == "table" for e in rv["place"]["p"]):
                ok = b.name in (CT + "::set",)
                ctx.ob("T9-who-may-set", b.name, "mutborrow:.table", "ok" if ok else "violation",
                       "rows are only mutated inside CosetTable::set" if ok else "CosetTable.table is mutated outside CosetTable::set", b.span_of(bi, si))
    jb = ctx.body(CT + "::join")
    sets = [[norm(jb.origin(a), g) for a in t["args"]] for bi, t in jb.calls(exact=CT + "::set")]
    c, d, gg = [("param", i, jb.debug.get(i, "")) for i in (2, 3, 4)]
    fwd = any(a[1:] == [c, gg, d] for a in sets)
    def isneg(t, x):
        return (t[0] == "unop" and t[1] == "Neg" and t[2] == x) or (t[0] == "call" and t[1].endswith("ops::Neg::neg") and t[2][0] == x)
    back = any(a[1] == d and isneg(a[2], gg) and a[3] == c for a in sets)
    ctx.require(fwd and back, "T3-join-both-directions", jb.name, "set(c,g,d)+set(d,-g,c)", "join writes the entry and its inverse entry",
                "join does not write both (c,g)->d and (d,-g)->c: " + "; ".join(", ".join(show(x, 1) for x in a[1:]) for a in sets))
    sc = ctx.body("fpgroups::cosets::scan_and_connect")
    ctx.scan([sc, jb])
    for bi, t in sc.calls(exact=CT + "::join"):
        ok = any(a[0] == "rel" and a[1] == "Eq" and strip(a[3]) == ("int", 1) for a in sc.facts_at(bi))
        ctx.require(ok, "T3-connect-guards", sc.name, "join", "join only when exactly one entry is missing (gap == 1)", "join is not guarded by gap == 1", sc.span_of(bi))
    sres = [norm(sc.local_origin(t["dest"]["l"]), g) for bi, t in sc.calls(exact="fpgroups::cosets::scan_both_ways") if not t["dest"]["p"]]
    F_ = lambda s_, i: ("field", s_, str(i))
    for bi, t in sc.calls(exact=CT + "::join"):
        a = [strip(norm(sc.origin(x), g)) for x in t["args"]]
        okj = any(a[1:] == [F_(s_, 0), F_(s_, 1), F_(s_, 3)] and any(atom_norm(x, g) == ("rel", "Eq", F_(s_, 2), ("int", 1)) for x in sc.facts_at(bi)) for s_ in sres)
        ctx.require(okj, "T3-connect-guards", sc.name, "join(head, tail, c) <- gap == 1", "the deduction joins head and tail of this scan under its letter when its gap is 1",
                    "join is not join(head, tail, c) of the scan under gap == 1 of that scan", sc.span_of(bi))
    for bi, t in sc.calls(exact=CT + "::merge"):
        fa = [atom_norm(x, g) for x in sc.facts_at(bi)]
        a = [strip(norm(sc.origin(x), g)) for x in t["args"]]
        ok = False
        for s_ in sres:
            rel = [x for x in fa if x[0] == "rel" and any(isinstance(y, tuple) and contains(y, lambda z: z == s_) or y in (("param", 3, sc.debug.get(3, "")),) for y in x[2:])]
            exact = sorted(str(x) for x in rel if x[1] in ("Eq", "Ne") and not (x[1] == "Ne" and x[2] == F_(s_, 2))) 
            want = sorted(str(x) for x in (("rel", "Eq", F_(s_, 2), ("int", 0)), ("rel", "Ne", F_(s_, 0), F_(s_, 1))))
            want2 = sorted(str(x) for x in (("rel", "Eq", F_(s_, 2), ("int", 0)), ("rel", "Ne", F_(s_, 1), F_(s_, 0))))
            if a[1:] in ([F_(s_, 0), F_(s_, 1)], [F_(s_, 1), F_(s_, 0)]) and exact in (want, want2):
                ok = True
        ctx.require(ok, "T3-connect-guards", sc.name, "merge", "merge(head, tail) exactly on a closed scan (gap == 0) whose head and tail differ",
                    "the coincidence test is not `gap == 0 && head != tail` on this scan's own head and tail (dominating comparisons: %s): a completely traced word that ends in the wrong row is no longer merged, "
                    "the enumeration keeps defining rows and never closes" % [show_atom(x)[:40] for x in fa if x[0] == "rel"][:4], sc.span_of(bi))
    ctx.floor("join/merge sites in scan_and_connect", len(list(sc.calls(exact=CT + "::join"))) + len(list(sc.calls(exact=CT + "::merge"))), 2)
    table_primitives(ctx, g)
    compact_slots(ctx, g)
    exact_guards(ctx, g)
