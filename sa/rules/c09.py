"""C09 - fundamental-group presentation: reduced words, cones, relator coverage (DESIGN 4/C09)."""
from ..core import *
from ..templates import *
from . import c10

FG = "fundamental_group::fundamental_group"
FGEN = "fundamental_group::find_generators"

EXPLANATION = (
    "Decided: (1) all returned words are freely reduced: every word in the presentation is a FreeWord and every writer of FreeWord.w in the "
    "crate goes through free_words::normalized (T1, shared with C10; the in-place product used by trace_word included). (2) cones: the cone "
    "list receives (representative(word), degree) only under degree > 1, where degree is the same value v(i, j, d) that is used as the "
    "exponent of that same traced word in the relator. (3) empty relators are not emitted (insert dominated by rel.len() > 0) and the relator "
    "is word^degree of the word traced from op(i, d) around (j, i). (4) coverage: the outer index loop is 0..=dim(), the inner loop starts at "
    "the outer index itself (mirror relators i = j are produced) and is inclusive, the orbit representatives come from orbit_reps_2d(i, j) "
    "for those same two indices and v is read for those indices and that representative. (5) in find_generators the two sides of a new "
    "generator facet get [g] and [-g], and the two sides of a glued facet get w and w.inverse() for the same traced w. NOT decided: that the "
    "presented group is the orbifold fundamental group (equal abelianisation, subgroup counts, order) and the generator/facet bijection.")
TRUSTED = ["rustc MIR lowering", "A5 normalized performs complete free reduction (its guard shape is checked under C10)", "BTreeSet/BTreeMap semantics"]
ASSUMPTIONS = ["connected complete D-symbol (as the property states)"]


def payload_range(b, term, g):
    return loop_range_of_payload(b, term, g)


def closing_test(ctx, g):
    """Boundary::glue_recursively glues a facet (d, i) through a ridge (d, i, j) only when that closes the 2-orbit WITHOUT branching: the number
    of ridge pairs chained so far must equal m(i, j, d), counted once if the facet is a mirror (op(i, d) == d) and twice otherwise.
    Decided by evaluating the test on sampled (count, m, mirror?)."""
    ctx.clauses.append("a facet is glued through a ridge only if the chained ridge count equals m(i, j, d) * (1 for a mirror facet, 2 otherwise) (T3, test evaluated on samples)")
    b = ctx.body("fundamental_group::Boundary::<'a, T>::glue_recursively")
    me = ("param", 1, b.debug.get(1, ""))
    sites = list(b.calls("is_some_and"))
    ctx.floor("closing tests in glue_recursively", len(sites), 1)
    for bi, t in sites[:1]:
        recv = strip(norm(b.origin(t["args"][0]), g))
        res = closure_result(ctx.facts, b.origin(t["args"][1]), g)
        okrecv = is_call(recv, "::opposite") and strip(recv[2][0]) == me
        if not okrecv or res is None:
            ctx.ob("T3-closing-test", b.name, "opposite(d, i, j).is_some_and(..)", "violation", "the closing test is not applied to self.opposite(d, i, j)", b.span_of(bi))
            continue
        d_, i_, j_ = [strip(x) for x in recv[2][1:4]]
        res = strip(res)
        keep_ = tuple(x for x in subterms(recv) if x[0] == "local")
        res = expand_single_defs(b, res, g, keep=keep_)
        # leaves: the count n = (closure element).1, m(ds, i, j, d).unwrap_or(0), the mirror factor t (a local with two definitions)
        n_t = ("field", ("param", 2, ""), "1")
        m_ts = [x for x in subterms(res) if is_call(x, "Option::<T>::unwrap_or") and is_call(strip(x[2][0]), "DSet::m")]
        t_ls = [x for x in subterms(res) if x[0] == "local" and len(b.all_defs_origins(x[1])) == 2]
        okm = bool(m_ts) and [strip(y) for y in strip(m_ts[0][2][0])[2][1:4]] == [i_, j_, d_] and strip(m_ts[0][2][1]) == ("int", 0)
        bad = None
        if not okm or not t_ls:
            bad = "the test does not compare the chained count with m(i, j, d) and a mirror factor: " + show(res, 1)[:100]
        else:
            tl = t_ls[0]
            tv = {}
            for dbb, dd in b.all_defs_origins(tl[1]):
                pol = None
                for a in b.facts_at(dbb):
                    a = atom_norm(a, g)
                    if a[0] == "rel" and a[1] in ("Eq", "Ne"):
                        l, r = strip(a[2]), strip(a[3])
                        if is_call(l, "DSet::op") and [strip(y) for y in l[2][1:3]] == [i_, d_] and r[0] == "agg" and r[1].endswith("Option::Some") and strip(r[2][0]) == d_:
                            pol = a[1] == "Eq"
                tv[pol] = eval_int(norm(dd, g))
            if tv != {True: 1, False: 2}:
                bad = "the mirror factor is %s (keyed by op(i, d) == Some(d)); expected 1 for a mirror facet and 2 otherwise" % tv
            else:
                for mirror in (True, False):
                    for m in (0, 1, 2, 3, 4, 6):
                        for n in range(0, 14):
                            got = eval_term_env(res, {n_t: n, m_ts[0]: m, tl: tv[mirror]})
                            want = int(n == m * (1 if mirror else 2))
                            if got is None or got != want:
                                bad = bad or "for chained count %d, m = %d on a %s facet the test is %s, expected %s" % (n, m, "mirror" if mirror else "non-mirror", got, bool(want))
        ctx.ob("T3-closing-test", b.name, "count == m(i, j, d) * (1 | 2)", "ok" if not bad else "violation",
               "the ridge chain closes exactly at m(i, j, d) pairs (counted once on a mirror facet, twice otherwise)" if not bad else bad, b.span_of(bi))
        # `good` gates the gluing
        gl = list(b.calls("::glue"))
        gl = [(gb, tt) for gb, tt in gl if tt["callee"].get("def", "").endswith("::glue")]
        okg = bool(gl)
        goodl = [l for l, nme in b.debug.items() if nme == "good"]
        for gb, tt in gl:
            fa = [atom_norm(a, g) for a in b.facts_at(gb)]
            if not any(a[0] == "bool" and a[2] is True and a[1][0] == "local" and a[1][1] in goodl for a in fa):
                okg = False
        ctx.ob("T3-closing-test", b.name, "glue<-good", "ok" if okg else "violation", "glue() runs only when the test holds (or the facet is a seed without a ridge)" if okg else "glue() is not dominated by `good`")


def sentinel_not_unwrapped(ctx, g):
    """Boundary marks a ridge chain that ends at an already glued mirror with the sentinel ridge (0, 0, 0); chamber 0 does not exist, so
    ds.op(k, 0) is None.  A chamber that is read OUT OF the opposite map may be that sentinel: ds.op(k, e) of such a chamber may only be
    compared (== / != Some(e)), never unwrapped (unless a dominating test excludes e == 0)."""
    ctx.clauses.append("chambers read out of the ridge map may be the sentinel 0: ds.op of them is compared, never unwrapped (T5)")
    n = 0
    for name in ("glue", "glue_recursively"):
        b = ctx.body("fundamental_group::Boundary::<'a, T>::" + name)
        for bi, t in b.calls("Option::<T>::unwrap"):
            a = strip(norm(b.origin(t["args"][0]), g))
            if not is_call(a, "DSet::op"):
                continue
            ch = strip(a[2][2])
            from_map = contains(ch, lambda y: is_call(y, "Boundary::<'a, T>::opposite") or (y[0] == "field" and y[1][0] == "field" and False))
            n += 1
            if not from_map:
                ctx.ob("T5-sentinel-not-unwrapped", b.name, "unwrap(op(.., %s))" % show(ch, 1)[:20], "ok", "the chamber is the caller's, not one read out of the ridge map", b.span_of(bi))
                continue
            fa = [atom_norm(x, g) for x in b.facts_at(bi)]
            guarded = any(x[0] == "rel" and (implies(x, ("rel", "Ne", ch, ("int", 0))) or implies(x, ("rel", "Lt", ("int", 0), ch))) for x in fa)
            ctx.ob("T5-sentinel-not-unwrapped", b.name, "unwrap(op(.., chamber from the ridge map))", "ok" if guarded else "violation",
                   "a dominating test excludes the sentinel" if guarded else
                   "ds.op(k, e).unwrap() of a chamber e read out of the opposite map: e is 0 (the sentinel of a chain closed by a glued mirror) for symbols with both mirror and non-mirror generators, and op(k, 0) is None - fundamental_group panics", b.span_of(bi))
    ctx.floor("unwraps of ds.op in Boundary::glue / glue_recursively", n, 1)


def boundary_bookkeeping(ctx, g):
    """the ridge map of the growing fundamental domain: initially every ridge (d, i, j), i != j, of every chamber faces its own other side
    (d, j, i) with count 1; gluing the facet (d, i) joins, for every j != i, the ridges opposite to (d, i, j) and (d.i, i, j) to each other
    with the SUM of the two counts (both directions, same count) and forgets the two glued ridges; at a mirror facet the ridge opposite to
    (d, i, j) is closed off with the dummy ridge and keeps its count.  The closing test of glue_recursively compares exactly these counts."""
    ctx.clauses.append("ridge map: initial pairing (d,i,j) <-> (d,j,i) with count 1 over all chambers and index pairs; glue joins the two far ridges symmetrically with the summed count and removes the glued ones (T9)")
    B = "fundamental_group::Boundary::<'a, T>::"
    nb = ctx.body(B + "new")
    ctx.scan([nb])
    ins = [(bi, [strip(norm(nb.origin(a), g)) for a in t["args"]]) for bi, t in nb.calls("::insert")]
    bad = None
    if len(ins) != 1:
        bad = "%d inserts" % len(ins)
    else:
        bi, a = ins[0]
        k, v = a[1], a[2]
        okshape = k[0] == "agg" and len(k[2]) == 3 and v[0] == "agg" and len(v[2]) == 2 and strip(v[2][0])[0] == "agg" and len(strip(v[2][0])[2]) == 3
        if not okshape:
            bad = "not insert((d, i, j), ((d, j, i), 1))"
        else:
            d_, i_, j_ = [strip(x) for x in k[2]]
            o = [strip(x) for x in strip(v[2][0])[2]]
            rd, ri, rj = (loop_range_of_payload(nb, x, g) for x in (d_, i_, j_))
            full_i = lambda r: r and eval_int(r[0]) == 0 and r[2] and is_call(strip(r[1]), "::dim")
            if o != [d_, j_, i_] or eval_int(v[2][1]) != 1:
                bad = "a ridge (d, i, j) does not start opposite to (d, j, i) with count 1: %s -> %s" % (show(k, 1)[:40], show(v, 1)[:50])
            elif not (rd and eval_int(rd[0]) == 1 and rd[2] and is_call(strip(rd[1]), "::size") and full_i(ri) and full_i(rj)):
                bad = "the initial map does not cover d in 1..=size(), i, j in 0..=dim()"
            elif not any(x[0] == "rel" and x[1] == "Ne" and {strip(x[2]), strip(x[3])} == {i_, j_} for x in (atom_norm(y, g) for y in nb.facts_at(bi))):
                bad = "ridges are entered without i != j"
    ctx.ob("T9-ridge-map", nb.name, "insert((d, i, j), ((d, j, i), 1))", "ok" if not bad else "violation", "every ridge of every chamber, i != j, faces (d, j, i) with count 1" if not bad else bad)
    gb = ctx.body(B + "glue")
    ctx.scan(ctx.facts.with_closures(gb.name))
    me, d_, i_ = (("param", k, gb.debug.get(k, "")) for k in (1, 2, 3))
    di = ("call", "std::option::Option::<T>::unwrap", (("call", "dsets::DSet::op", (("field", me, "ds"), i_, d_)),))
    ins = [(bi, [strip(norm(gb.origin(a), g)) for a in t["args"]]) for bi, t in gb.calls("::insert")]
    rem = [(bi, [strip(norm(gb.origin(a), g)) for a in t["args"]]) for bi, t in gb.calls("::remove")]
    def opp(ch, j):
        return ("call", B + "opposite", (me, ch, i_, j))
    bad = None
    mirror = lambda bi: any(x[0] == "rel" and x[1] == "Eq" and {strip(x[2]), strip(x[3])} == {d_, di} for x in (atom_norm(y, g) for y in gb.facts_at(bi)))
    inner = lambda bi: any(x[0] == "rel" and x[1] == "Ne" and {strip(x[2]), strip(x[3])} == {d_, di} for x in (atom_norm(y, g) for y in gb.facts_at(bi)))
    im, ii = [x for x in ins if mirror(x[0])], [x for x in ins if inner(x[0])]
    rm, ri_ = [x for x in rem if mirror(x[0])], [x for x in rem if inner(x[0])]
    if not (len(im) == 1 and len(ii) == 2 and len(rm) == 1 and len(ri_) == 2):
        bad = "not (1 insert + 1 remove) at a mirror facet and (2 inserts + 2 removes) at an inner facet: %s" % [len(im), len(rm), len(ii), len(ri_)]
    else:
        j_ = strip(rm[0][1][1][2][2]) if rm[0][1][1][0] == "agg" and len(rm[0][1][1][2]) == 3 else None
        if j_ is None:
            bad = "remove((d, i, j)) not found"
        else:
            r = loop_range_of_payload(gb, j_, g)
            some = lambda c: ("field", ("variant", c, "Some"), "0")
            d_opp = ("field", some(opp(d_, j_)), "0")
            d_cnt = ("field", some(opp(d_, j_)), "1")
            un = lambda c: ("call", "std::option::Option::<T>::unwrap", (c,))
            di_opp = ("field", un(opp(di, j_)), "0")
            di_cnt = ("field", un(opp(di, j_)), "1")
            cnt = ("binop", "Add", d_cnt, di_cnt)
            T = lambda *xs: ("agg", "tuple", tuple(xs))
            if not (im[0][1][1] == d_opp and im[0][1][2] == T(T(("int", 0), ("int", 0), ("int", 0)), d_cnt) and rm[0][1][1] == T(d_, i_, j_)):
                bad = "at a mirror facet the far ridge is not closed with the dummy ridge (0,0,0) keeping its count, and (d, i, j) removed"
            else:
                got = {(x[1][1], unov_deep(x[1][2])) for x in ii}
                want = {(d_opp, T(di_opp, cnt)), (di_opp, T(d_opp, cnt))}
                want2 = {(d_opp, T(di_opp, ("binop", "Add", di_cnt, d_cnt))), (di_opp, T(d_opp, ("binop", "Add", di_cnt, d_cnt)))}
                if got != want and got != want2:
                    bad = "at an inner facet the two far ridges are not joined to each other, both ways, with the sum of the two counts"
                elif {x[1][1] for x in ri_} != {T(d_, i_, j_), T(di, i_, j_)}:
                    bad = "the two glued ridges (d, i, j) and (d.i, i, j) are not both removed"
                elif not ((r and eval_int(r[0]) == 0 and r[2] and is_call(strip(r[1]), "::dim")) or
                          (isinstance(iter_source(gb, j_, g), tuple) and contains(norm(iter_source(gb, j_, g), g), lambda y: isinstance(y, tuple) and y and y[0] == "call" and y[1].endswith("RangeInclusive::<Idx>::new") and eval_int(y[2][0]) == 0 and is_call(strip(y[2][1]), "::dim")))):
                    bad = "the ridges of the glued facet are not visited for all j in 0..=dim()"
                else:
                    fl = list(gb.calls("Iterator::filter"))
                    res = closure_result(ctx.facts, gb.origin(fl[0][1]["args"][1]), g) if len(fl) == 1 else None
                    res = strip(res) if res is not None else None
                    if not (res is not None and res[0] == "binop" and res[1] == "Ne" and i_ in (strip(res[2]), strip(res[3]))):
                        bad = "the ridge index j is not filtered by j != i"
    ctx.ob("T9-ridge-map", gb.name, "glue bookkeeping", "ok" if not bad else "violation",
           "mirror: far ridge -> dummy, same count; inner: far ridges joined both ways with d_cnt + di_cnt; glued ridges removed; all j != i" if not bad else bad)
    # spanning tree: one tree edge per chamber first reached through an operation, over all indices and all chambers
    sb = ctx.body("fundamental_group::spanning_tree")
    ctx.scan([sb])
    ds = ("param", 1, sb.debug.get(1, ""))
    tr = [[strip(norm(sb.origin(a), g)) for a in t["args"]] for _, t in sb.calls("DSet::traversal")]
    bad = None
    full = lambda r, lo, what: is_call(r, "RangeInclusive::<Idx>::new") and eval_int(r[2][0]) == lo and is_call(strip(r[2][1]), what)
    if len(tr) != 1 or tr[0][0] != ds or not full(tr[0][1], 0, "::dim") or not contains(tr[0][2], lambda y: isinstance(y, tuple) and full(y, 1, "::size") if isinstance(y, tuple) and y and y[0] == "call" else False):
        bad = "the tree is not grown by ds.traversal(0..=dim(), all chambers 1..=size())"
    else:
        pushes = [(bi, strip(norm(sb.origin(t["args"][1]), g))) for bi, t in sb.calls("::push")]
        inss = [(bi, strip(norm(sb.origin(t["args"][1]), g))) for bi, t in sb.calls("HashSet::<T, S, A>::insert") or sb.calls("::insert")]
        if len(pushes) != 1 or len(inss) != 1:
            bad = "not one push / one insert"
        else:
            pb, pv = pushes[0]
            ib, iv = inss[0]
            item = strip(iv[1]) if iv[0] == "field" and iv[2] == "2" else None
            unseen = lambda bb: any(x[0] == "bool" and x[2] is False and x[1][0] == "call" and x[1][1].endswith("::contains") and strip(x[1][2][1]) == iv for x in (atom_norm(y, g) for y in sb.facts_at(bb)))
            okv = item is not None and pv[0] == "agg" and len(pv[2]) == 3 and strip(pv[2][0]) == ("field", item, "1") and strip(pv[2][1]) == ("field", ("variant", ("field", item, "0"), "Some"), "0") and strip(pv[2][2])[0] == "agg" and strip(pv[2][2])[1].endswith("Option::None")
            if not okv:
                bad = "the tree edge pushed is not (d, i, None) of the traversal item (i, d, di): %s" % show(pv, 1)[:70]
            elif not (unseen(pb) and unseen(ib)):
                bad = "tree edge and `seen` mark are not both made exactly when di is new"
    ctx.ob("T9-ridge-map", sb.name, "spanning tree", "ok" if not bad else "violation",
           "one edge (d, i, None) per chamber di first reached through an operation; all indices, all chambers" if not bad else bad)


def trace_word_shape(ctx, g):
    """trace_word(ds, edge_to_word, d, Some(i), Some(j)) multiplies the words of the edges met on the walk d -i-> . -j-> . -i-> .. back to d, in that
    order: word of (e, i), step by i, word of (e, j) at the NEW chamber, step by j; left when e == d.  With one index it is the single edge's
    word.  The versions of the walking chamber at each lookup are decided by dominance between the two steps and the two products"""
    ctx.clauses.append("trace_word: word(e, i), e := e.i, word(e, j), e := e.j, until e == d - each word looked up at the chamber reached so far (T9)")
    b = ctx.body("fundamental_group::trace_word")
    ctx.scan([b])
    ds, e2w, d_ = (("param", k, b.debug.get(k, "")) for k in (1, 2, 3))
    I = ("field", ("variant", ("param", 4, b.debug.get(4, "")), "Some"), "0")
    J = ("field", ("variant", ("param", 5, b.debug.get(5, "")), "Some"), "0")
    loops = natural_loops(b)
    bad = None
    if len(loops) != 1:
        bad = "%d loops" % len(loops)
    else:
        h, blocks = loops[0]
        blocks = set(blocks)

        def key_of(x):
            x = strip(x)
            if is_call(x, "Option::<T>::unwrap_or") and is_call(strip(x[2][0]), "::get") and strip(strip(x[2][0])[2][0]) == e2w:
                k = strip(strip(x[2][0])[2][1])
                if k[0] == "agg" and len(k[2]) == 2:
                    return strip(k[2][0]), strip(k[2][1])
            return None
        muls = [(bi, key_of(norm(b.origin(t["args"][1]), g))) for bi, t in b.calls("MulAssign::mul_assign")]
        inl = [(bi, k) for bi, k in muls if bi in blocks]
        out = [(bi, k) for bi, k in muls if bi not in blocks]
        es = {k[0] for bi, k in inl if k}
        if len(inl) != 2 or None in [k for _, k in inl] or len(es) != 1 or list(es)[0][0] != "local":
            bad = "the walk does not multiply exactly two looked-up words per round, both at the walking chamber"
        else:
            e = list(es)[0]
            defs = [(dd[0], dd[1]) for dd in b.defs.get(e[1], []) if dd[0] in blocks]
            dterms = {dbb: strip(norm(t_, g)) for dbb, t_ in b.all_defs_origins(e[1]) if dbb in blocks}
            init = [strip(norm(t_, g)) for dbb, t_ in b.all_defs_origins(e[1]) if dbb not in blocks]

            def step_idx(t_):
                if is_call(t_, "Option::<T>::unwrap_or") and is_call(strip(t_[2][0]), "DSet::op") and strip(t_[2][1]) == e:
                    o = strip(t_[2][0])
                    if strip(o[2][0]) == ds and strip(o[2][2]) == e:
                        return strip(o[2][1])
                return None
            steps = sorted(((dbb, step_idx(t_)) for dbb, t_ in dterms.items()), key=lambda x: x[0])
            if len(steps) != 2 or init != [d_] or any(k is None for _, k in steps):
                bad = "the walking chamber is not `e = d; e = ds.op(k, e).unwrap_or(e)` twice per round"
            else:
                m_i = [bi for bi, k in inl if k[1] == I]
                m_j = [bi for bi, k in inl if k[1] == J]
                s_i = [bb for bb, k in steps if k == I]
                s_j = [bb for bb, k in steps if k == J]
                if not (len(m_i) == len(m_j) == len(s_i) == len(s_j) == 1):
                    bad = "not one product and one step for each of the two indices"
                elif not (b.dominates(m_i[0], s_i[0]) and b.dominates(s_i[0], m_j[0]) and b.dominates(m_j[0], s_j[0]) and m_i[0] != s_i[0] and s_i[0] != m_j[0] and m_j[0] != s_j[0]):
                    bad = "the order inside a round is not: word(e, i), step by i, word(e, j), step by j"
                else:
                    ex = [a for (x1, x2), ats in loop_exit_atoms(b, h, blocks, g) for a in ats]
                    okx = any(a[0] == "rel" and a[1] == "Eq" and {strip(a[2]), strip(a[3])} == {e, d_} for a in (atom_norm(x, g) for x in ex))
                    first_in_round = all(not (bb in blocks and b.dominates(bb, m_i[0]) and bb != m_i[0]) for bb in (s_i[0], s_j[0], m_j[0]))
                    if not okx:
                        bad = "the walk is not left exactly when it is back at d"
                    elif not first_in_round:
                        bad = "the round does not start with word(e, i)"
        if not bad:
            singles = sorted((k for _, k in out), key=repr)
            if sorted([(d_, I), (d_, J)], key=repr) != singles:
                bad = "with a single index the word is not that of the edge (d, i) resp. (d, j): %s" % (singles,)
    ctx.ob("T9-trace-word", b.name, "walk", "ok" if not bad else "violation",
           "word(e, i); e := e.i; word(e, j); e := e.j; until e == d; single edges (d, i) / (d, j) otherwise" if not bad else bad)


def generator_exactness(ctx, g):
    """find_generators / fundamental_group / glue on value tables: a facet (d, i) becomes a generator iff SOME ridge (d, i, j), j in 0..=dim(), is still
    open; generators are numbered len + 1; the recursion starts from [(d, i, None)]; a traced word is recorded iff non-empty, a relator kept iff
    non-empty, a cone recorded iff the branching number is at least 2; after gluing a mirror facet the far ridge is re-examined iff its own
    k-facet is a mirror too, after gluing an inner facet iff it is not"""
    ctx.clauses.append("generators: open ridge for some j in 0..=dim; numbered len + 1; recursion seeded with (d, i, None); words / relators kept iff non-empty; cones iff v >= 2; re-examination polarity in glue (T4)")
    b = ctx.body("fundamental_group::find_generators")
    ctx.scan(ctx.facts.with_closures(b.name))
    bad = None
    anys = list(b.calls("Iterator::any"))
    if len(anys) != 1:
        bad = "%d any(..) tests" % len(anys)
    else:
        a = [strip(norm(b.origin(x), g)) for x in anys[0][1]["args"]]
        r = range_of(b, a[0], g)
        res = apply_closure(ctx.facts, a[1], [("local", -1, "j")], g)
        res = strip(res) if res is not None else None
        okr = r and eval_int(r[0]) == 0 and r[2] and is_call(strip(r[1]), "::dim")
        oko = res is not None and is_call(res, "is_some") and is_call(strip(res[2][0]), "::opposite")
        if not okr:
            bad = "the ridges examined are not all j in 0..=dim(): %s" % (r,)
        elif not oko:
            bad = "the test is not bnd.opposite(d, i, j).is_some()"
        else:
            oa = [strip(y) for y in strip(res[2][0])[2]]
            d_t, i_t = oa[1], oa[2]
            rd, ri = loop_range_of_payload(b, d_t, g), loop_range_of_payload(b, i_t, g)
            if not (oa[3] == ("local", -1, "j") and rd and ri and eval_int(rd[0]) == 1 and is_call(strip(rd[1]), "::size") and eval_int(ri[0]) == 0 and is_call(strip(ri[1]), "::dim")):
                bad = "opposite is not asked for (chamber, index, j) in this order"
            else:
                lit = None
                for bi, t in b.calls("glue_recursively"):
                    lit = vec_literal(b, b.origin(t["args"][1]))
                lit = [strip(norm(x, g)) for x in lit] if lit else None
                if not (lit and len(lit) == 1 and lit[0][0] == "agg" and [strip(z) for z in lit[0][2]][:2] == [d_t, i_t] and strip(lit[0][2][2])[1].endswith("Option::None")):
                    bad = "the recursion is not started from vec![(d, i, None)]"
                else:
                    gens = [strip(norm(b.origin(t["args"][1]), g)) for bi, t in b.calls("BTreeMap::<K, V, A>::insert") if strip(norm(b.origin(t["args"][1]), g))[0] != "agg"]
                    lens = [y for x in gens for y in subterms(x) if isinstance(y, tuple) and y and y[0] == "call" and y[1].endswith("::len")]
                    v = eval_term_env(unov_deep(fold_std_ops(gens[0])), {lens[0]: 4}) if gens and lens else None
                    if v != 5:
                        bad = "a new generator is not numbered gen_to_edge.len() + 1 (for 4 existing generators: %s)" % v
                    else:
                        wi = [bi for bi, t in b.calls("BTreeMap::<K, V, A>::insert") if contains(norm(b.origin(t["args"][2]), g), lambda y: is_call(y, "fundamental_group::trace_word"))]
                        tabs = [reach_table_by_length(b, bi, g) for bi in wi]
                        if len(wi) != 2 or any(t_ != {0: False, 1: True, 2: True, 5: True} for t_ in tabs):
                            bad = "a traced word is not recorded (both directions) exactly when it is non-empty: %s" % tabs
    ctx.ob("T4-generator-exactness", b.name, "generators", "ok" if not bad else "violation", "open ridge for some j in 0..=dim(); numbered len + 1; seeded (d, i, None); words recorded iff non-empty" if not bad else bad)
    b = ctx.body("fundamental_group::fundamental_group")
    bad = None
    ri = [bi for bi, t in b.calls("BTreeSet::<T, A>::insert") if contains(norm(b.origin(t["args"][1]), g), lambda y: is_call(y, "FreeWord::raised_to"))]
    ci = [(bi, strip(norm(b.origin(t["args"][1]), g))) for bi, t in b.calls("BTreeSet::<T, A>::insert") if strip(norm(b.origin(t["args"][1]), g))[0] == "agg"]
    if len(ri) != 1 or len(ci) != 1:
        bad = "not one relator insertion and one cone insertion"
    else:
        tab = reach_table_by_length(b, ri[0], g)
        if tab != {0: False, 1: True, 2: True, 5: True}:
            bad = "a relator word^v is not kept exactly when non-empty: %s" % tab
        else:
            deg = strip(ci[0][1][2][1])
            table = {}
            for dv in (1, 2, 3):
                r = reachable_sites(b, g, {ci[0][0]}, lambda y, dv=dv: dv if y == deg else None)
                table[dv] = ci[0][0] in r
            if table != {1: False, 2: True, 3: True}:
                bad = "a cone (word, v) is recorded for branching numbers %s; it must be recorded exactly for v >= 2" % [k for k, v_ in table.items() if v_]
    ctx.ob("T4-generator-exactness", b.name, "relators / cones", "ok" if not bad else "violation", "relator kept iff non-empty; cone recorded iff v >= 2" if not bad else bad)
    B = "fundamental_group::Boundary::<'a, T>::"
    gb = ctx.body(B + "glue")
    me, d_, i_ = (("param", k, gb.debug.get(k, "")) for k in (1, 2, 3))
    di = ("call", "std::option::Option::<T>::unwrap", (("call", "dsets::DSet::op", (("field", me, "ds"), i_, d_)),))
    bad = None
    pushes = [bi for bi, t in gb.calls("Vec::<T, A>::push")]
    seen = {}
    for pb in pushes:
        fa = [atom_norm(x, g) for x in gb.facts_at(pb)]
        mirror = any(x[0] == "rel" and x[1] == "Eq" and {strip(x[2]), strip(x[3])} == {d_, di} for x in fa)
        inner = any(x[0] == "rel" and x[1] == "Ne" and {strip(x[2]), strip(x[3])} == {d_, di} for x in fa)
        far = [x for x in fa if x[0] == "rel" and x[1] in ("Eq", "Ne") and any(is_call(strip(z), "DSet::op") and contains(z, lambda y: is_call(y, "::opposite")) for z in (x[2], x[3]))]
        pol = {x[1] for x in far}
        if mirror:
            seen["mirror"] = pol
        if inner:
            seen["inner"] = pol
    if seen != {"mirror": {"Eq"}, "inner": {"Ne"}}:
        bad = "after gluing a mirror facet the far ridge is not re-examined exactly when its own facet is a mirror (==), after an inner facet exactly when it is not (!=): %s" % seen
    ctx.ob("T4-generator-exactness", gb.name, "re-examination polarity", "ok" if not bad else "violation", "mirror: op(k, e) == Some(e); inner: op(k, e) != Some(e)" if not bad else bad)


def run(ctx):
    _g = ctx.facts.getters()
    _n = 0
    for _d, _b in sorted(ctx.facts.bodies.items()):
        if _d.startswith("fundamental_group::") and "::test" not in _d and not _b.f.get("test"):
            _n += op_fallback_is_fixed_point(ctx, "T4-undefined-op-stays", _b, _g)
    ctx.floor("op(k, x).unwrap_or(x) sites", _n, 2)
    g = ctx.facts.getters()
    boundary_bookkeeping(ctx, g)
    trace_word_shape(ctx, g)
    generator_exactness(ctx, g)
    closing_test(ctx, g)
    sentinel_not_unwrapped(ctx, g)
    # (1) reducedness: T1 over the whole crate
    ctx.clauses.append("all returned words are freely reduced (T1, shared with C10)")
    n = t1_write_through(ctx, "T1-write-through", c10.FW, "w", c10.SAN)
    ctx.floor("T1 write sites of FreeWord.w", n, 2)
    tw = ctx.body("fundamental_group::trace_word")
    ret_ty = tw.f["sig"]["output"]
    ctx.require(ret_ty == c10.FW, "T8-word-type", tw.name, "return-type", "traced words are FreeWord values", "trace_word no longer returns a FreeWord: " + ret_ty)

    b = ctx.body(FG)
    ctx.scan([b, tw])
    me = ("param", 1, b.debug.get(1, ""))
    inserts = list(b.calls("BTreeSet::<T, A>::insert"))
    # which sets end up in the returned FundamentalGroup
    res_sets = {}
    for bi, si, s in b.assigns():
        rv = s["rv"]
        if rv["k"] == "aggregate" and rv.get("agg") == "adt" and rv["adt"].endswith("FundamentalGroup"):
            for fname, op in zip(rv["fields"], rv["ops"]):
                t_ = strip(b.def_origin(b.origin(op)))
                while t_[0] == "call" and t_[2]:
                    t_ = strip(b.def_origin(t_[2][0]))
                if t_[0] == "local":
                    res_sets[t_[1]] = fname
    cone_ins, rel_ins = [], []
    for bi, t in inserts:
        v = norm(b.origin(t["args"][1]), g)
        recv = strip(b.origin(t["args"][0]))
        which = res_sets.get(recv[1]) if recv[0] == "local" else None
        if which == "cones" or (which is None and not res_sets and v[0] == "agg" and v[1] == "tuple" and len(v[2]) == 2):
            cone_ins.append((bi, t, v))
        elif which == "relators" or (which is None and not res_sets):
            rel_ins.append((bi, t, v))
    ctx.floor("cone insertions", len(cone_ins), 1)
    ctx.floor("relator insertions", len(rel_ins), 1)

    def find_sub(t, suffix):
        return [s for s in subterms(t) if isinstance(s, tuple) and s and s[0] == "call" and s[1].endswith(suffix)]

    for bi, t in b.calls(exact="fundamental_group::trace_word"):
        every_iteration_reaches(ctx, "T3-no-skipped-orbit", b, bi, "orbit-loop->trace_word", "some 2-orbit representative is skipped: its relator / cone is missing")
    for bi, t in b.calls(exact="fpgroups::free_words::FreeWord::raised_to"):
        every_iteration_reaches(ctx, "T3-no-skipped-orbit", b, bi, "orbit-loop->word.raised_to(v)", "some 2-orbit representative is skipped before its relator word^v is formed: relators / cones of orbits can be dropped")
    for bi, t in b.calls(exact="dsets::DSet::orbit_reps_2d"):
        every_iteration_reaches(ctx, "T3-no-skipped-orbit", b, bi, "index-loop->orbit_reps_2d", "some index pair is skipped: its relators are missing")
    # (3) relators
    ctx.clauses.append("relators: word^degree of the traced 2-orbit word, empty ones dropped (T3)")
    rel_word = rel_deg = None
    for bi, t, v in rel_ins:
        rt = find_sub(v, "FreeWord::raised_to")
        ok_shape = bool(rt)
        ctx.require(ok_shape, "T3-relator-shape", FG, "relators.insert:value", "the relator is (traced word).raised_to(degree)", "the inserted relator is not a power of a traced word: " + show(v, 1)[:100], b.span_of(bi))
        if not rt:
            continue
        rel = rt[0]
        rel_word, rel_deg = rel[2][0], rel[2][1]
        nonempty = holds(b.facts_at(bi), ("rel", "Lt", ("int", 0), ("call", "fpgroups::free_words::FreeWord::len", (rel,))), g)
        ctx.require(nonempty, "T3-relator-nonempty", FG, "relators.insert:guard", "dominated by rel.len() > 0 on the inserted relator", "an empty relator can be inserted (no dominating len() > 0 on the same word)", b.span_of(bi))
        twc = rel_word if rel_word[0] == "call" and rel_word[1].endswith("trace_word") else None
        ctx.require(twc is not None, "T3-relator-shape", FG, "relators.insert:word", "the base word is trace_word(..)", "relator base word is not a traced word: " + show(rel_word, 1)[:80], b.span_of(bi))
        dv = rel_deg
        vcall = dv[2][0] if dv[0] == "call" and dv[1].endswith("::unwrap") else dv
        okdeg = vcall[0] == "call" and vcall[1] == "dsyms::DSym::v" and vcall[2][0] == me
        ctx.require(okdeg, "T3-relator-degree", FG, "relators.insert:exponent", "the exponent is ds.v(i, j, d)", "relator exponent is not the branching number v(i, j, d): " + show(dv, 1)[:80], b.span_of(bi))
        if twc is not None and okdeg:
            i_t, j_t, d_t = vcall[2][1], vcall[2][2], vcall[2][3]
            # trace_word(ds, &edge_to_word, op(i, d), Some(j), Some(i))
            a = twc[2]
            start = a[2]
            st_inner = start[2][0] if start[0] == "call" and start[1].endswith("::unwrap") else start
            ok_start = st_inner[0] == "call" and st_inner[1] == "dsets::DSet::op" and st_inner[2][1] == i_t and st_inner[2][2] == d_t
            some = lambda x: ("agg", "adt:std::option::Option::Some", (x,))
            ok_idx = a[3] == some(j_t) and a[4] == some(i_t)
            ctx.require(ok_start and ok_idx, "T4-relator-trace-args", FG, "trace_word(di, Some(j), Some(i))", "the word is traced from op(i, d) around the index pair (j, i) of the degree used",
                        "the traced word does not belong to the 2-orbit whose branching number is used: start %s, indices %s, %s" % (show(start, 1)[:50], show(a[3], 1)[:40], show(a[4], 1)[:40]), b.span_of(bi))
            # (4) coverage of index pairs and representatives
            ctx.clauses.append("one relator per 2-orbit of every index pair, mirrors included (T4)")
            ri = payload_range(b, i_t, g)
            rj = payload_range(b, j_t, g)
            ok_i = ri is not None and ri[0] == ("int", 0) and ri[2] and (ri[1] == ("call", "dsets::DSet::dim", (me,)) or (ri[1][0] == "field" and ri[1][2] == "dim"))
            ctx.require(ok_i, "T4-index-pairs", FG, "outer-loop", "outer index ranges over 0..=dim()", "outer index loop is not 0..=dim(): %s" % (ri and (show(ri[0], 1), show(ri[1], 1), ri[2]),))
            ok_j = rj is not None and rj[0] == i_t and rj[2] and (rj[1] == ("call", "dsets::DSet::dim", (me,)) or (rj[1][0] == "field" and rj[1][2] == "dim"))
            ctx.require(ok_j, "T4-index-pairs", FG, "inner-loop", "inner index ranges over i..=dim() (i = j mirror relators included)",
                        "inner index loop is not i..=dim(): %s -- relators of some index pairs (e.g. the mirror relators g^2) are missing" % (rj and (show(rj[0], 1), show(rj[1], 1), rj[2]),))
            src = iter_source(b, d_t, g)
            ok_r = src is not None and src[0] == "call" and src[1] == "dsets::DSet::orbit_reps_2d" and list(src[2]) == [me, i_t, j_t]
            ctx.require(ok_r, "T4-orbit-reps", FG, "orbit_reps_2d(i, j)", "representatives come from orbit_reps_2d(i, j) for the same two indices",
                        "2-orbit representatives are not orbit_reps_2d(i, j) of the indices used for v: " + (show(src, 1)[:80] if src else "?"))

    # (2) cones
    ctx.clauses.append("cone list = branched 2-orbits with their branching number (T3)")
    for bi, t, v in cone_ins:
        w, deg = v[2]
        okg = holds(b.facts_at(bi), ("rel", "Lt", ("int", 1), deg), g)
        ctx.require(okg, "T3-cone-guard", FG, "cones.insert:guard", "dominated by degree > 1 on the inserted degree",
                    "a cone is recorded without the test degree > 1 on the recorded degree (unbranched orbits would be listed)", b.span_of(bi))
        ctx.require(rel_deg is not None and deg == rel_deg, "T3-cone-degree", FG, "cones.insert:degree", "the recorded order is the exponent v(i, j, d) used for the relator of the same orbit",
                    "the recorded cone order is not the branching number of that orbit: " + show(deg, 1)[:80], b.span_of(bi))
        rep = find_sub(w, "relator_representative")
        inner = rep[0][2][0] if rep else w
        ctx.require(rel_word is not None and inner == rel_word, "T3-cone-word", FG, "cones.insert:word", "the recorded word is the traced word of the same orbit",
                    "the recorded cone word is not the word traced around that orbit: " + show(w, 1)[:80], b.span_of(bi))

    # (5) mutual inverses in find_generators
    ctx.clauses.append("the two sides of a facet carry mutually inverse words (T3)")
    fg = ctx.body(FGEN)
    ctx.scan([fg])
    ins = []
    for bi, t in fg.calls("BTreeMap::<K, V, A>::insert"):
        a = [norm(fg.origin(x), g) for x in t["args"]]
        if a[0][0] == "local" and a[0][2] == "edge_to_word" or (len(a) == 3 and a[1][0] == "agg" and len(a[1][2]) == 2 and a[2][0] == "call"):
            ins.append((bi, a))
    gens = [(bi, a) for bi, a in ins if a[2][0] == "call" and a[2][1].endswith("convert::From::from")]
    glued = [(bi, a) for bi, a in ins if (bi, a) not in gens]
    ctx.floor("edge_to_word insertions in find_generators", len(ins), 4)

    def letter(a):
        x = a[2][2][0]
        return x[2][0] if x[0] == "agg" and len(x[2]) == 1 else x
    okgen = False
    if len(gens) == 2:
        l0, l1 = letter(gens[0][1]), letter(gens[1][1])
        neg = lambda x, y: (x[0] == "unop" and x[1] == "Neg" and x[2] == y)
        okgen = neg(l0, l1) or neg(l1, l0)
    ctx.require(okgen, "T3-generator-sides", FGEN, "insert([g]) / insert([-g])", "a new generator facet gets [g] on one side and [-g] on the other",
                "the two sides of a generator facet do not carry g and -g: " + "; ".join(show(a[2], 1)[:50] for bi, a in gens))
    okgl = False
    if len(glued) == 2:
        w0, w1 = glued[0][1][2], glued[1][1][2]
        inv = lambda x, y: x[0] == "call" and x[1].endswith("FreeWord::inverse") and x[2][0] == y
        okgl = inv(w0, w1) or inv(w1, w0)
        # and the keys are (e, i) and (op(i, e), i)
        k0, k1 = glued[0][1][1], glued[1][1][1]
        def opp(ka, kb):
            x = kb[2][0]
            x = x[2][0] if x[0] == "call" and x[1].endswith("::unwrap") else x
            return x[0] == "call" and x[1] == "dsets::DSet::op" and x[2][1] == ka[2][1] and x[2][2] == ka[2][0] and kb[2][1] == ka[2][1]
        okgl = okgl and (opp(k0, k1) or opp(k1, k0))
    ctx.require(okgl, "T3-glued-sides", FGEN, "insert(w.inverse()) / insert(w)", "a glued facet (e, i) / (op(i, e), i) gets w.inverse() and w for the same traced word",
                "the two sides of a glued facet do not carry mutually inverse words: " + "; ".join(show(a[2], 1)[:50] for bi, a in glued))
