"""C09 - fundamental-group presentation: reduced words, cones, relator coverage (DESIGN 4/C09)."""
from ..core import *
from ..templates import *
from . import c10

FG = "fundamental_group::fundamental_group"
FGEN = "fundamental_group::find_generators"

EXPLANATION = (
    "Decided: (1) all returned words are freely reduced: every word in the presentation is a FreeWord and every writer of FreeWord.w in the "
    "crate goes through free_words::normalized (T1, shared with C10; the in-place product used by trace_word included). (2) cones: the cone "
    "list receives (representative(word), degree) only under degree > 1, where degree is the same value v(i, j, d) that is used as the "
    "exponent of that same traced word in the relator. (3) empty relators are not emitted (insert dominated by rel.len() > 0) and the relator "
    "is word^degree of the word traced from op(i, d) around (j, i). (4) coverage: the outer index loop is 0..=dim(), the inner loop starts at "
    "the outer index itself (mirror relators i = j are produced) and is inclusive, the orbit representatives come from orbit_reps_2d(i, j) "
    "for those same two indices and v is read for those indices and that representative. (5) in find_generators the two sides of a new "
    "generator facet get [g] and [-g], and the two sides of a glued facet get w and w.inverse() for the same traced w. NOT decided: that the "
    "presented group is the orbifold fundamental group (equal abelianisation, subgroup counts, order) and the generator/facet bijection.")
TRUSTED = ["rustc MIR lowering", "A5 normalized performs complete free reduction (its guard shape is checked under C10)", "BTreeSet/BTreeMap semantics"]
ASSUMPTIONS = ["connected complete D-symbol (as the property states)"]


def payload_range(b, term, g):
    return loop_range_of_payload(b, term, g)


def closing_test(ctx, g):
    """Boundary::glue_recursively glues a facet (d, i) through a ridge (d, i, j) only when that closes the 2-orbit WITHOUT branching: the number
    of ridge pairs chained so far must equal m(i, j, d), counted once if the facet is a mirror (op(i, d) == d) and twice otherwise.
    Decided by evaluating the test on sampled (count, m, mirror?)."""
    ctx.clauses.append("a facet is glued through a ridge only if the chained ridge count equals m(i, j, d) * (1 for a mirror facet, 2 otherwise) (T3, test evaluated on samples)")
    b = ctx.body("fundamental_group::Boundary::<'a, T>::glue_recursively")
    me = ("param", 1, b.debug.get(1, ""))
    sites = list(b.calls("is_some_and"))
    ctx.floor("closing tests in glue_recursively", len(sites), 1)
    for bi, t in sites[:1]:
        recv = strip(norm(b.origin(t["args"][0]), g))
        res = closure_result(ctx.facts, b.origin(t["args"][1]), g)
        okrecv = is_call(recv, "::opposite") and strip(recv[2][0]) == me
        if not okrecv or res is None:
            ctx.ob("T3-closing-test", b.name, "opposite(d, i, j).is_some_and(..)", "violation", "the closing test is not applied to self.opposite(d, i, j)", b.span_of(bi))
            continue
        d_, i_, j_ = [strip(x) for x in recv[2][1:4]]
        res = strip(res)
        keep_ = tuple(x for x in subterms(recv) if x[0] == "local")
        res = expand_single_defs(b, res, g, keep=keep_)
        # leaves: the count n = (closure element).1, m(ds, i, j, d).unwrap_or(0), the mirror factor t (a local with two definitions)
        n_t = ("field", ("param", 2, ""), "1")
        m_ts = [x for x in subterms(res) if is_call(x, "Option::<T>::unwrap_or") and is_call(strip(x[2][0]), "DSet::m")]
        t_ls = [x for x in subterms(res) if x[0] == "local" and len(b.all_defs_origins(x[1])) == 2]
        okm = bool(m_ts) and [strip(y) for y in strip(m_ts[0][2][0])[2][1:4]] == [i_, j_, d_] and strip(m_ts[0][2][1]) == ("int", 0)
        bad = None
        if not okm or not t_ls:
            bad = "the test does not compare the chained count with m(i, j, d) and a mirror factor: " + show(res, 1)[:100]
        else:
            tl = t_ls[0]
            tv = {}
            for dbb, dd in b.all_defs_origins(tl[1]):
                pol = None
                for a in b.facts_at(dbb):
                    a = atom_norm(a, g)
                    if a[0] == "rel" and a[1] in ("Eq", "Ne"):
                        l, r = strip(a[2]), strip(a[3])
                        if is_call(l, "DSet::op") and [strip(y) for y in l[2][1:3]] == [i_, d_] and r[0] == "agg" and r[1].endswith("Option::Some") and strip(r[2][0]) == d_:
                            pol = a[1] == "Eq"
                tv[pol] = eval_int(norm(dd, g))
            if tv != {True: 1, False: 2}:
                bad = "the mirror factor is %s (keyed by op(i, d) == Some(d)); expected 1 for a mirror facet and 2 otherwise" % tv
            else:
                for mirror in (True, False):
                    for m in (0, 1, 2, 3, 4, 6):
                        for n in range(0, 14):
                            got = eval_term_env(res, {n_t: n, m_ts[0]: m, tl: tv[mirror]})
                            want = int(n == m * (1 if mirror else 2))
                            if got is None or got != want:
                                bad = bad or "for chained count %d, m = %d on a %s facet the test is %s, expected %s" % (n, m, "mirror" if mirror else "non-mirror", got, bool(want))
        ctx.ob("T3-closing-test", b.name, "count == m(i, j, d) * (1 | 2)", "ok" if not bad else "violation",
               "the ridge chain closes exactly at m(i, j, d) pairs (counted once on a mirror facet, twice otherwise)" if not bad else bad, b.span_of(bi))
        # `good` gates the gluing
        gl = list(b.calls("::glue"))
        gl = [(gb, tt) for gb, tt in gl if tt["callee"].get("def", "").endswith("::glue")]
        okg = bool(gl)
        goodl = [l for l, nme in b.debug.items() if nme == "good"]
        for gb, tt in gl:
            fa = [atom_norm(a, g) for a in b.facts_at(gb)]
            if not any(a[0] == "bool" and a[2] is True and a[1][0] == "local" and a[1][1] in goodl for a in fa):
                okg = False
        ctx.ob("T3-closing-test", b.name, "glue<-good", "ok" if okg else "violation", "glue() runs only when the test holds (or the facet is a seed without a ridge)" if okg else "glue() is not dominated by `good`")


def sentinel_not_unwrapped(ctx, g):
    """Boundary marks a ridge chain that ends at an already glued mirror with the sentinel ridge (0, 0, 0); chamber 0 does not exist, so
    ds.op(k, 0) is None.  A chamber that is read OUT OF the opposite map may be that sentinel: ds.op(k, e) of such a chamber may only be
    compared (== / != Some(e)), never unwrapped (unless a dominating test excludes e == 0)."""
    ctx.clauses.append("chambers read out of the ridge map may be the sentinel 0: ds.op of them is compared, never unwrapped (T5)")
    n = 0
    for name in ("glue", "glue_recursively"):
        b = ctx.body("fundamental_group::Boundary::<'a, T>::" + name)
        for bi, t in b.calls("Option::<T>::unwrap"):
            a = strip(norm(b.origin(t["args"][0]), g))
            if not is_call(a, "DSet::op"):
                continue
            ch = strip(a[2][2])
            from_map = contains(ch, lambda y: is_call(y, "Boundary::<'a, T>::opposite") or (y[0] == "field" and y[1][0] == "field" and False))
            n += 1
            if not from_map:
                ctx.ob("T5-sentinel-not-unwrapped", b.name, "unwrap(op(.., %s))" % show(ch, 1)[:20], "ok", "the chamber is the caller's, not one read out of the ridge map", b.span_of(bi))
                continue
            fa = [atom_norm(x, g) for x in b.facts_at(bi)]
            guarded = any(x[0] == "rel" and (implies(x, ("rel", "Ne", ch, ("int", 0))) or implies(x, ("rel", "Lt", ("int", 0), ch))) for x in fa)
            ctx.ob("T5-sentinel-not-unwrapped", b.name, "unwrap(op(.., chamber from the ridge map))", "ok" if guarded else "violation",
                   "a dominating test excludes the sentinel" if guarded else
                   "ds.op(k, e).unwrap() of a chamber e read out of the opposite map: e is 0 (the sentinel of a chain closed by a glued mirror) for symbols with both mirror and non-mirror generators, and op(k, 0) is None - fundamental_group panics", b.span_of(bi))
    ctx.floor("unwraps of ds.op in Boundary::glue / glue_recursively", n, 1)


def run(ctx):
    g = ctx.facts.getters()
    closing_test(ctx, g)
    sentinel_not_unwrapped(ctx, g)
    # (1) reducedness: T1 over the whole crate
    ctx.clauses.append("all returned words are freely reduced (T1, shared with C10)")
    n = t1_write_through(ctx, "T1-write-through", c10.FW, "w", c10.SAN)
    ctx.floor("T1 write sites of FreeWord.w", n, 2)
    tw = ctx.body("fundamental_group::trace_word")
    ret_ty = tw.f["sig"]["output"]
    ctx.require(ret_ty == c10.FW, "T8-word-type", tw.name, "return-type", "traced words are FreeWord values", "trace_word no longer returns a FreeWord: " + ret_ty)

    b = ctx.body(FG)
    ctx.scan([b, tw])
    me = ("param", 1, b.debug.get(1, ""))
    inserts = list(b.calls("BTreeSet::<T, A>::insert"))
    # which sets end up in the returned FundamentalGroup
    res_sets = {}
    for bi, si, s in b.assigns():
        rv = s["rv"]
        if rv["k"] == "aggregate" and rv.get("agg") == "adt" and rv["adt"].endswith("FundamentalGroup"):
            for fname, op in zip(rv["fields"], rv["ops"]):
                t_ = strip(b.def_origin(b.origin(op)))
                while t_[0] == "call" and t_[2]:
                    t_ = strip(b.def_origin(t_[2][0]))
                if t_[0] == "local":
                    res_sets[t_[1]] = fname
    cone_ins, rel_ins = [], []
    for bi, t in inserts:
        v = norm(b.origin(t["args"][1]), g)
        recv = strip(b.origin(t["args"][0]))
        which = res_sets.get(recv[1]) if recv[0] == "local" else None
        if which == "cones" or (which is None and not res_sets and v[0] == "agg" and v[1] == "tuple" and len(v[2]) == 2):
            cone_ins.append((bi, t, v))
        elif which == "relators" or (which is None and not res_sets):
            rel_ins.append((bi, t, v))
    ctx.floor("cone insertions", len(cone_ins), 1)
    ctx.floor("relator insertions", len(rel_ins), 1)

    def find_sub(t, suffix):
        return [s for s in subterms(t) if isinstance(s, tuple) and s and s[0] == "call" and s[1].endswith(suffix)]

    for bi, t in b.calls(exact="fundamental_group::trace_word"):
        every_iteration_reaches(ctx, "T3-no-skipped-orbit", b, bi, "orbit-loop->trace_word", "some 2-orbit representative is skipped: its relator / cone is missing")
    for bi, t in b.calls(exact="fpgroups::free_words::FreeWord::raised_to"):
        every_iteration_reaches(ctx, "T3-no-skipped-orbit", b, bi, "orbit-loop->word.raised_to(v)", "some 2-orbit representative is skipped before its relator word^v is formed: relators / cones of orbits can be dropped")
    for bi, t in b.calls(exact="dsets::DSet::orbit_reps_2d"):
        every_iteration_reaches(ctx, "T3-no-skipped-orbit", b, bi, "index-loop->orbit_reps_2d", "some index pair is skipped: its relators are missing")
    # (3) relators
    ctx.clauses.append("relators: word^degree of the traced 2-orbit word, empty ones dropped (T3)")
    rel_word = rel_deg = None
    for bi, t, v in rel_ins:
        rt = find_sub(v, "FreeWord::raised_to")
        ok_shape = bool(rt)
        ctx.require(ok_shape, "T3-relator-shape", FG, "relators.insert:value", "the relator is (traced word).raised_to(degree)", "the inserted relator is not a power of a traced word: " + show(v, 1)[:100], b.span_of(bi))
        if not rt:
            continue
        rel = rt[0]
        rel_word, rel_deg = rel[2][0], rel[2][1]
        nonempty = holds(b.facts_at(bi), ("rel", "Lt", ("int", 0), ("call", "fpgroups::free_words::FreeWord::len", (rel,))), g)
        ctx.require(nonempty, "T3-relator-nonempty", FG, "relators.insert:guard", "dominated by rel.len() > 0 on the inserted relator", "an empty relator can be inserted (no dominating len() > 0 on the same word)", b.span_of(bi))
        twc = rel_word if rel_word[0] == "call" and rel_word[1].endswith("trace_word") else None
        ctx.require(twc is not None, "T3-relator-shape", FG, "relators.insert:word", "the base word is trace_word(..)", "relator base word is not a traced word: " + show(rel_word, 1)[:80], b.span_of(bi))
        dv = rel_deg
        vcall = dv[2][0] if dv[0] == "call" and dv[1].endswith("::unwrap") else dv
        okdeg = vcall[0] == "call" and vcall[1] == "dsyms::DSym::v" and vcall[2][0] == me
        ctx.require(okdeg, "T3-relator-degree", FG, "relators.insert:exponent", "the exponent is ds.v(i, j, d)", "relator exponent is not the branching number v(i, j, d): " + show(dv, 1)[:80], b.span_of(bi))
        if twc is not None and okdeg:
            i_t, j_t, d_t = vcall[2][1], vcall[2][2], vcall[2][3]
            # trace_word(ds, &edge_to_word, op(i, d), Some(j), Some(i))
            a = twc[2]
            start = a[2]
            st_inner = start[2][0] if start[0] == "call" and start[1].endswith("::unwrap") else start
            ok_start = st_inner[0] == "call" and st_inner[1] == "dsets::DSet::op" and st_inner[2][1] == i_t and st_inner[2][2] == d_t
            some = lambda x: ("agg", "adt:std::option::Option::Some", (x,))
            ok_idx = a[3] == some(j_t) and a[4] == some(i_t)
            ctx.require(ok_start and ok_idx, "T4-relator-trace-args", FG, "trace_word(di, Some(j), Some(i))", "the word is traced from op(i, d) around the index pair (j, i) of the degree used",
                        "the traced word does not belong to the 2-orbit whose branching number is used: start %s, indices %s, %s" % (show(start, 1)[:50], show(a[3], 1)[:40], show(a[4], 1)[:40]), b.span_of(bi))
            # (4) coverage of index pairs and representatives
            ctx.clauses.append("one relator per 2-orbit of every index pair, mirrors included (T4)")
            ri = payload_range(b, i_t, g)
            rj = payload_range(b, j_t, g)
            ok_i = ri is not None and ri[0] == ("int", 0) and ri[2] and (ri[1] == ("call", "dsets::DSet::dim", (me,)) or (ri[1][0] == "field" and ri[1][2] == "dim"))
            ctx.require(ok_i, "T4-index-pairs", FG, "outer-loop", "outer index ranges over 0..=dim()", "outer index loop is not 0..=dim(): %s" % (ri and (show(ri[0], 1), show(ri[1], 1), ri[2]),))
            ok_j = rj is not None and rj[0] == i_t and rj[2] and (rj[1] == ("call", "dsets::DSet::dim", (me,)) or (rj[1][0] == "field" and rj[1][2] == "dim"))
            ctx.require(ok_j, "T4-index-pairs", FG, "inner-loop", "inner index ranges over i..=dim() (i = j mirror relators included)",
                        "inner index loop is not i..=dim(): %s -- relators of some index pairs (e.g. the mirror relators g^2) are missing" % (rj and (show(rj[0], 1), show(rj[1], 1), rj[2]),))
            src = iter_source(b, d_t, g)
            ok_r = src is not None and src[0] == "call" and src[1] == "dsets::DSet::orbit_reps_2d" and list(src[2]) == [me, i_t, j_t]
            ctx.require(ok_r, "T4-orbit-reps", FG, "orbit_reps_2d(i, j)", "representatives come from orbit_reps_2d(i, j) for the same two indices",
                        "2-orbit representatives are not orbit_reps_2d(i, j) of the indices used for v: " + (show(src, 1)[:80] if src else "?"))

    # (2) cones
    ctx.clauses.append("cone list = branched 2-orbits with their branching number (T3)")
    for bi, t, v in cone_ins:
        w, deg = v[2]
        okg = holds(b.facts_at(bi), ("rel", "Lt", ("int", 1), deg), g)
        ctx.require(okg, "T3-cone-guard", FG, "cones.insert:guard", "dominated by degree > 1 on the inserted degree",
                    "a cone is recorded without the test degree > 1 on the recorded degree (unbranched orbits would be listed)", b.span_of(bi))
        ctx.require(rel_deg is not None and deg == rel_deg, "T3-cone-degree", FG, "cones.insert:degree", "the recorded order is the exponent v(i, j, d) used for the relator of the same orbit",
                    "the recorded cone order is not the branching number of that orbit: " + show(deg, 1)[:80], b.span_of(bi))
        rep = find_sub(w, "relator_representative")
        inner = rep[0][2][0] if rep else w
        ctx.require(rel_word is not None and inner == rel_word, "T3-cone-word", FG, "cones.insert:word", "the recorded word is the traced word of the same orbit",
                    "the recorded cone word is not the word traced around that orbit: " + show(w, 1)[:80], b.span_of(bi))

    # (5) mutual inverses in find_generators
    ctx.clauses.append("the two sides of a facet carry mutually inverse words (T3)")
    fg = ctx.body(FGEN)
    ctx.scan([fg])
    ins = []
    for bi, t in fg.calls("BTreeMap::<K, V, A>::insert"):
        a = [norm(fg.origin(x), g) for x in t["args"]]
        if a[0][0] == "local" and a[0][2] == "edge_to_word" or (len(a) == 3 and a[1][0] == "agg" and len(a[1][2]) == 2 and a[2][0] == "call"):
            ins.append((bi, a))
    gens = [(bi, a) for bi, a in ins if a[2][0] == "call" and a[2][1].endswith("convert::From::from")]
    glued = [(bi, a) for bi, a in ins if (bi, a) not in gens]
    ctx.floor("edge_to_word insertions in find_generators", len(ins), 4)

    def letter(a):
        x = a[2][2][0]
        return x[2][0] if x[0] == "agg" and len(x[2]) == 1 else x
    okgen = False
    if len(gens) == 2:
        l0, l1 = letter(gens[0][1]), letter(gens[1][1])
        neg = lambda x, y: (x[0] == "unop" and x[1] == "Neg" and x[2] == y)
        okgen = neg(l0, l1) or neg(l1, l0)
    ctx.require(okgen, "T3-generator-sides", FGEN, "insert([g]) / insert([-g])", "a new generator facet gets [g] on one side and [-g] on the other",
                "the two sides of a generator facet do not carry g and -g: " + "; ".join(show(a[2], 1)[:50] for bi, a in gens))
    okgl = False
    if len(glued) == 2:
        w0, w1 = glued[0][1][2], glued[1][1][2]
        inv = lambda x, y: x[0] == "call" and x[1].endswith("FreeWord::inverse") and x[2][0] == y
        okgl = inv(w0, w1) or inv(w1, w0)
        # and the keys are (e, i) and (op(i, e), i)
        k0, k1 = glued[0][1][1], glued[1][1][1]
        def opp(ka, kb):
            x = kb[2][0]
            x = x[2][0] if x[0] == "call" and x[1].endswith("::unwrap") else x
            return x[0] == "call" and x[1] == "dsets::DSet::op" and x[2][1] == ka[2][1] and x[2][2] == ka[2][0] and kb[2][1] == ka[2][1]
        okgl = okgl and (opp(k0, k1) or opp(k1, k0))
    ctx.require(okgl, "T3-glued-sides", FGEN, "insert(w.inverse()) / insert(w)", "a glued facet (e, i) / (op(i, e), i) gets w.inverse() and w for the same traced word",
                "the two sides of a glued facet do not carry mutually inverse words: " + "; ".join(show(a[2], 1)[:50] for bi, a in glued))
