"""C03 - canonical form is invariant under renumbering: label opacity of the traversal-code pipeline (DESIGN 4/C03)."""
import json, os
from ..core import *
from ..templates import *

SCOPE_PATS = ["dsets::Traversal", "dsyms::TraversalCode", "dsyms::compare_codes", "dsyms::minimal_traversal_code", "derived::canonical"]
ORD = {"Lt", "Le", "Gt", "Ge", "Cmp", "Add", "Sub", "Mul", "Div", "Rem", "AddWithOverflow", "SubWithOverflow", "MulWithOverflow",
       "BitAnd", "BitOr", "BitXor", "Shl", "Shr"}
ORDERED_CALLS = ("cmp::Ord::", "cmp::PartialOrd::", "::sort", "collections::BTreeMap", "collections::BTreeSet", "collections::BinaryHeap",
                 "::binary_search", "Iterator::max", "Iterator::min", "cmp::min", "cmp::max", "Ord>::min", "Ord>::max", "::is_sorted", "Iterator::rev")
LABEL_PARAMS = {"seed", "seeds"}
INDEX_PARAMS = {"i", "j", "k", "index", "indices", "idx"}
NONLABEL_FIELDS = {"next_element", "size", "dim", "buffer", "element_map", "indices"}
TABLE = os.path.join(os.path.dirname(os.path.dirname(__file__)), "tables", "c03_census.json")

EXPLANATION = (
    "Decided, conditionally on traversal coverage (step 3 below, which is C02's traversal law and is NOT decided): every renumbering yields the "
    "same canonical form. (1) label opacity (T6a): in Traversal::{new,next}, TraversalCode::{new,advance,get,get_code,get_map}, "
    "minimal_traversal_code, compare_codes, canonical and their closures, the census of ordering comparisons, arithmetic and ordered-container "
    "operations has no operand whose origin is a chamber label (payload of DSet::op, the seed iterator, the todo deques, fields 1-2 of a "
    "traversal item, seed parameters); labels only flow into ==, hashing, indexing and DSet queries, so by parametricity code(pi.ds, pi(s)) = "
    "code(ds, s) and map_{pi(s)} o pi = map_s for every relabelling pi. (2) the minimum is over all seeds: initial seed constant 1, loop "
    "2..=size() inclusive, replacement on compare_codes(..) < 0, and compare_codes returns the first non-zero difference of the two codes at "
    "equal positions. (T2) the code depends on operations and branching numbers: advance pushes the index and both mapped endpoints of every "
    "edge and v(i, i+1, d) for every index pair of each newly numbered chamber. (3) two seeds with equal codes give equal relabelled symbols "
    "provided the code lists every operation entry - assumed. NOT decided: canonical form isomorphic to input, fixed point, equal forms => "
    "isomorphic (these are step 3).")
TRUSTED = ["rustc MIR lowering", "parametricity argument for opaque label use", "HashSet iteration order is never observed (checked: no iteration over `seen`)",
           "classification table of value roots (labels vs indices vs canonical numbers), sa/tables/c03_census.json for operands the classifier cannot root"]
ASSUMPTIONS = ["traversal coverage (C02): the traversal reports every i-edge of the component exactly once"]


class Classifier:
    def __init__(self, ctx, g):
        self.ctx = ctx
        self.g = g

    def cls(self, body, t, depth=0):
        """-> set of 'L' (label), 'N' (not a label), 'U' (unknown)"""
        if depth > 10:
            return {"U"}
        t = strip(t)
        k = t[0]
        if k in ("int", "str", "tyconst", "constdef", "fn"):
            return {"N"}
        if k == "param":
            nm = t[2]
            if nm in LABEL_PARAMS:
                return {"L"}
            if nm in INDEX_PARAMS:
                return {"N"}
            ty = body.local_ty(t[1])
            if "usize" not in ty and "isize" not in ty:
                return {"N"}
            return {"U"}
        if k == "local":
            defs = body.all_defs_origins(t[1])
            if not defs:
                return {"U"}
            out = set()
            for _, d in defs[:6]:
                if contains(d, lambda s: s == t):
                    sub = map_term(d, lambda n: ("int", 0) if n == t else None)
                    out |= self.cls(body, sub, depth + 1)
                else:
                    out |= self.cls(body, d, depth + 1)
            return out
        if k == "cast":
            return self.cls(body, t[1], depth + 1)
        if k in ("binop",):
            return self.cls(body, t[2], depth + 1) | self.cls(body, t[3], depth + 1)
        if k == "unop":
            return self.cls(body, t[2], depth + 1)
        if k == "variant":
            return self.cls(body, t[1], depth + 1)
        if k == "discr":
            return {"N"}
        if k == "agg":
            out = set()
            for a in t[2]:
                out |= self.cls(body, a, depth + 1)
            return out or {"N"}
        if k == "field":
            if t[2] in NONLABEL_FIELDS:
                return {"N"}
            base = strip(t[1])
            # item of the traversal: (Option<index>, label, label)
            if base[0] == "variant" and self.is_traversal_item(body, base):
                return {"ITEM"}          # the whole (Option<index>, label, label) tuple
            if self.is_traversal_item(body, base):
                return {"N"} if str(t[2]) == "0" else {"L"}
            if base[0] == "binop":
                return self.cls(body, base, depth + 1)
            return self.cls(body, base, depth + 1)
        if k == "index":
            return self.cls(body, t[1], depth + 1)
        if k == "call":
            n = t[1]
            args = t[2]
            if n in ("dsets::DSet::op",):
                return {"L"}
            if n in ("dsets::DSet::size", "dsets::DSet::dim", "dsyms::DSym::v", "dsets::DSet::m", "dsets::DSet::r") or n.endswith("::len") or n.endswith("::is_empty") \
                    or n.endswith("compare_codes") or n.endswith("TraversalCode::<'a, T>::get"):
                return {"N"}
            if n.endswith("pop_front") or n.endswith("pop_back"):
                return {"L"}
            if n.endswith("Iterator::next") or n.endswith("Iterator::find") or n.endswith("::iter") or n.endswith("::get_mut") or n.endswith("::get"):
                r = self.recv_root(body, args[0])
                if r == "seeds":
                    return {"L"}
                if r in ("indices", "todo-keys", "range"):
                    return {"N"}
                if r == "traversal":
                    return {"ITEM"}
                if n.endswith("::get") or n.endswith("::get_mut"):
                    return self.cls(body, args[0], depth + 1)
                return {"U"}
            if n.endswith("ops::Index::index") or n.endswith("ops::IndexMut::index_mut"):
                base = strip(args[0])
                nm = base[2] if base[0] in ("field", "local", "param") else ""
                if nm in ("element_map", "buffer", "src2img"):
                    return {"N"}       # canonical numbers / code values
                if nm in ("img2src",):
                    return {"L"}
                return self.cls(body, args[0], depth + 1)
            if any(n.endswith(s) for s in ("::unwrap", "::expect", "::cloned", "::copied", "::unwrap_or", "::unwrap_or_default", "Clone::clone", "::into_iter", "convert::Into::into")):
                out = set()
                for a in args:
                    out |= self.cls(body, a, depth + 1)
                return out
            if any(n.endswith(s) for s in ("::and_then", "::map", "::filter", "::find", "::is_some_and")):
                out = set()
                for a in args:
                    cp = closure_parts(a)
                    if cp:
                        cb = self.ctx.facts.bodies.get(cp[0])
                        if cb is not None:
                            out |= self.cls(cb, cb.local_origin(0), depth + 1)
                    else:
                        out |= self.cls(body, a, depth + 1)
                return out
            if "RangeInclusive" in n or n.endswith("Range::Range"):
                out = set()
                for a in args:
                    out |= self.cls(body, a, depth + 1)
                return out
            return {"U"}
        return {"U"}

    def is_traversal_item(self, body, base):
        b = strip(base)
        if b[0] == "field" and str(b[2]) == "0":      # payload tuple of Some(..)
            b = strip(b[1])
        if b[0] == "variant":
            c = strip(b[1])
            if c[0] == "call" and c[1].endswith("Iterator::next") and self.recv_root(body, c[2][0]) == "traversal":
                return True
        return False

    def recv_root(self, body, recv):
        r = strip(recv)
        r0 = strip(body.def_origin(r)) if r[0] == "local" else r
        seen = 0
        while seen < 12:
            seen += 1
            if r0[0] == "field" and r0[2] in ("seeds", "traversal", "indices"):
                return r0[2]
            if r0[0] == "field" and r0[2] == "todo":
                return "todo-keys"
            if r0[0] == "agg" and isinstance(r0[1], str) and r0[1].endswith("Range::Range"):
                return "range"
            if r0[0] == "call" and ("RangeInclusive" in r0[1] or "RangeFrom" in r0[1]):
                return "range"
            if r0[0] == "agg" and isinstance(r0[1], str) and "RangeFrom" in r0[1]:
                return "range"
            if r0[0] == "call" and r0[2]:
                nxt = strip(r0[2][0])
                r0 = strip(body.def_origin(nxt)) if nxt[0] == "local" else nxt
                continue
            if r0[0] in ("field", "variant", "index"):
                r0 = strip(r0[1])
                continue
            if r0[0] == "local":
                d = strip(body.def_origin(r0))
                if d == r0:
                    return None
                r0 = d
                continue
            return None
        return None


def census(ctx, g):
    scope = sorted(d for d in ctx.facts.bodies if any(p in d for p in SCOPE_PATS))
    out = []
    for d in scope:
        b = ctx.facts.bodies[d]
        for bi, si, s in b.assigns():
            rv = s["rv"]
            if rv["k"] == "binop" and rv["op"] in ORD:
                out.append((b, bi, rv["op"], [b.origin(rv["a"]), b.origin(rv["b"])], b.span_of(bi, si)))
        for bi, t in b.calls():
            n = t["callee"].get("path_with_args", "")
            if any(x in n for x in ORDERED_CALLS):
                # receiver of a container method is not an operand; keys/values are
                args = [b.origin(a) for a in t["args"]]
                cal = t["callee"].get("def", "")
                if ("BTreeMap" in n or "BTreeSet" in n or "BinaryHeap" in n) and args:
                    args = args[1:]
                out.append((b, bi, "call:" + cal.split("::")[-1] + "@" + ("BTree" if "BTree" in n else n.split("::")[-2] if "::" in n else n), args, b.span_of(bi)))
    return scope, out


def sig_of(b, op, args, g):
    def sh(t):
        t = norm(t, g)
        return show(t, 1)[:70].replace("iter_%s" % "", "iter")
    import re
    return "%s|%s|%s" % (b.name, op, " , ".join(re.sub(r"_\d+", "", sh(a)) for a in args))


def run(ctx):
    g = ctx.facts.getters()
    scope, cen = census(ctx, g)
    for need in ["<dsets::Traversal<'a, T, I> as std::iter::Iterator>::next", "dsyms::TraversalCode::<'a, T>::advance", "dsyms::minimal_traversal_code",
                 "dsyms::compare_codes", "derived::canonical", "dsets::Traversal::<'a, T, I>::new", "dsyms::TraversalCode::<'a, T>::new"]:
        ctx.body(need)
    ctx.scan(ctx.facts.bodies[d] for d in scope)
    ctx.clauses.append("label opacity of the canonical-form pipeline: equivariance under renumbering (T6a)")
    table = set(json.load(open(TABLE))["confirmed_nonlabel"]) if os.path.exists(TABLE) else set()
    C = Classifier(ctx, g)
    for b, bi, op, args, span in cen:
        cl = set()
        for a in args:
            cl |= C.cls(b, a)
        sig = sig_of(b, op, args, g)
        site = sig.split("|", 1)[1]
        if "L" in cl or "ITEM" in cl:
            ctx.ob("T6-label-opaque", b.name, site, "violation",
                   "an ordering/arithmetic/ordered-container operation has an operand that originates from a chamber label; the traversal code then depends on the numbering of the input", span)
        elif "U" in cl:
            if sig in table:
                ctx.ob("T6-label-opaque", b.name, site, "ok", "operand roots confirmed by reading to be indices / canonical numbers (frozen census entry)", span)
            else:
                ctx.ob("T6-label-opaque", b.name, site, "undecided", "operand origin could not be classified as label or non-label", span)
        else:
            ctx.ob("T6-label-opaque", b.name, site, "ok", "all operand roots are indices, sizes, constants, canonical numbers or code values", span)
    ctx.floor("census of ordering/arithmetic/ordered-container operations", len(cen), 10)
    # `seen` must never be iterated (its order would leak hash order)
    nx = ctx.body("<dsets::Traversal<'a, T, I> as std::iter::Iterator>::next")
    it = [t for bi, t in nx.calls() if any(x in t["callee"].get("path_with_args", "") for x in ("HashSet", "HashMap")) and
          any(t["callee"].get("def", "").endswith(m) for m in ("::iter", "::into_iter", "::drain", "::iter_mut", "::retain"))]
    ctx.require(not it, "T6-no-hash-iteration", nx.name, "HashSet:iter", "the seen-set is only queried and extended", "the traversal iterates over a hash container: output order depends on hash order")

    minimum(ctx, g)
    not_truncated(ctx, g)
    compare_exhaustive(ctx, g)
    structural_equality(ctx, g)
    canonical_renumbering(ctx, g)
    code_numbering(ctx, g)
    ctx.floor("chamber-indexed tables in canonical", chamber_tables(ctx, "T4-chamber-table", ctx.body("derived::canonical"), g), 1)
    code_content(ctx, g)


def minimum(ctx, g):
    ctx.clauses.append("the minimum is taken over all seeds (T4)")
    b = ctx.body("dsyms::minimal_traversal_code")
    news = list(b.calls(exact="dsyms::TraversalCode::<'a, T>::new"))
    ctx.floor("TraversalCode::new calls in minimal_traversal_code", len(news), 2)
    me = ("param", 1, b.debug.get(1, ""))
    init_ok = loop_ok = False
    for bi, t in news:
        s = norm(b.origin(t["args"][1]), g)
        if s == ("int", 1):
            init_ok = True
        else:
            r = loop_range_of_payload(b, b.origin(t["args"][1]), g)
            if r is not None and r[0] == ("int", 2) and r[2] and r[1] == ("call", "dsets::DSet::size", (me,)):
                loop_ok = True
            else:
                ctx.ob("T4-all-seeds", b.name, "seed-loop", "violation", "seeds tried are not 2..=size(): %s" % (r and (show(r[0], 1), show(r[1], 1), "inclusive" if r[2] else "exclusive"),), b.span_of(bi))
    ctx.require(init_ok, "T4-all-seeds", b.name, "initial-seed", "the initial best code starts at chamber 1", "the initial candidate is not seed 1")
    # must-pass-through: every iteration of the seed loop reaches the comparison with the running best (no pruning `continue`)
    cmp_blocks = [bi for bi, t in b.calls(exact="dsyms::compare_codes")]
    for bi, t in news:
        lb = loop_blocks_of_payload(b, b.origin(t["args"][1]))
        if lb is None:
            continue
        header, entry = lb
        ok = len(cmp_blocks) >= 1 and all(must_pass_through(b, entry, c, header) for c in cmp_blocks[:1])
        ctx.ob("T3-every-seed-compared", b.name, "seed-loop->compare_codes", "ok" if ok else "violation",
               "every iteration of the seed loop reaches compare_codes(candidate, best)" if ok else
               "some path through the seed loop skips the comparison with the running best (a seed can be discarded without its code being compared): the minimum is not over all seeds", b.span_of(bi))
    if loop_ok:
        ctx.ob("T4-all-seeds", b.name, "seed-loop", "ok", "remaining seeds are the inclusive range 2..=size()")
    # replacement under compare_codes(trav, best) < 0
    rep_ok = False
    ret_local = strip(b.local_origin(0))
    best_l = ret_local[1] if ret_local[0] == "local" else None
    for bi, si, s in b.assigns():
        if s["place"]["l"] == best_l and not s["place"]["p"] and bi != 0 and (loop_containing(b, bi) is not None):
            for a in b.facts_at(bi):
                a = atom_norm(a, g)
                if a[0] == "rel" and a[1] == "Lt" and a[3] == ("int", 0) and a[2][0] == "call" and a[2][1].endswith("compare_codes"):
                    rep_ok = True
    ctx.require(rep_ok, "T3-strict-replacement", b.name, "best = trav", "the best code is replaced only when the candidate compares strictly smaller",
                "replacement of the best code is not guarded by compare_codes(trav, best) < 0")
    cc = ctx.body("dsyms::compare_codes")
    ctx.scan([b, cc])
    # compare_codes returns the difference of the entries at the same position
    dif_ok = False
    for bi, si, s in cc.assigns():
        rv = s["rv"]
        if rv["k"] == "binop" and rv["op"] in ("Sub", "SubWithOverflow"):
            x, y = norm(cc.origin(rv["a"]), g), norm(cc.origin(rv["b"]), g)
            gx = [t for t in subterms(x) if t[0] == "call" and t[1].endswith("TraversalCode::<'a, T>::get")]
            gy = [t for t in subterms(y) if t[0] == "call" and t[1].endswith("TraversalCode::<'a, T>::get")]
            if gx and gy and gx[0][2][1] == gy[0][2][1] and gx[0][2][0] == ("param", 1, cc.debug.get(1, "")) and gy[0][2][0] == ("param", 2, cc.debug.get(2, "")):
                dif_ok = True
    ctx.require(dif_ok, "T3-compare-same-position", cc.name, "get(i) - get(i)", "codes are compared entry by entry at equal positions, candidate minus best",
                "compare_codes does not subtract the best code's entry from the candidate's entry at the same position")


def compare_exhaustive(ctx, g):
    """compare_codes declares a tie only when the candidate's code is exhausted: the comparison loop walks positions 0, 1, 2, .. without an
    a-priori bound and is left only on a difference or when trav.get(i) is None (a computed length bound is a truncation: fixed points of
    the operations make codes longer than any formula that counts half an edge per chamber and index)"""
    ctx.clauses.append("compare_codes compares every position until the candidate's code ends (T3)")
    cc = ctx.body("dsyms::compare_codes")
    trav, best = ("param", 1, cc.debug.get(1, "")), ("param", 2, cc.debug.get(2, ""))
    gets = [(bi, [norm(cc.origin(x), g) for x in t["args"]]) for bi, t in cc.calls(exact="dsyms::TraversalCode::<'a, T>::get")]
    pos = [a[1] for bi, a in gets if a[0] == trav]
    ctx.floor("trav.get(i) calls in compare_codes", len(pos), 1)
    unbounded = False
    for p_ in pos[:1]:
        r = loop_range_of_payload(cc, p_, g)
        if r is not None:
            ok = r[0] == ("int", 0) and r[1] is None
            unbounded = r[1] is None
            ctx.ob("T3-compare-all-positions", cc.name, "positions", "ok" if ok else "violation",
                   "positions compared are 0.. (unbounded; the loop ends when the code does)" if ok else
                   "positions compared are %s..%s: %s" % (show(r[0], 1), show(r[1], 1)[:60] if r[1] is not None else "", "entry 0.. is skipped" if r[1] is None else
                                                         "codes longer than the bound are compared on a prefix only, inequivalent seeds tie and the canonical form depends on the numbering"))
        elif p_[0] == "local":
            defs = [norm(d, g) for _, d in cc.all_defs_origins(p_[1])]
            inc = [d for d in defs if unov_(d)[0] == "binop" and unov_(d)[1] == "Add" and ("int", 1) in unov_(d)[2:] and p_ in unov_(d)[2:]]
            ok = ("int", 0) in defs and len(inc) == 1 and len(defs) == 2
            ctx.ob("T3-compare-all-positions", cc.name, "positions", "ok" if ok else "violation",
                   "positions compared are a counter from 0 in steps of 1" if ok else "the position counter is not (0, then +1): %s" % [show(d, 1)[:30] for d in defs])
        else:
            ctx.ob("T3-compare-all-positions", cc.name, "positions", "violation", "the compared position is neither a range payload nor a counter: " + show(p_, 1)[:60])
    lps = natural_loops(cc)
    ctx.floor("loops in compare_codes", len(lps), 1)
    for h, blocks in lps:
        bad = []
        for (a, s_), atoms in loop_exit_atoms(cc, h, blocks, g):
            ok = False
            for at in atoms:
                if at[0] in ("variant", "notvariant") and at[1][0] == "call" and at[1][1].endswith("TraversalCode::<'a, T>::get") and at[1][2][0] == trav and \
                        (at == ("variant", at[1], 0) or at == ("notvariant", at[1], (1,))):
                    ok = True                                   # the candidate's code is exhausted
                if at[0] == "rel" and at[1] == "Ne" and at[3] == ("int", 0) and contains(at[2], lambda x: x[0] == "call" and x[1].endswith("::get") and x[2][0] == trav) \
                        and contains(at[2], lambda x: x[0] == "call" and x[1].endswith("::get") and x[2][0] == best):
                    ok = True                                   # a difference decides
                if at[0] == "notvariant" and at[2] == (0, 1):
                    ok = True                                   # the unreachable arm of a two-variant match
                if unbounded and at[0] == "variant" and at[2] == 0 and at[1][0] == "call" and at[1][1].endswith("Iterator::next"):
                    ok = True                                   # RangeFrom never ends; the edge exists in the CFG only
            if not ok:
                bad.append("bb%d->bb%d on %s" % (a, s_, "; ".join(show_atom(x)[:60] for x in atoms) or "unconditional"))
        ctx.ob("T3-compare-all-positions", cc.name, "loop exits", "ok" if not bad else "violation",
               "the comparison ends only on a difference or when the candidate's code is exhausted" if not bad else
               "the comparison loop can be left for another reason (%s): a tie is declared on a prefix" % bad[0])


def unov_(t):
    return ("binop", t[1][1].replace("WithOverflow", ""), t[1][2], t[1][3]) if t[0] == "field" and str(t[2]) == "0" and t[1][0] == "binop" else t


def structural_equality(ctx, g):
    """`canonical(a) == canonical(b)` decides isomorphism only if == on symbols looks at everything: the operations AND the branching numbers.
    PartialEq for the symbol / set types is derived (field-wise over all fields), or - if written by hand - compares every field of the type"""
    ctx.clauses.append("== on symbols is structural: PartialEq is derived, or a hand-written eq compares every field (T8)")
    for ty in ("dsyms::PartialDSym", "dsets::SimpleDSet"):
        im = [i for i in ctx.facts.impls if i.get("trait") == "std::cmp::PartialEq" and i["self_ty"] == ty]
        adt = ctx.facts.adts.get(ty)
        if adt is None:
            raise AnchorMissing(ty)
        fields = [f["name"] for v in adt["variants"] for f in v["fields"]]
        # orbit_index / orbit_rs are computed from dset alone (collect_orbits in PartialDSym::new, never written afterwards): an eq that skips them decides the same relation
        needed = [f for f in fields if not (ty == "dsyms::PartialDSym" and f in ("orbit_index", "orbit_rs"))]
        if not im:
            ctx.ob("T8-structural-equality", ty, "PartialEq", "violation", "no PartialEq impl found for %s" % ty)
            continue
        if all(i["derived"] for i in im):
            ctx.ob("T8-structural-equality", ty, "PartialEq", "ok", "derived: field-wise over %s" % fields)
            continue
        b = ctx.facts.bodies.get("<%s as std::cmp::PartialEq>::eq" % ty)
        compared = set()
        if b is not None:
            ctx.scan([b])
            me, ot = ("param", 1, b.debug.get(1, "")), ("param", 2, b.debug.get(2, ""))
            pairs = []
            for bi, t in b.calls():
                if t["callee"].get("def", "").endswith("PartialEq::eq") or t["callee"].get("def", "").endswith("PartialEq::ne"):
                    pairs.append([strip(norm(b.origin(x), g)) for x in t["args"]])
            for bi, si, s in b.assigns():
                rv = s["rv"]
                if rv["k"] == "binop" and rv["op"] in ("Eq", "Ne"):
                    pairs.append([strip(norm(b.origin(rv["a"]), g)), strip(norm(b.origin(rv["b"]), g))])
            for a in pairs:
                for f in fields:
                    if {a[0], a[1]} == {("field", me, f), ("field", ot, f)}:
                        compared.add(f)
        missing = [f for f in needed if f not in compared]
        ctx.ob("T8-structural-equality", ty, "PartialEq", "ok" if not missing else "violation",
               "hand-written eq compares every field" if not missing else
               "the hand-written == of %s does not compare %s with the same field of the other value: symbols that differ only there compare equal, so equal canonical forms no longer imply isomorphism" % (ty.split("::")[-1], missing))


def canonical_renumbering(ctx, g):
    """canonical(ds) is ds renumbered by the map of the minimal traversal code: src2img = minimal_traversal_code(ds).get_map(), img2src its inverse
    (img2src[src2img[d]] = d for every chamber), and the rebuilt symbol has the operations and branching numbers of ds under that renumbering"""
    ctx.clauses.append("canonical(): the symbol rebuilt under the renumbering of the minimal traversal code, with img2src the inverse of src2img over all chambers (T9)")
    b = ctx.body("derived::canonical")
    ctx.scan(ctx.facts.with_closures(b.name))
    ds = ("param", 1, b.debug.get(1, ""))
    maps = renumbered_builder(ctx, "T9-canonical-renumbering", b, g)
    if maps is None:
        return
    src2img, img2src = maps
    bad = None
    s2 = strip(norm(b.def_origin(src2img), g)) if src2img[0] == "local" else src2img
    if not (is_call(s2, "TraversalCode::<'a, T>::get_map") or is_call(s2, "get_map")) or not contains(s2, lambda y: is_call(y, "dsyms::minimal_traversal_code") and strip(y[2][0]) == ds):
        # get_map's receiver is a temporary: follow it
        recv = strip(s2[2][0]) if s2[0] == "call" and s2[2] else None
        recv = strip(norm(b.def_origin(recv), g)) if recv is not None and recv[0] == "local" else recv
        if not (s2[0] == "call" and s2[1].endswith("get_map") and recv is not None and is_call(recv, "dsyms::minimal_traversal_code") and strip(recv[2][0]) == ds):
            bad = "src2img is not minimal_traversal_code(ds).get_map(): %s" % show(s2, 1)[:60]
    stores = []
    for bi, si, s in b.assigns():
        if [e["k"] for e in s["place"]["p"]] == ["deref"]:
            tgt = strip(norm(b.local_origin(s["place"]["l"]), g))
            if is_call(tgt, "IndexMut::index_mut"):
                stores.append((bi, strip(tgt[2][0]), strip(tgt[2][1]), strip(norm(b.rv_origin(s["rv"]), g))))
    if not bad:
        if len(stores) != 1:
            bad = "%d indexed stores (expected img2src[src2img[d]] = d)" % len(stores)
        else:
            bi, arr, key, val = stores[0]
            r = loop_range_of_payload(b, val, g)
            ki = as_index(key)
            okk = ki is not None and strip(ki[1]) == val and (ki[0] == src2img or strip(norm(b.def_origin(ki[0]), g)) == s2)
            if arr != img2src or not okk:
                bad = "the inverse map is not filled as img2src[src2img[d]] = d: %s[%s] = %s" % (show(arr, 1)[:20], show(key, 1)[:30], show(val, 1)[:20])
            elif not (r and eval_int(r[0]) == 1 and r[2] and is_call(strip(r[1]), "::size")):
                bad = "the inverse map is not filled for every chamber 1..=size()"
    ctx.ob("T9-canonical-renumbering", b.name, "maps", "ok" if not bad else "violation",
           "src2img = minimal_traversal_code(ds).get_map(); img2src[src2img[d]] = d for d in 1..=size()" if not bad else bad)


def code_numbering(ctx, g):
    """the traversal code of a seed: chambers are numbered 1, 2, .. in the order the traversal first reaches them (element_map[d] set once, when still 0,
    to next_element; next_element advanced by exactly 1 for exactly the chambers just numbered), over ALL operations 0..=dim(); a seed item is
    coded with a negative marker (it must sort before every operation index 0..); two codes that agree on every position of the shorter one
    compare as equal (0)"""
    ctx.clauses.append("traversal code: all operations 0..=dim; consecutive numbering from 1 in order of first visit; negative seed marker; exhausted comparison answers 0 (T4)")
    T = "dsyms::TraversalCode::<'a, T>::"
    nb = ctx.body(T + "new")
    ds, seed = ("param", 1, nb.debug.get(1, "")), ("param", 2, nb.debug.get(2, ""))
    bad = None
    tr = [[strip(norm(nb.origin(x), g)) for x in t["args"]] for bi, t in nb.calls("DSet::traversal")]
    ag = [s["rv"] for bi, si, s in nb.assigns() if s["rv"]["k"] == "aggregate" and s["rv"].get("agg") == "adt" and s["rv"].get("adt", "").endswith("TraversalCode")]
    if len(tr) != 1 or len(ag) != 1:
        bad = "not one traversal and one TraversalCode { .. }"
    else:
        r = tr[0][1]
        okr = is_call(r, "RangeInclusive::<Idx>::new") and eval_int(r[2][0]) == 0 and is_call(strip(r[2][1]), "::dim")
        seeds = tr[0][2]
        fields = dict(zip(ag[0]["fields"], [strip(norm(nb.origin(o), g)) for o in ag[0]["ops"]]))
        if not okr:
            bad = "the code does not traverse all operations 0..=dim()"
        elif not (seeds[0] == "agg" and [strip(x) for x in seeds[2]] == [seed]):
            bad = "the traversal is not seeded with the given chamber alone"
        elif eval_int(fields.get("next_element", ("?",))) != 1:
            bad = "numbering does not start at 1 (0 means `not numbered yet`)"
        elif chamber_tables(ctx, "T4-chamber-table", nb, g, fill=0) != 1:
            bad = "element_map is not one chamber-indexed table"
    ctx.ob("T4-code-numbering", nb.name, "new", "ok" if not bad else "violation", "traversal(0..=dim(), [seed]); next_element = 1; element_map = vec![0; size() + 1]" if not bad else bad)
    ab = ctx.body(T + "advance")
    me = ("param", 1, ab.debug.get(1, ""))
    emap, nxt = ("field", me, "element_map"), ("field", me, "next_element")
    bad = None
    stores = []
    for bi, si, s in ab.assigns():
        pl = s["place"]["p"]
        if [e["k"] for e in pl] == ["deref"]:
            tgt = strip(norm(ab.local_origin(s["place"]["l"]), g))
            if is_call(tgt, "IndexMut::index_mut") and strip(tgt[2][0]) == emap:
                stores.append((bi, strip(tgt[2][1]), strip(norm(ab.rv_origin(s["rv"]), g))))
    incs = [(bi, unov_deep(strip(norm(ab.rv_origin(s["rv"]), g)))) for bi, si, s in ab.assigns() if [e["k"] for e in s["place"]["p"]] in (["deref", "field"], ["field"]) and s["place"]["p"][-1].get("name") == "next_element"]
    if len(stores) != 1 or stores[0][2] != nxt:
        bad = "a chamber is not numbered by element_map[d] = next_element"
    elif len(incs) != 1 or incs[0][1] != ("binop", "Add", nxt, ("int", 1)):
        bad = "next_element is not advanced by exactly 1: %s" % [show(x[1], 1)[:40] for x in incs]
    else:
        sb_, dch, _ = stores[0]
        ent = [y for x in ab.facts_at(sb_) for y in subterms(("agg", "x", tuple(z for z in atom_norm(x, g)[1:] if isinstance(z, tuple)))) if isinstance(y, tuple) and as_index(y) and as_index(y)[0] == emap and strip(as_index(y)[1]) == dch]
        ent = ent[0] if ent else None
        for ev_, want in ((0, True), (1, False), (4, False)):
            r = reachable_sites(ab, g, {sb_}, lambda y, ev_=ev_: ev_ if y == ent else None)
            if ent is None or (sb_ in r) != want:
                bad = bad or "a chamber whose entry is %d %s numbered (only entries 0 = not yet numbered)" % (ev_, "is" if ent is not None and sb_ in r else "is not")
        ib = incs[0][0]
        fa = [atom_norm(x, g) for x in ab.facts_at(ib)]
        fresh = any(x[0] == "rel" and x[1] == "Eq" and nxt in (strip(x[2]), strip(x[3])) and any(as_index(strip(z)) and as_index(strip(z))[0] == emap for z in (x[2], x[3])) for x in fa)
        if not bad and not fresh:
            bad = "next_element is not advanced exactly for the chamber just numbered (element_map[d] == next_element)"
        # the seed marker
        if not bad:
            consts = [eval_int(strip(norm(ab.origin(t["args"][1]), g))) for bi, t in ab.calls("Vec::<T, A>::push")]
            consts = [c for c in consts if c is not None]
            if len(consts) != 1 or consts[0] >= 0:
                bad = "a seed item is not coded with one negative marker (it must differ from, and sort before, every operation index): %s" % consts
    ctx.ob("T4-code-numbering", ab.name, "numbering", "ok" if not bad else "violation", "numbered iff entry == 0; next_element += 1 iff just numbered; negative seed marker" if not bad else bad)
    cb = ctx.body("dsyms::compare_codes")
    rets = [(dbb, strip(norm(d, g))) for dbb, d in cb.all_defs_origins(0)]
    consts = [eval_int(d) for dbb, d in rets if eval_int(d) is not None]
    ok = consts and all(c == 0 for c in consts) and len([1 for dbb, d in rets if eval_int(d) is None]) == 1
    ctx.ob("T4-code-numbering", cb.name, "exhausted -> 0", "ok" if ok else "violation",
           "codes that agree on the whole of the shorter one compare as 0; otherwise the first difference" if ok else "compare_codes does not answer 0 when no difference was found: constants returned %s" % consts)


def not_truncated(ctx, g):
    """the lazily generated code is only cut where the caller asked (position i exists) or where the traversal is exhausted"""
    ctx.clauses.append("the traversal code is never truncated: loops in get / get_code / get_map exit only on exhaustion or when the requested position exists (T3)")
    for fn in ("get", "get_code", "get_map"):
        b = ctx.body("dsyms::TraversalCode::<'a, T>::" + fn)
        ctx.scan([b])
        me = ("param", 1, b.debug.get(1, ""))
        adv = ("call", "dsyms::TraversalCode::<'a, T>::advance", (me,))
        lps = natural_loops(b)
        ctx.floor("loops in TraversalCode::" + fn, len(lps), 1)
        for h, blocks in lps:
            bad = []
            for (a, s), atoms in loop_exit_atoms(b, h, blocks, g):
                ok = False
                for at in atoms:
                    if at == ("bool", adv, False) or at == ("rel", "Eq", adv, ("int", 0)):
                        ok = True
                    if fn == "get" and at[0] == "rel":
                        i_ = ("param", 2, b.debug.get(2, ""))
                        ln = ("call", "std::vec::Vec::<T, A>::len", (("field", me, "buffer"),))
                        if implies(at, ("rel", "Lt", i_, ln)):
                            ok = True
                if not ok:
                    bad.append("bb%d->bb%d on %s" % (a, s, "; ".join(show_atom(x)[:60] for x in atoms) or "unconditional"))
            ctx.ob("T3-code-not-truncated", b.name, "loop exits", "ok" if not bad else "violation",
                   "the loop is left only when advance() is exhausted" + (" or position i exists" if fn == "get" else "") if not bad else
                   "the code generation loop can be left for another reason (%s): codes are compared on a truncated prefix, two inequivalent seeds can tie and the canonical form depends on the numbering" % bad[0])


def code_content(ctx, g):
    ctx.clauses.append("the code depends on operations and branching numbers (T2)")
    b = ctx.body("dsyms::TraversalCode::<'a, T>::advance")
    ctx.scan([b])
    pushes = [(bi, norm(b.origin(t["args"][1]), g)) for bi, t in b.calls("Vec::<T, A>::push") if norm(b.origin(t["args"][0]), g)[0] == "field" and norm(b.origin(t["args"][0]), g)[2] == "buffer"]
    ctx.floor("pushes into the code buffer", len(pushes), 5)
    has_v = any(contains(v, lambda s: isinstance(s, tuple) and s and s[0] == "call" and s[1] == "dsyms::DSym::v") for bi, v in pushes)
    ctx.require(has_v, "T2-code-has-degrees", b.name, "push(v(i, i+1, d))", "branching numbers are part of the code", "the traversal code no longer contains the branching numbers: symbols with different degrees get equal codes")
    # index + two mapped endpoints
    em = [v for bi, v in pushes if contains(v, lambda s: isinstance(s, tuple) and s and s[0] == "call" and s[1].endswith("ops::Index::index") and strip(s[2][0])[0] == "field" and strip(s[2][0])[2] == "element_map")]
    ctx.require(len(em) >= 3, "T2-code-has-edges", b.name, "push(element_map[..])", "both mapped endpoints of every edge (and the mapped seed) are part of the code",
                "the code does not list both renumbered endpoints of each traversed edge (%d element_map pushes)" % len(em))
    idx = [v for bi, v in pushes if v[0] == "field" and v[2] == "0" and contains(v, lambda s: isinstance(s, tuple) and s and s[0] == "call" and s[1].endswith("Iterator::next"))
           or (v[0] == "field" and contains(v, lambda s: isinstance(s, tuple) and s and s[0] == "variant" and s[2] == "Some"))]
    ctx.require(len(idx) >= 1, "T2-code-has-edges", b.name, "push(i)", "the edge index is part of the code", "the code does not contain the index of the traversed edge")
    # v loop is over 0..dim with pair (i, i+1)
    for bi, v in pushes:
        vs = [s for s in subterms(v) if isinstance(s, tuple) and s and s[0] == "call" and s[1] == "dsyms::DSym::v"]
        for c in vs:
            r = loop_range_of_payload(b, c[2][1], g) if c[2][1][0] == "field" else None
            okr = r is not None and r[0] == ("int", 0) and not r[2]
            okp = c[2][2] in (("field", ("binop", "AddWithOverflow", c[2][1], ("int", 1)), "0"), ("binop", "Add", c[2][1], ("int", 1)))
            ctx.require(okr and okp, "T4-degree-pairs-in-code", b.name, "v(i, i+1, d):range", "degrees v(i, i+1, .) for i in 0..dim() are coded",
                        "the coded degrees are not v(i, i+1, d) over 0..dim(): range %s" % (r and (show(r[0], 1), show(r[1], 1), r[2]),), b.span_of(bi))
