"""C20 - union-find partitions: independent clones, no aliasing/racing of the hidden mutation, find keeps classes (DESIGN 4/C20)."""
import re
from ..core import *
from ..templates import *

M = "util::partitions::"
PAIRS = [("Partition", "PartitionImpl", "Partition::<T>", "PartitionImpl::<T>"), ("IntPartition", "IntPartitionImpl", "IntPartition", "IntPartitionImpl")]
OWNING = re.compile(r"^(usize|T/#\d+|std::vec::Vec<.*>|std::collections::HashMap<.*>|std::hash::RandomState|std::alloc::Global)$")
SHARING = ("Rc<", "Arc<", "&", "*const", "*mut", "Cell<", "RefCell<", "Mutex<", "NonNull<", "Weak<", "Box<dyn", "fn(")

EXPLANATION = (
    "Decided: (1) a clone evolves independently in both directions: Clone::clone of Partition<T> / IntPartition builds a fresh "
    "UnsafeCell::new(<Impl as Clone>::clone(..)) of the receiver's own cell, the Impl structs derive Clone, every (transitive) field type is an "
    "owning container (usize, T, Vec, HashMap) - no Rc/Arc/reference/raw pointer/Cell -, and the module touches no static; so after clone "
    "no storage is shared. (2) histories are sequences: the wrappers hold an UnsafeCell and the crate has no unsafe impl Send/Sync for them, so "
    "they are !Sync (thorough tier: compile-fail witness E0277 with a Send twin); no public method returns a reference or a type with a "
    "lifetime (nothing borrowed from the cell escapes a call); unite takes &mut self (witness E0596). (3) find does not change class "
    "membership: on find -> root_index -> get_index there is no call to unite, rank is only pushed (0 for a new element), every store into "
    "parent[..] writes the local on which the root loop exited (dominated by parent[root] == root), and new elements are pushed as their own "
    "parent (value = previous length). (4) unite links the two roots it found (stores into parent use exactly the two root_index results, "
    "under x != y). NOT decided: that same representative <=> connected by the unions, first-occurrence order of classes().")
TRUSTED = ["rustc MIR lowering and type checking", "A2 Vec/HashMap::clone are deep copies", "UnsafeCell<T> is !Sync (std)"]
ASSUMPTIONS = ["T's own Clone is a deep copy when T is used as an element type (usize everywhere in this crate)"]


def int_table_growth(ctx, g):
    """IntPartitionImpl::root_index(a) first grows its two tables so that `a` has a slot: for i in parent.len()..=a { parent.push(i); rank.push(0) } - inclusive of a
    (the walk reads parent[a] right after), each new element its own parent with rank 0"""
    ctx.clauses.append("IntPartition: the tables are grown up to and including the element asked for, new elements are singletons of rank 0 (T4)")
    b = ctx.body(M + "IntPartitionImpl::root_index")
    ctx.scan([b])
    me, a_ = ("param", 1, b.debug.get(1, "")), ("param", 2, b.debug.get(2, ""))
    pushes = [(bi, [strip(norm(b.origin(x), g)) for x in t["args"]]) for bi, t in b.calls("Vec::<T, A>::push")]
    bad = None
    par = [x for x in pushes if x[1][0] == ("field", me, "parent")]
    rnk = [x for x in pushes if x[1][0] == ("field", me, "rank")]
    if len(par) != 1 or len(rnk) != 1:
        bad = "not one push per table"
    else:
        i_ = par[0][1][1]
        r = loop_range_of_payload(b, i_, g)
        lp1, lp2 = loop_containing(b, par[0][0]), loop_containing(b, rnk[0][0])
        if r is None:
            bad = "a new element is not its own parent (parent.push(i) with i the index being added)"
        else:
            lo = strip(r[0])
            hi = eval_term_env(unov_deep(fold_std_ops(strip(r[1]))), {a_: 7})
            last = None if hi is None else (hi if r[2] else hi - 1)
            if not (is_call(lo, "::len") and strip(lo[2][0]) == ("field", me, "parent")):
                bad = "the tables are not grown from parent.len()"
            elif last != 7:
                bad = "for a = 7 the tables are grown up to index %s: parent[a] is read right afterwards and %s" % (last, "is out of bounds" if last is not None and last < 7 else "elements beyond a are created")
            elif eval_int(rnk[0][1][1]) != 0:
                bad = "a new element does not start with rank 0"
            elif lp1 is None or lp1 != lp2:
                bad = "the two tables are not grown together"
    ctx.ob("T4-int-table-growth", b.name, "for i in parent.len()..=a", "ok" if not bad else "violation", "parent.push(i); rank.push(0) for every i in parent.len()..=a" if not bad else bad)


def run(ctx):
    g = ctx.facts.getters()
    find_returns_root(ctx, g)
    int_table_growth(ctx, g)
    for wrap, impl, wpath, ipath in PAIRS:
        clone_rules(ctx, g, wrap, impl)
        sync_rules(ctx, g, wrap, wpath)
        find_rules(ctx, g, impl, ipath)
        unite_rules(ctx, g, impl, ipath)
    ctx.clauses += ["a clone evolves independently of its original (T8, proved modulo A2)", "histories are sequences: !Sync, nothing borrowed escapes, unite needs &mut (T8)",
                    "find does not change class membership or representatives (T1-style effect check)", "unite links the two roots (T3)"]
    ctx.clauses.append("the two partition types are sibling implementations: classes() and unite() agree in structure (T4 cross-check)")
    siblings_agree(ctx, "T4-siblings-agree", M + "Partition::<T>::classes", M + "IntPartition::classes", "classes ~ classes")
    siblings_agree(ctx, "T4-siblings-agree", M + "PartitionImpl::<T>::unite", M + "IntPartitionImpl::unite", "unite ~ unite", compare_fields=True)
    st = [s for s in ctx.facts.statics if s.startswith(M)]
    ctx.require(not st, "T8-no-statics", M, "statics", "the module defines no static", "the partitions module defines statics (shared storage between instances): %s" % st)
    for d in ctx.facts.find(M):
        b = ctx.facts.bodies[d]
        for bi, si, s in b.assigns():
            for o in rv_operands(s["rv"]):
                if o["k"] == "const" and "static" in str(o.get("dbg", "")).lower() and "alloc" in str(o.get("dbg", "")).lower():
                    pass


def sharing_in(t):
    out = []
    for s in SHARING:
        if s.endswith("<"):
            if re.search(r"(?<![A-Za-z0-9_])" + re.escape(s), t):
                out.append(s)
        elif s in t:
            out.append(s)
    return out


def field_types(ctx, adt):
    a = ctx.facts.adts.get(M + adt)
    if a is None:
        raise AnchorMissing(M + adt)
    return [(f["name"], f["ty"]) for v in a["variants"] for f in v["fields"]]


def clone_rules(ctx, g, wrap, impl):
    wf = field_types(ctx, wrap)
    cell = [(n, t) for n, t in wf if t.startswith("std::cell::UnsafeCell<" + M + impl)]
    ctx.require(len(wf) == 1 and len(cell) == 1, "T8-wrapper-shape", M + wrap, "fields", "single field UnsafeCell<%s>" % impl,
                "wrapper no longer consists of exactly one UnsafeCell<%s>: %s" % (impl, wf))
    for n, t in wf:
        inner = t[len("std::cell::UnsafeCell<"):] if t.startswith("std::cell::UnsafeCell<") else t
        bad = sharing_in(inner)
        ctx.require(not bad, "T8-owning-fields", M + wrap, "field:" + n, "no shared-ownership type", "field %s: %s contains a sharing type %s: clones would alias" % (n, t, bad))
    for n, t in field_types(ctx, impl):
        bad = sharing_in(t)
        ok = not bad and OWNING.match(t) is not None
        ctx.ob("T8-owning-fields", M + impl, "field:" + n, "ok" if ok else ("violation" if bad else "undecided"),
               "owning container type " + t if ok else "field %s: %s is not on the owning accept-list%s" % (n, t, (" (sharing type %s: a clone would alias the original)" % bad) if bad else ""))
    im = [i for i in ctx.facts.impls if i.get("trait") == "std::clone::Clone" and i["self_ty"].startswith(M + impl)]
    ctx.require(bool(im) and all(i["derived"] for i in im), "T8-impl-clone-derived", M + impl, "Clone", "Impl struct derives Clone (field-wise deep copy)",
                "the Impl struct's Clone is hand-written or missing; depth of the copy not established")
    cl = [d for d in ctx.facts.bodies if d.endswith("as std::clone::Clone>::clone") and d.startswith("<" + M + wrap) and (M + impl) not in d.split(" as ")[0]]
    if not cl:
        raise AnchorMissing("<%s as Clone>::clone" % (M + wrap))
    b = ctx.body(cl[0])
    ctx.scan([b])
    r = norm(b.local_origin(0), g)
    ok = False
    detail = show(r, 1)[:140]
    me = ("param", 1, b.debug.get(1, ""))
    if b.f.get("derived"):
        ok = False
        detail = "derived Clone on the wrapper"
    if r[0] == "agg" and r[1].endswith(wrap + "::" + wrap) and len(r[2]) == 1:
        c = r[2][0]
        if c[0] == "call" and c[1].endswith("UnsafeCell::<T>::new") and len(c[2]) == 1:
            inner = c[2][0]
            if inner[0] == "call" and inner[1].endswith("clone::Clone::clone") or inner[0] == "call" and inner[1].endswith("Clone>::clone"):
                src = inner[2][0]
            else:
                src = inner   # norm() strips Clone::clone
            # src must be the receiver's own cell content: get(&self._impl)
            if src[0] == "call" and src[1].endswith("UnsafeCell::<T>::get") and src[2][0] == ("field", me, "_impl"):
                # and a Clone::clone call on it must exist in the body
                ok = any(True for _ in b.calls("clone::Clone::clone"))
    ctx.ob("T8-clone-deep", b.name, "return", "ok" if ok else "violation",
           "clone() = Self { _impl: UnsafeCell::new(<Impl as Clone>::clone(&*self._impl.get())) }" if ok else
           "clone() does not build a fresh cell holding a clone of the receiver's own state (%s): original and clone may share or diverge" % detail)


def sync_rules(ctx, g, wrap, wpath):
    bad = [i for i in ctx.facts.impls if i.get("trait") in ("std::marker::Sync", "std::marker::Send", "core::marker::Sync", "core::marker::Send") and (M + wrap) in i["self_ty"]]
    ctx.require(not bad, "T8-not-sync", M + wrap, "unsafe impl Send/Sync", "no Send/Sync impl: UnsafeCell makes the type !Sync",
                "an explicit Send/Sync impl exists for a type whose find(&self) mutates through an UnsafeCell: concurrent finds race")
    n = 0
    for d, b in ctx.facts.bodies.items():
        if not d.startswith(M + wpath + "::") or "{closure" in d:
            continue
        sig = b.f.get("sig")
        if not sig or "Public" not in b.f.get("vis", ""):
            continue
        n += 1
        out = sig["output"]
        ok = "&" not in out and "'" not in out and "*const" not in out and "*mut" not in out
        ctx.ob("T8-no-escaping-borrow", d, "return-type", "ok" if ok else "violation",
               "returns an owned value (%s)" % out[:50] if ok else "a public method returns %s: a borrow into the UnsafeCell escapes and can alias the hidden mutation of find" % out)
        if d.endswith("::unite"):
            ctx.require(" mut " in sig["inputs"][0] and sig["inputs"][0].startswith("&"), "T8-unite-needs-mut", d, "receiver", "unite takes &mut self",
                        "unite no longer takes &mut self: unions can interleave with outstanding shared borrows")
    ctx.floor("public methods of " + wrap, n, 4)
    cl = ctx.body(M + wpath + "::classes")
    classes_keying(ctx, cl, wpath)
    for bi, t in cl.calls(exact=M + wpath + "::find"):
        every_iteration_reaches(ctx, "T3-classes-covers-all-elements", cl, bi, "element-loop->find", "some queried element is skipped by classes(): the listing does not partition the queried elements")


def classes_keying(ctx, cl, wpath):
    """classes(): a class is looked up and registered under the same key, the representative find(e) of the element at hand; the registered
    value is the index the new class is about to get; the element itself goes into the class found / the new class"""
    g = ctx.facts.getters()
    me = ("param", 1, cl.debug.get(1, ""))
    st = lambda x: strip(norm(cl.origin(x), g))
    def uncl(t):
        t = strip(t)
        while t[0] == "call" and t[1].endswith("Clone::clone") and len(t[2]) == 1:
            t = strip(t[2][0])
        return t
    gets = [(bi, [st(x) for x in t["args"]]) for bi, t in cl.calls("HashMap::<K, V, S, A>::get")]
    inss = [(bi, [st(x) for x in t["args"]]) for bi, t in cl.calls("HashMap::<K, V, S, A>::insert")]
    ctx.floor("class_for_rep lookups + registrations in %s::classes" % wpath, len(gets) + len(inss), 2)
    if not gets or not inss:
        return
    key = gets[0][1][1]
    okk = key[0] == "call" and key[1] == M + wpath + "::find" and key[2][0] == me
    elem = uncl(key[2][1]) if okk else None
    okk = okk and elem is not None and iter_source(cl, elem, g) is not None
    ctx.ob("T4-classes-keyed-by-rep", cl.name, "lookup key", "ok" if okk else "violation",
           "a class is looked up under find(e) of the loop's element" if okk else "the class lookup key is not self.find(e) of the loop's element: " + show(key, 1)[:70], cl.span_of(gets[0][0]))
    for bi, a in inss:
        same = a[0] == gets[0][1][0] and a[1] == key
        ctx.ob("T4-classes-keyed-by-rep", cl.name, "registration key", "ok" if same else "violation",
               "a new class is registered under the key it is looked up by" if same else
               "a new class is registered under %s but looked up under %s: later members of the class do not find it and the class is split" % (show(a[1], 1)[:50], show(key, 1)[:50]), cl.span_of(bi))
        v = a[2]
        okv = v[0] == "call" and v[1].endswith("::len") and v[2][0][0] == "local"
        pushes_new = [(pb, t) for pb, t in cl.calls("Vec::<T, A>::push") if okv and st(t["args"][0]) == v[2][0]]
        okv = okv and len(pushes_new) == 1 and cl.dominates(bi, pushes_new[0][0]) and loop_containing(cl, bi) is not None and must_pass_through(cl, bi, pushes_new[0][0], loop_containing(cl, bi)[0])
        ctx.ob("T4-classes-keyed-by-rep", cl.name, "registered index", "ok" if okv else "violation",
               "the registered index is classes.len() right before the new class is pushed" if okv else "the index registered for a new class is not the position it is pushed at: " + show(v, 1)[:50], cl.span_of(bi))
        if okv and elem is not None:
            lit = vec_literal(cl, cl.origin(pushes_new[0][1]["args"][1]))
            okn = lit is not None and len(lit) == 1 and uncl(norm(lit[0], g)) == elem
            ctx.ob("T4-classes-keyed-by-rep", cl.name, "new class = [e]", "ok" if okn else "violation",
                   "the new class starts with the element at hand" if okn else "the new class is not vec![e]", cl.span_of(pushes_new[0][0]))
    if elem is not None:
        okp = False
        for pb, t in cl.calls("Vec::<T, A>::push"):
            tgt = st(t["args"][0])
            if tgt[0] == "call" and tgt[1].endswith("IndexMut::index_mut"):
                idx = strip(tgt[2][1])
                okp = contains(idx, lambda x: x == key) and contains(idx, lambda x: x[0] == "call" and x[1].endswith("::get")) and uncl(st(t["args"][1])) == elem
        ctx.ob("T4-classes-keyed-by-rep", cl.name, "member push", "ok" if okp else "violation",
               "an element whose representative is registered is pushed into classes[index found]" if okp else "the element is not pushed into the class found under its representative")


def find_returns_root(ctx, g):
    """find(a) answers with the ROOT of a's tree: the value returned is (the element stored at) root_index(a), or - if find climbs itself -
    an index x for which parent[x] == x dominates the return.  An ancestor that is not the root (one or two links up, as after a single
    path-halving step) is a different answer for elements deep in the same tree."""
    ctx.clauses.append("find returns the root of the element's tree (root_index(a), or an index with parent[x] == x at the return) (T9)")
    for wpath, generic in (("PartitionImpl::<T>", True), ("IntPartitionImpl", False)):
        b = ctx.body(M + wpath + "::find")
        ctx.scan([b])
        me, a_ = ("param", 1, b.debug.get(1, "")), ("param", 2, b.debug.get(2, ""))
        r = strip(norm(b.local_origin(0), g))
        root_call = ("call", M + wpath + "::root_index", (me, a_))
        idx = None
        if generic:
            t = r
            while is_call(t, "Clone::clone") and len(t[2]) == 1:
                t = strip(t[2][0])
            if (is_call(t, "Index::index") or t[0] == "index"):
                base = strip(t[2][0]) if t[0] == "call" else strip(t[1])
                idx = strip(t[2][1]) if t[0] == "call" else strip(t[2])
                if base != ("field", me, "elements"):
                    idx = None
        else:
            idx = r
        ok = idx is not None and (idx == root_call or strip(idx) == root_call)
        why = "returns %s" % show(r, 1)[:60]
        if not ok and idx is not None and idx[0] == "local":
            # a hand-written climb: every return is dominated by parent[x] == x for the returned x
            rets = [bi for bi, blk in b.live_blocks() if blk["term"]["k"] == "return"]
            def fixed(bi):
                for x in b.facts_at(bi):
                    x = atom_norm(x, g)
                    if x[0] == "rel" and x[1] == "Eq":
                        l, rr = strip(x[2]), strip(x[3])
                        for p_, q_ in ((l, rr), (rr, l)):
                            if q_ == idx and (is_call(p_, "Index::index") or p_[0] == "index") and contains(p_, lambda y: y == ("field", me, "parent")) and contains(p_, lambda y: y == idx):
                                return True
                return False
            ok = bool(rets) and all(fixed(bi) for bi in rets)
            why = "climbs itself and returns index %s without parent[x] == x dominating the return" % show(idx, 1)
        ctx.ob("T9-find-returns-root", b.name, "return", "ok" if ok else "violation",
               "the answer is the element at root_index(a)" if ok else
               "find does not answer with the root of the tree (%s): an element three or more links below its representative gets an ancestor, connected elements get different representatives and the answer changes without a union" % why)


def parent_stores(b, g, field="parent"):
    """[(bb, index_term, value_term)] for  self.<field>[idx] = value"""
    out = []
    for bi, t in b.calls("ops::IndexMut::index_mut"):
        base = norm(b.origin(t["args"][0]), g)
        if not (base[0] == "field" and base[2] == field):
            continue
        idx = norm(b.origin(t["args"][1]), g)
        dest = t["dest"]["l"]
        for bj, si, s in b.assigns():
            p = s["place"]
            if p["l"] == dest and [e["k"] for e in p["p"]] == ["deref"]:
                out.append((bj, idx, norm(b.rv_origin(s["rv"]), g), b.rv_origin(s["rv"])))
    return out


def registration_rules(ctx, g, ipath):
    """get_index: an element is looked up through the index map alone and a new element is registered in all four tables at once - the index
    map under the slot number it gets, elements, rank, parent - on every path that registers it.  An element that is stored but not indexed
    (or found by a second mechanism that disagrees with the first by one slot) is registered again at its next lookup and its unions are lost."""
    gi = ctx.facts.bodies.get(M + ipath + "::get_index")
    if gi is None:
        return
    ctx.clauses.append("get_index: lookup through the index map only; a new element enters index (under its slot number), elements, rank and parent on every registering path (T3)")
    me = ("param", 1, gi.debug.get(1, ""))
    a_ = ("param", 2, gi.debug.get(2, ""))
    bad = None
    ins = [(bi, [strip(norm(gi.origin(x), g)) for x in t["args"]]) for bi, t in gi.calls("HashMap::<K, V, S, A>::insert")]
    pushes = {}
    for bi, t in gi.calls("Vec::<T, A>::push"):
        a = [strip(norm(gi.origin(x), g)) for x in t["args"]]
        if a[0][0] == "field" and strip(a[0][1]) == me:
            pushes.setdefault(a[0][2], []).append((bi, a[1]))
    rets = [bi for bi, blk in gi.live_blocks() if blk["term"]["k"] == "return"]
    if len(ins) != 1 or sorted(pushes) != ["elements", "parent", "rank"] or any(len(v) != 1 for v in pushes.values()) or len(rets) != 1:
        bad = "registration is not one index.insert and one push each into elements, rank, parent (inserts: %d, pushes: %s)" % (len(ins), {k: len(v) for k, v in pushes.items()})
    else:
        ib, ia = ins[0]
        eb, ev = pushes["elements"][0]
        slot = ("call", "std::vec::Vec::<T, A>::len", (("field", me, "elements"),))
        if strip(ia[2]) != slot or not (is_call(ia[1], "clone") or ia[1] == a_):
            bad = "the index map does not record the new element under the slot number elements.len() it is about to get"
        elif pushes["parent"][0][1] != slot:
            bad = "the new element's parent is not its own slot number"
        else:
            sites = [ib, eb, pushes["rank"][0][0], pushes["parent"][0][0]]
            first = [x for x in sites if all(gi.dominates(x, y) for y in sites)]
            if not first:
                bad = "the four registration steps are not on one path"
            else:
                for x in sites:
                    if not must_pass_through(gi, first[0], x, rets[0]):
                        bad = bad or "a path registers a new element without %s: it is stored but will not be found again (registered twice, its unions lost)" % (
                            "entering it into the index map" if x == ib else "the push at block %d" % x)
        # lookup: the only way to answer for a known element is the index map
        finders = [t["callee"].get("def", "") for bi, t in gi.calls() if any(t["callee"].get("def", "").endswith(sfx) for sfx in ("::position", "::find", "::contains", "::binary_search", "::any"))]
        if not bad and finders:
            bad = "a second lookup mechanism (%s) beside the index map: the two must agree on every slot" % finders[0].split("::")[-1]
        gets = [strip(norm(gi.origin(t["args"][1]), g)) for bi, t in gi.calls("HashMap::<K, V, S, A>::get")]
        if not bad and gets != [a_]:
            bad = "the index map is not asked for the element itself"
    ctx.ob("T3-registration-complete", gi.name, "index / elements / rank / parent", "ok" if not bad else "violation",
           "index.insert(a, elements.len()), elements.push(a), rank.push(0), parent.push(slot) on every registering path; lookup by index.get(a) only" if not bad else bad)


def find_rules(ctx, g, impl, ipath):
    root = ctx.body(M + ipath + "::root_index")
    find = ctx.body(M + ipath + "::find")
    path = [find, root]
    gi = ctx.facts.bodies.get(M + ipath + "::get_index")
    if gi is not None:
        path.append(gi)
        ctx.anchors.append(gi.name)
    ctx.scan(path)
    registration_rules(ctx, g, ipath)
    for b in path:
        un = [t for bi, t in b.calls("::unite")]
        ctx.require(not un, "T1-find-effects", b.name, "no-unite", "no unite on the find path", "the find path calls unite: a query changes class membership")
        # rank: no indexed store, pushes only of 0
        rs = parent_stores(b, g, "rank")
        ctx.require(not rs, "T1-find-effects", b.name, "rank:no-store", "rank is not rewritten by find", "find rewrites rank entries")
        for bi, t in b.calls("Vec::<T, A>::push"):
            base = norm(b.origin(t["args"][0]), g)
            val = norm(b.origin(t["args"][1]), g)
            if base[0] == "field" and base[2] == "rank":
                ctx.require(val == ("int", 0), "T1-find-effects", b.name, "rank:push", "a new element gets rank 0", "a new element gets rank %s" % show(val, 1), b.span_of(bi))
            if base[0] == "field" and base[2] == "parent":
                # own index: the value is the length before the push (get_index) or the range item starting at parent.len() (IntPartition)
                ok = False
                if val[0] == "call" and val[1].endswith("::len") and val[2][0][0] == "field" and val[2][0][2] in ("elements", "parent"):
                    ok = True
                r = loop_range_of_payload(b, b.origin(t["args"][1]), g)
                if r is not None and r[0][0] == "call" and r[0][1].endswith("::len") and r[0][2][0][0] == "field" and r[0][2][0][2] == "parent":
                    ok = True
                ctx.require(ok, "T1-find-effects", b.name, "parent:push", "a new element becomes its own parent (value = its index)",
                            "a new element's parent is %s, not its own index: it joins an existing class" % show(val, 1)[:60], b.span_of(bi))
    # stores into parent in root_index: value is the exit-guarded root
    st = parent_stores(root, g, "parent")
    ctx.floor("path-compression stores in " + root.name, len(st), 1)
    ret = norm(root.local_origin(0), g)
    for bi, idx, val, raw in st:
        ok = False
        why = ""
        if val[0] == "local":
            for a in root.facts_at(bi):
                a = atom_norm(a, g)
                if a[0] == "rel" and a[1] == "Eq":
                    for x, y in ((a[2], a[3]), (a[3], a[2])):
                        if y == val and x[0] == "call" and x[1].endswith("ops::Index::index") and x[2][0][0] == "field" and x[2][0][2] == "parent" and x[2][1] == val:
                            ok = True
            if not ok:
                # every definition of the stored local is a read of parent[..] or the start index: an ancestor (harmless path halving)
                defs = [norm(d[1], g) for d in root.all_defs_origins(val[1])]
                anc = all((d[0] == "call" and d[1].endswith("ops::Index::index") and d[2][0][0] == "field" and d[2][0][2] == "parent") or d[0] in ("local", "param") or
                          (d[0] == "call" and d[1].endswith("get_index")) for d in defs) and bool(defs)
                why = "ancestor" if anc else "other"
        if ok:
            ctx.ob("T1-find-effects", root.name, "parent[..]=root", "ok", "path compression stores the local on which the root loop exited (parent[root] == root dominates)", root.span_of(bi))
        elif why == "ancestor" and val != idx:
            ctx.ob("T1-find-effects", root.name, "parent[..]=ancestor", "undecided", "stores a value read from the parent chain (path halving?): class preservation not decided", root.span_of(bi))
        else:
            ctx.ob("T1-find-effects", root.name, "parent[..]=%s" % origin_head(val), "violation",
                   "find stores %s into parent[%s], which is not the root the search ended on: the element can be detached from / moved out of its class" % (show(val, 1)[:40], show(idx, 1)[:40]), root.span_of(bi))
    ctx.require(ret[0] == "local" and any(v == ret for _, _, v, _ in st), "T1-find-effects", root.name, "return=root", "root_index returns the same root it compresses to",
                "root_index returns %s, which is not the value used for compression" % show(ret, 1)[:40])


def unite_rules(ctx, g, impl, ipath):
    b = ctx.body(M + ipath + "::unite")
    ctx.scan([b])
    roots = []
    for bi, t in b.calls(exact=M + ipath + "::root_index"):
        if not t["dest"]["p"]:
            roots.append(norm(b.local_origin(t["dest"]["l"]), g))
    ctx.require(len(roots) == 2, "T3-unite-links-roots", b.name, "root_index x2", "both arguments are resolved to their roots", "unite does not look up the roots of both arguments")
    if len(roots) != 2:
        return
    st = parent_stores(b, g, "parent")
    ctx.floor("parent stores in " + b.name, len(st), 1)
    for bi, idx, val, raw in st:
        ok = {idx, val} == set(roots) and idx != val
        guarded = any(atom_norm(a, g) in (("rel", "Ne", roots[0], roots[1]), ("rel", "Ne", roots[1], roots[0])) for a in b.facts_at(bi))
        ctx.ob("T3-unite-links-roots", b.name, "parent[root]=other-root", "ok" if ok and guarded else "violation",
               "one root is attached to the other, under x != y" if ok and guarded else
               "unite stores parent[%s] = %s%s: it does not attach one of the two roots to the other" % (show(idx, 1)[:30], show(val, 1)[:30], "" if guarded else " (and not under x != y)"), b.span_of(bi))
