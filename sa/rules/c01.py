"""C01 - parsing a D-symbol never panics; parsed degrees/operations are consistent (DESIGN 4/C01)."""
from ..core import *
from ..templates import *
from ..t5 import T5

ENTRY = "<dsyms::PartialDSym as std::str::FromStr>::from_str"
PARSER = "parse_dsym::parse_dsymbol"

EXPLANATION = (
    "Decided: totality of parsing with respect to the numbers in the text. Every potentially panicking operation reachable from "
    "<PartialDSym as FromStr>::from_str (asserts of PartialDSet::new/set, index arithmetic of idx/op_unchecked, overflow asserts, Option::unwrap "
    "on list lookups - callee preconditions are derived from the callees' own MIR and substituted at the call sites, three call levels deep) "
    "whose condition depends on a number taken from the input (size, dim, list lengths, every op image and degree read through slice::get) is "
    "dominated in from_str by a still-valid guard that excludes it: range guards 1 <= image <= size, the pairing guard on the very lookup "
    "`op_unchecked(i, image)` that PartialDSet::set asserts on (so operations are involutions on 1..size: set writes both directions and never "
    "overwrites), upper bounds on size and dim before `size * (dim + 1)`, list-length comparisons before the unwraps; and set_v(i, d, m / r) is "
    "dominated by m % r == 0 (degrees are multiples of orbit lengths). Panic sites that do not depend on parsed numbers (completeness assertion "
    "after the fill loop, indexing by loop counters) rest on loop postconditions and struct invariants and are listed as invariant-justified. "
    "NOT decided: the print/parse round-trip identities (value-level agreement of writer and reader loops); termination of the nom grammar.")
TRUSTED = ["rustc MIR lowering (dev profile: overflow/bounds asserts present)", "A3 the nom 7 combinators used by parse_dsym never panic",
           "A2 std may-panic table (Index, unwrap/expect, slice ops)", "A4/A6 struct invariants for sites not fed by parsed numbers",
           "weak criterion for overflow/indexing: an upper bound on the parsed number dominates (tightness not proved)"]
ASSUMPTIONS = ["allocation failure is not a panic in scope (vec![0; size*(dim+1)] is bounded by the input length after the size guard)"]


def run(ctx):
    g = ctx.facts.getters()
    body = ctx.body(ENTRY)
    reach = ctx.facts.reachable(ENTRY)
    ctx.scan(ctx.facts.bodies[d] for d in reach)
    ctx.clauses += ["parse is total w.r.t. every number in the text (T5 untrusted-input)", "parsed degrees are multiples of orbit lengths (T3)",
                    "parsed operations are involutions on 1..size (pairing guard + set writes both directions)"]
    if not any(True for _ in body.calls(exact=PARSER)):
        raise AnchorMissing(ENTRY + " -> " + PARSER)

    def has_parse(t):
        return contains(t, lambda s: isinstance(s, tuple) and s and s[0] == "call" and s[1] == PARSER)
    # term -> type, term -> name for the stable locals of from_str
    ty_of, name_of_t = {}, {}
    for l in range(body.argc + 1, len(body.f["locals"])):
        if not body.is_stable_local(l):
            continue
        t = norm(body.local_origin(l), g)
        ty = body.local_ty(l).replace("&", "").replace("'{erased} ", "").strip()
        if ty in INT_TYS:
            ty_of[t] = ty
        if body.debug.get(l):
            name_of_t.setdefault(t, body.debug[l])
    # integer fields of the parsed spec
    spec_adt = ctx.facts.adts.get("parse_dsym::DSymSpec")
    if spec_adt is None:
        raise AnchorMissing("parse_dsym::DSymSpec")
    int_fields = {f["name"] for v in spec_adt["variants"] for f in v["fields"] if f["ty"] in INT_TYS}

    def tracked(t):
        if not isinstance(t, tuple) or not t or not has_parse(t):
            return False
        if t in ty_of:
            return True
        if t[0] == "field" and t[2] in int_fields:
            return True
        if t[0] == "call" and t[1].endswith("::len") and len(t[2]) == 1:
            return True
        return False

    def name_of(t):
        if t in name_of_t:
            return name_of_t[t]
        if t[0] == "field" and t[2] in int_fields and has_parse(t):
            return "spec." + t[2]
        if t[0] == "field" and has_parse(t) and t[1][0] == "field" and t[1][2] == "1":
            return "spec." + str(t[2])
        return None

    eng = T5(ctx.facts, max_depth=4)
    n = eng.evaluate_entry(ctx, "T5-untrusted-input", ENTRY, tracked, name_of=name_of)
    ctx.floor("panic sites depending on parsed numbers", n, 10)
    ctx.notes.append("T5 stats: %s; functions reachable from from_str: %d" % (eng.stats, len(reach)))

    # ---- U3: unwrap of a lookup in one of the parsed lists needs a dominating comparison on that list's length
    nu = 0
    for bi, t in body.calls("option::Option::<T>::unwrap"):
        a = norm(body.origin(t["args"][0]), g)
        if not (a[0] == "call" and a[1].endswith("::get") and len(a[2]) == 2 and has_parse(a[2][0])):
            continue
        lst = a[2][0]
        nu += 1
        ok = False
        for f in body.facts_at(bi):
            f = atom_norm(f, g)
            if f[0] == "rel" and any(contains(x, lambda s_: isinstance(s_, tuple) and s_ and s_[0] == "call" and s_[1].endswith("::len") and s_[2] and s_[2][0] == lst) for x in (f[2], f[3])):
                ok = True
        ctx.ob("T5-list-length-guard", ENTRY, "unwrap(get(%s, i))" % (name_of(lst) or "list"), "ok" if ok else "violation",
               "a comparison on the list's len() dominates the unwrap" if ok else "a lookup in a parsed list is unwrapped without any dominating test of that list's length", body.span_of(bi))
    ctx.floor("unwraps of lookups in parsed lists", nu, 2)

    # ---- U4: set_v(i, d, m / r) dominated by m % r == 0
    sv = list(body.calls(exact="dsyms::PartialDSym::set_v"))
    ctx.floor("set_v calls in from_str", len(sv), 1)
    for bi, t in sv:
        v = norm(body.origin(t["args"][3]), g)
        ok = False
        if v[0] == "binop" and v[1] == "Div":
            m, r = v[2], v[3]
            for a in body.facts_at(bi):
                a = atom_norm(a, g)
                if a[0] == "rel" and a[1] == "Eq" and a[3] == ("int", 0) and a[2] == ("binop", "Rem", m, r):
                    ok = True
        ctx.ob("T3-degree-multiple", ENTRY, "set_v(i, d, m / r)", "ok" if ok else "violation",
               "the stored branching number m / r is dominated by m % r == 0 on the same m and r" if ok else
               "a degree that is not a multiple of the orbit length can be stored (no dominating m % r == 0 on the operands of the division): " + show(v, 1)[:80], body.span_of(bi))
    # ---- set is the only writer of PartialDSet.op entries in scope, and writes both directions
    st = ctx.body("dsets::PartialDSet::set")
    writes = []
    for bi, si, s in st.assigns():
        pass
    idxm = [(bi, t) for bi, t in st.calls("ops::IndexMut::index_mut")]
    keys = [norm(st.origin(t["args"][1]), g) for bi, t in idxm]
    i_, d_, e_ = [("param", k, st.debug.get(k, "")) for k in (2, 3, 4)]
    me = ("param", 1, st.debug.get(1, ""))
    both = any(k == ("call", "dsets::PartialDSet::idx", (me, i_, d_)) for k in keys) and any(k == ("call", "dsets::PartialDSet::idx", (me, i_, e_)) for k in keys)
    ctx.require(both, "T1-set-writes-both-directions", st.name, "op[idx(i,d)], op[idx(i,e)]", "set writes entry (i,d) and entry (i,e)",
                "PartialDSet::set no longer writes both directions of the pairing: " + "; ".join(show(k, 1) for k in keys))
    for d in reach:
        b = ctx.facts.bodies[d]
        for bi, si, s in b.assigns():
            rv = s["rv"]
            if rv["k"] in ("ref", "rawptr") and (rv.get("mut") or rv["k"] == "rawptr") and any(e["k"] == "field" and e.get("adt") == "dsets::PartialDSet" and e["name"] == "op" for e in rv["place"]["p"]):
                ok = d in ("dsets::PartialDSet::set", "dsets::PartialDSet::grow")
                ctx.ob("T1-set-only-writer", d, "mutborrow:PartialDSet.op", "ok" if ok else "violation",
                       "entries are written only by PartialDSet::set" if ok else "operation entries are written outside PartialDSet::set on the parse path", b.span_of(bi, si))
