"""C01 - parsing a D-symbol never panics; parsed degrees/operations are consistent (DESIGN 4/C01)."""
from ..core import *
from ..templates import *
from ..t5 import T5

ENTRY = "<dsyms::PartialDSym as std::str::FromStr>::from_str"
PARSER = "parse_dsym::parse_dsymbol"

EXPLANATION = (
    "Decided: totality of parsing with respect to the numbers in the text. Every potentially panicking operation reachable from "
    "<PartialDSym as FromStr>::from_str (asserts of PartialDSet::new/set, index arithmetic of idx/op_unchecked, overflow asserts, Option::unwrap "
    "on list lookups - callee preconditions are derived from the callees' own MIR and substituted at the call sites, three call levels deep) "
    "whose condition depends on a number taken from the input (size, dim, list lengths, every op image and degree read through slice::get) is "
    "dominated in from_str by a still-valid guard that excludes it: range guards 1 <= image <= size, the pairing guard on the very lookup "
    "`op_unchecked(i, image)` that PartialDSet::set asserts on (so operations are involutions on 1..size: set writes both directions and never "
    "overwrites), upper bounds on size and dim before `size * (dim + 1)`, list-length comparisons before the unwraps; and set_v(i, d, m / r) is "
    "dominated by m % r == 0 (degrees are multiples of orbit lengths). Panic sites that do not depend on parsed numbers (completeness assertion "
    "after the fill loop, indexing by loop counters) rest on loop postconditions and struct invariants and are listed as invariant-justified. "
    "Writer/reader agreement (T4): Display and FromStr walk the same index and chamber ranges (ops 0..=dim x 1..=size, degrees 0..dim), the "
    "printer emits an image exactly when it is undefined or >= its chamber, the parser consumes one exactly for still-unassigned entries, degrees "
    "are written as m(i, i+1, d) per 2-orbit representative and read back as v = m / r(i, i+1, d), and the dimension the printer omits (2) is the "
    "grammar's default - necessary conditions of the round trip. "
    "NOT decided: the round-trip identities themselves (value-level agreement of the two fill disciplines); termination of the nom grammar.")
TRUSTED = ["rustc MIR lowering (dev profile: overflow/bounds asserts present)", "A3 the nom 7 combinators used by parse_dsym never panic",
           "A2 std may-panic table (Index, unwrap/expect, slice ops)", "A4/A6 struct invariants for sites not fed by parsed numbers",
           "weak criterion for overflow/indexing: an upper bound on the parsed number dominates (tightness not proved)"]
ASSUMPTIONS = ["allocation failure is not a panic in scope (vec![0; size*(dim+1)] is bounded by the input length after the size guard)"]


def writer_reader(ctx, g, rd):
    """T4: the printer and the parser walk the same index and chamber ranges and agree on the dimension default (necessary for the
    round trip; the value-level agreement of the two fill disciplines is NOT decided)"""
    ctx.clauses.append("printer and parser agree on ranges and on the dimension default (T4 writer/reader agreement)")
    wr = ctx.body("dsets::DSet::fmt")
    ctx.scan([wr])
    me = ("param", 1, wr.debug.get(1, ""))
    def R(lo, hi, incl):
        return (("int", lo), hi, incl)
    dim_w, size_w = ("call", "dsets::DSet::dim", (me,)), ("call", "dsets::DSet::size", (me,))
    w_ranges = [range_of(wr, ("local", it, ""), g) for h, e, it in loops_in(wr) if it is not None]
    # writer: op(i, d) for i in 0..=dim, d in 1..=size ; m(i, i+1, d) for i in 0..dim over orbit_reps_2d(i, i+1)
    okw_ops = False
    for bi, t in wr.calls(exact="dsets::DSet::op"):
        a = [norm(wr.origin(x), g) for x in t["args"]]
        ri, rd_ = loop_range_of_payload(wr, a[1], g), loop_range_of_payload(wr, a[2], g)
        okw_ops = ri == R(0, dim_w, True) and rd_ == R(1, size_w, True)
    okw_ms = False
    for bi, t in wr.calls(exact="dsets::DSet::m"):
        a = [norm(wr.origin(x), g) for x in t["args"]]
        ri = loop_range_of_payload(wr, a[1], g)
        src = iter_source(wr, a[3], g)
        nxt = ("field", ("binop", "AddWithOverflow", a[1], ("int", 1)), "0")
        okw_ms = ri == R(0, dim_w, False) and a[2] == nxt and src == ("call", "dsets::DSet::orbit_reps_2d", (me, a[1], nxt))
    ctx.ob("T4-writer-ranges", wr.name, "ops: 0..=dim x 1..=size; degrees: 0..dim over orbit_reps_2d(i, i+1)", "ok" if okw_ops and okw_ms else "violation",
           "the printer emits operations for all indices and chambers and one degree m(i, i+1, d) per 2-orbit representative" if okw_ops and okw_ms else
           "the printer's loops are not ops over 0..=dim() x 1..=size() and degrees m(i, i+1, d) over 0..dim() x orbit_reps_2d(i, i+1) (ops ok: %s, degrees ok: %s)" % (okw_ops, okw_ms))
    # the emission condition itself is decided exactly by printer_table (T4-printer-table)
    # reader ranges
    spec_dim = None
    okr_ops = okr_ms = False
    for bi, t in rd.calls(exact="dsets::PartialDSet::set"):
        a = [norm(rd.origin(x), g) for x in t["args"]]
        ri, rdd = loop_range_of_payload(rd, a[1], g), loop_range_of_payload(rd, a[2], g)
        if ri and rdd:
            okr_ops = ri[0] == ("int", 0) and ri[2] and ri[1][0] == "field" and ri[1][2] == "dim" and rdd[0] == ("int", 1) and rdd[2] and rdd[1][0] == "field" and rdd[1][2] == "size"
            # consumed only when still unassigned
            fa = [atom_norm(x, g) for x in rd.facts_at(bi, deep=True)]
            okr_ops = okr_ops and any(implies(h, ("rel", "Eq", ("call", "dsets::PartialDSet::op_unchecked", (a[0], a[1], a[2])), ("int", 0))) for h in fa)
    for bi, t in rd.calls(exact="dsyms::PartialDSym::set_v"):
        a = [norm(rd.origin(x), g) for x in t["args"]]
        ri, rdd = loop_range_of_payload(rd, a[1], g), loop_range_of_payload(rd, a[2], g)
        if ri and rdd:
            okr_ms = ri[0] == ("int", 0) and not ri[2] and ri[1][0] == "field" and ri[1][2] == "dim" and rdd[0] == ("int", 1) and rdd[2] and rdd[1][0] == "field" and rdd[1][2] == "size"
            v = a[3]
            okr_ms = okr_ms and v[0] == "binop" and v[1] == "Div" and contains(v[3], lambda x: isinstance(x, tuple) and x and x[0] == "call" and x[1] == "dsets::DSet::r" and
                                                                                  x[2][1] == a[1] and x[2][2] == ("field", ("binop", "AddWithOverflow", a[1], ("int", 1)), "0") and x[2][3] == a[2])
    ctx.ob("T4-reader-ranges", rd.name, "ops: 0..=dim x 1..=size (first unassigned); degrees: 0..dim x 1..=size, v = m / r(i, i+1, d)", "ok" if okr_ops and okr_ms else "violation",
           "the parser consumes images for unassigned (i, d) over 0..=dim x 1..=size and degrees over 0..dim x 1..=size with v = m / r(i, i+1, d)" if okr_ops and okr_ms else
           "the parser's fill loops do not range like the printer's (ops ok: %s, degrees ok: %s): texts produced by Display are mis-read" % (okr_ops, okr_ms))
    # completeness of the fill loop (so that the is_complete assertion of SimpleDSet::from_partial cannot fire): whenever (i, d) is still
    # unassigned, every path that continues the loop passes set(i, d, ..); all other paths leave the function (with an Err)
    okfill = False
    for bi, t in rd.calls(exact="dsets::PartialDSet::set"):
        lp = loop_containing(rd, bi)
        if lp is None:
            continue
        a = [norm(rd.origin(x), g) for x in t["args"]]
        zero = ("rel", "Eq", ("call", "dsets::PartialDSet::op_unchecked", (a[0], a[1], a[2])), ("int", 0))
        # the first block in the loop body where `op_unchecked(i, d) == 0` is known
        lbody = loop_body(rd, lp[0], lp[1])
        starts = [s_ for (a_, s_), ps in rd.edge_preds().items() if a_ in lbody and s_ in lbody and
                  any(implies(atom_norm(h, g), zero) for term, val in ps for h in atoms_of(term, val))]
        okfill = bool(starts) and all(must_pass_through(rd, s_, bi, lp[0]) for s_ in starts)
    ctx.ob("T3-fill-complete", rd.name, "unassigned (i, d) -> set(i, d, ..) or Err", "ok" if okfill else "violation",
           "every still-unassigned entry is assigned before the loop continues (or parsing ends with an error): the D-set is complete when it is converted" if okfill else
           "an unassigned entry (i, d) can be left unassigned while the fill loop continues: SimpleDSet::from_partial then panics on its completeness assertion")
    # dimension default: printer omits dim exactly for 2, grammar defaults to 2
    wconst = None
    for bi, blk in wr.live_blocks():
        t = blk["term"]
        if t["k"] == "switch":
            d = norm(wr.origin(t["discr"]), g)
            if d[0] == "binop" and d[1] in ("Eq", "Ne") and d[2] == dim_w and d[3][0] == "int":
                wconst = d[3][1]
    rconst = None
    for c in ctx.facts.closures.get("parse_dsym::extents", []):
        r = norm(ctx.facts.bodies[c].local_origin(0), g)
        if r[0] == "agg" and len(r[2]) == 2 and r[2][1][0] == "int":
            rconst = r[2][1][1]
    ctx.ob("T4-dimension-default", "dsets::DSet::fmt ~ parse_dsym::extents", "omitted dimension", "ok" if wconst is not None and wconst == rconst else "violation",
           "the printer omits the dimension exactly when it is %s and the grammar defaults to %s" % (wconst, rconst) if wconst is not None and wconst == rconst else
           "printer omits the dimension for dim == %s but the grammar's default is %s: printed symbols of that dimension parse with another dimension" % (wconst, rconst))


def grammar_total(ctx, g):
    """the grammar's own functions and closures (which nom calls back with arbitrary text) contain no panic site: no unwrap/expect, no
    index, no overflowing arithmetic, no assertion.  The nom combinators themselves are axiom A3; T5 from from_str does not see through
    them (the grammar functions are passed as fn items), so this is decided per body."""
    ctx.clauses.append("the grammar functions and closures handed to nom cannot panic on any text (T5, per body)")
    eng = T5(ctx.facts, max_depth=3)
    bodies = [b for d, b in sorted(ctx.facts.bodies.items()) if d.startswith("parse_dsym::") and not b.f.get("test") and "::test" not in d]
    ctx.scan(bodies)
    ctx.floor("grammar functions and closures in parse_dsym", len(bodies), 10)
    for b in bodies:
        left = [c for c in eng.raw_clauses(b, 0) if eng.discharge(b, c, lambda t: True)[0] != "discharged"]
        what = sorted({"%s" % (c.kind,) for c in left})
        ctx.ob("T5-grammar-total", b.name, "panic sites", "ok" if not left else "violation",
               "no panic site survives local discharge" if not left else
               "the grammar can panic on some text: %d undischarged panic condition(s) %s, e.g. %s" % (len(left), what, eng.sig_atom(left[0].trig[0], b)[:90] if left[0].trig else ""),
               left[0].span if left and getattr(left[0], "span", None) else None)


def acceptance_tables(ctx, g):
    """what from_str accepts, as decision tables over the parsed numbers (nothing of the parser is run): the header is accepted exactly for size >= 1,
    dim >= 1, dim + 1 operation lists, dim degree lists and at least size / 2 images per operation; an operation image di is written exactly when
    1 <= di <= size and its own entry is still free; a degree m is stored exactly when it is a multiple of the orbit length r, as v = m / r at
    (i, d) for the first chamber d of each orbit whose v is still 0; the list cursors start at 0 and advance by 1 per entry used; left-over entries
    are an error.  A text that Display writes for a valid symbol passes every one of these tests only if they are exactly these"""
    ctx.clauses.append("from_str acceptance: header (size >= 1, dim >= 1, dim + 1 op lists, dim degree lists, size / 2 <= shortest op list), image 1..=size at a free entry, degree a multiple of r stored as m / r, cursors 0, +1 (T4, path conditions evaluated)")
    b = ctx.body(ENTRY)
    spec = None
    for bi, t in b.calls("PartialDSet::new"):
        a0 = strip(norm(b.origin(t["args"][0]), g))
        if a0[0] == "field" and a0[2] == "size":
            spec = strip(a0[1])
    bad = None
    if spec is None:
        bad = "PartialDSet::new(spec.size, spec.dim) not found"
    else:
        F_ = lambda n: ("field", spec, n)
        new_sites = {bi for bi, t in b.calls("PartialDSet::new")}
        def val(s_, d_, o_, m_, mn):
            def f(y):
                if y == F_("size"):
                    return s_
                if y == F_("dim"):
                    return d_
                if y[0] == "call" and y[1].endswith("::len") and strip(y[2][0]) == F_("op_spec"):
                    return o_
                if y[0] == "call" and y[1].endswith("::len") and strip(y[2][0]) == F_("m_spec"):
                    return m_
                if y[0] == "call" and y[1].endswith("unwrap_or") and contains(y, lambda z: is_call(z, "Iterator::min")):
                    return mn
                return None
            return f
        cases = [((1, 1, 2, 1, 1), True), ((0, 1, 2, 1, 0), False), ((1, 0, 1, 0, 1), False), ((2, 2, 3, 2, 1), True), ((4, 2, 3, 2, 1), False), ((3, 2, 3, 2, 1), True),
                 ((2, 2, 2, 2, 1), False), ((2, 2, 4, 2, 1), False), ((2, 2, 3, 1, 1), False), ((2, 2, 3, 3, 1), False), ((5, 3, 4, 3, 2), True), ((6, 3, 4, 3, 2), False), ((1, 3, 4, 3, 0), True)]
        for c, want in cases:
            r = reachable_sites(b, g, new_sites, val(*c))
            if bool(r) != want:
                bad = bad or "a header with size %d, dimension %d, %d operation lists, %d degree lists, shortest operation list %d is %s" % (c + ("accepted" if r else "rejected",))
    ctx.ob("T4-acceptance", b.name, "header", "ok" if not bad else "violation", "13 headers accepted / rejected as specified" if not bad else bad)
    # operation images
    bad = None
    sets = [(bi, [strip(norm(b.origin(x), g)) for x in t["args"]]) for bi, t in b.calls(exact="dsets::PartialDSet::set")]
    if len(sets) != 1:
        bad = "%d set(..) calls" % len(sets)
    else:
        sb_, a = sets[0]
        dset, i_t, d_t, di = a
        def val2(dv, sz, ent, cur):
            def f(y):
                if y == di:
                    return dv
                if (y[0] == "field" and strip(y[1]) == dset and y[2] == "size") or (y[0] == "call" and y[1].endswith("::size") and strip(y[2][0]) == dset):
                    return sz
                if spec is not None and y == ("field", spec, "size"):
                    return sz        # dset = PartialDSet::new(spec.size, spec.dim)
                if y[0] == "call" and y[1].endswith("op_unchecked") and strip(y[2][2]) == di:
                    return ent
                if y[0] == "call" and y[1].endswith("op_unchecked") and strip(y[2][2]) == d_t:
                    return cur
                return None
            return f
        for dv, sz, ent, cur, want in ((1, 4, 0, 0, True), (4, 4, 0, 0, True), (0, 4, 0, 0, False), (5, 4, 0, 0, False), (2, 4, 3, 0, False), (2, 4, 0, 1, False)):
            r = reachable_sites(b, g, {sb_}, val2(dv, sz, ent, cur))
            if bool(r) != want:
                bad = bad or "image %d in a set of size %d, its own entry %s, the entry being filled %s: the image is %s" % (dv, sz, "free" if ent == 0 else "taken", "free" if cur == 0 else "already defined", "written" if r else "not written")
        # cursors
        ks = []
        cursors = set()
        for l, nm in b.debug.items():
            if b.local_ty(l) == "usize" and not b.is_stable_local(l):
                ds_ = [strip(norm(d, g)) for dbb, d in b.all_defs_origins(l)]
                loc = ("local", l, nm)
                if len(ds_) == 2 and any(unov_deep(d) == ("binop", "Add", loc, ("int", 1)) for d in ds_):
                    ks.append([eval_int(d) for d in ds_ if eval_int(d) is not None])
                    cursors.add(l)
        if not bad and ks != [[0], [0]]:
            bad = "the two list cursors are not `k = 0; k += 1`: initial values %s" % ks
        # left-over entries: the outer loop goes on to its next list exactly when the cursor has reached the end of the current one
        for (h, e, it) in [lp for lp in loops_in(b) if loop_containing(b, lp[0]) is None]:
            for kv, lv, want in ((2, 2, True), (1, 2, False), (0, 1, False), (0, 0, True)):
                def f(y, kv=kv, lv=lv):
                    y = strip(y)
                    if y[0] == "local" and y[1] in cursors:
                        return kv
                    if y[0] == "call" and y[1].endswith("::len"):
                        return lv
                    return None
                r = bool(reachable_sites(b, g, {h}, f, start=e))
                if r != want and not bad:
                    bad = "a list of %d entries of which %d were used: parsing %s" % (lv, kv, "goes on" if r else "stops with an error")
    ctx.ob("T4-acceptance", b.name, "operation images / cursors", "ok" if not bad else "violation", "image written iff 1 <= di <= size, its entry free, at a free entry; cursors from 0 by 1" if not bad else bad)
    # degrees
    bad = None
    sv = [(bi, [strip(norm(b.origin(x), g)) for x in t["args"]]) for bi, t in b.calls("PartialDSym::set_v")]
    if len(sv) != 1:
        bad = "%d set_v(..) calls" % len(sv)
    else:
        vb, a = sv[0]
        dsym, i_t, d_t, val_ = a
        q = unov_deep(val_)
        if not (q[0] == "binop" and q[1] == "Div"):
            bad = "the branching number stored is not m / r"
        else:
            m_t, r_t = strip(q[2]), strip(q[3])
            okr = is_call(r_t, "Option::<T>::unwrap") and is_call(strip(r_t[2][0]), "DSet::r") and [strip(z) for z in strip(r_t[2][0])[2]][0] == dsym and \
                strip(strip(r_t[2][0])[2][1]) == i_t and unov_deep(strip(strip(r_t[2][0])[2][2])) == ("binop", "Add", i_t, ("int", 1)) and strip(strip(r_t[2][0])[2][3]) == d_t
            if not okr:
                bad = "r is not dsym.r(i, i + 1, d) of the orbit being assigned"
            else:
                def val3(mv, rv, vcur):
                    def f(y):
                        if unov_deep(strip(y)) == m_t:
                            return mv
                        if unov_deep(strip(y)) == r_t:
                            return rv
                        if y[0] == "call" and y[1].endswith("PartialEq::eq") and any(is_call(strip(z), "DSym::v") for z in y[2]):
                            return vcur
                        return None
                    return f
                for mv, rv, vcur, want in ((6, 3, 1, True), (6, 4, 1, False), (0, 3, 1, True), (6, 3, 0, False), (3, 3, 1, True)):
                    r = reachable_sites(b, g, {vb}, val3(mv, rv, vcur))
                    if bool(r) != want:
                        bad = bad or "degree %d for an orbit of length %d whose v is %s: the degree is %s" % (mv, rv, "still 0" if vcur else "already set", "stored" if r else "not stored")
                eqs = [[strip(norm(b.origin(x), g)) for x in t["args"]] for bi, t in b.calls("PartialEq::eq")]
                okz = any(any(is_call(z, "DSym::v") and unov_deep(strip(z[2][2])) == ("binop", "Add", strip(z[2][1]), ("int", 1)) for z in e_) and
                          any(z[0] == "agg" and z[1].endswith("Option::Some") and eval_int(z[2][0]) == 0 for z in e_) for e_ in eqs)
                if not bad and not okz:
                    bad = "an orbit is taken as unassigned by a test other than dsym.v(i, i + 1, d) == Some(0)"
    ctx.ob("T4-acceptance", b.name, "degrees", "ok" if not bad else "violation", "stored iff v(i, i + 1, d) == Some(0) and m % r == 0, as m / r with r = r(i, i + 1, d)" if not bad else bad)


def grammar_assembly(ctx, g):
    """the grammar reads `< counts : extents : lists : lists >` in this order and its map closure puts the first number of `extents` into
    `size`, the second into `dim`, the first group of lists into `op_spec`, the second into `m_spec` - the order Display writes them in.
    Exchanging two components type-checks (all are usize / Vec<Vec<usize>>) and only shows for symbols with size != dim or on the lists."""
    ctx.clauses.append("grammar assembly: `<` counts `:` extents `:` op lists `:` degree lists `>`; size, dim, op_spec, m_spec taken from components 3.0, 3.1, 5, 7 (T4)")
    b = ctx.body("parse_dsym::dsymbol")
    ctx.scan([b])
    bad = None
    seq = None
    for bi, t in b.calls("nom::sequence::tuple"):
        a = strip(norm(b.origin(t["args"][0]), g))
        if a[0] == "agg" and len(a[2]) == 9:
            seq = [strip(x) for x in a[2]]
    if seq is None:
        bad = "the nine-part sequence of the grammar was not found"
    else:
        def sep(x):
            cs = [eval_int(y[2][0]) for y in subterms(x) if isinstance(y, tuple) and y and y[0] == "call" and y[1].endswith("complete::char")]
            return chr(cs[0]) if len(cs) == 1 and cs[0] is not None else None
        got = [sep(x) if k % 2 == 0 else (x[1] if x[0] == "fn" else None) for k, x in enumerate(seq)]
        want = ["<", "parse_dsym::counts", ":", "parse_dsym::extents", ":", "parse_dsym::int_lists", ":", "parse_dsym::int_lists", ">"]
        if got != want:
            bad = "the grammar reads %s, not %s" % (" ".join(str(x).replace("parse_dsym::", "") for x in got), " ".join(x.replace("parse_dsym::", "") for x in want))
    cl = [c for c in ctx.facts.closures.get("parse_dsym::dsymbol", [])]
    adt = ctx.facts.adts.get("parse_dsym::DSymSpec")
    if not bad and (len(cl) != 1 or adt is None):
        bad = "the map closure of the grammar / DSymSpec was not found"
    elif not bad:
        r = strip(norm(ctx.facts.bodies[cl[0]].local_origin(0), g))
        names = [f["name"] for f in adt["variants"][0]["fields"]]
        if not (r[0] == "agg" and r[1].endswith("DSymSpec") and len(r[2]) == len(names)):
            bad = "the map closure does not build a DSymSpec directly"
        else:
            def comp(t):
                path = []
                t = strip(t)
                while t[0] == "field":
                    path.append(str(t[2]))
                    t = strip(t[1])
                return ".".join(reversed(path)) if t[0] == "param" else None
            flow = {n: comp(x) for n, x in zip(names, r[2])}
            want = {"size": "3.0", "dim": "3.1", "op_spec": "5", "m_spec": "7"}
            for n, w in want.items():
                if flow.get(n) != w:
                    bad = bad or "DSymSpec.%s is taken from component %s of the parsed sequence (expected %s)" % (n, flow.get(n), w)
    ctx.ob("T4-grammar-assembly", b.name, "sequence and field flows", "ok" if not bad else "violation",
           "`<` counts `:` extents `:` lists `:` lists `>`; size <- 3.0, dim <- 3.1, op_spec <- 5, m_spec <- 7" if not bad else bad)


def printer_table(ctx, g):
    """what Display writes, as a decision table over (i, d, e = op(i, d)) - nothing is run: within one pass of the operation loops a `,` is written
    exactly for i > 0, an image exactly when e >= d (complete symbols: e >= 1), preceded by a blank exactly for d > 1, and the value written is
    e itself; in the degree loops a `,` exactly for i > 0, a blank exactly for d > 1, the value m(i, i + 1, d) for every representative; the
    size-only header is written exactly for dimension 2.  FromStr consumes one image per still-unassigned (i, d) in the same order, so any
    other emission condition prints a pair twice or not at all."""
    ctx.clauses.append("Display decision table: `,` iff i > 0, image iff e >= d, blank iff d > 1, one degree per representative, size-only header iff dim == 2 (T4, path conditions evaluated)")
    wr = ctx.body("dsets::DSet::fmt")
    me = ("param", 1, wr.debug.get(1, ""))
    writes = []
    for bi, t in wr.calls("fmt::Formatter::<'a>::write_fmt"):
        a = strip(norm(wr.origin(t["args"][1]), g))
        lit = None
        shown = []
        if a[0] == "call" and a[1].endswith("::from_str") and a[2] and a[2][0][0] == "str":
            lit = a[2][0][1]
        else:
            shown = [strip(y[2][0]) for y in subterms(a) if isinstance(y, tuple) and y and y[0] == "call" and y[1].endswith("new_display")]
        writes.append((bi, lit, shown))
    def outer_header(bi):
        best = None
        for h, e, it in loops_in(wr):
            if bi in loop_body(wr, h, e) and (best is None or best[0] in loop_body(wr, h, e) and best[0] != h):
                best = (h, e, it)
        return best
    def payload(it):
        return ("field", ("variant", ("call", "std::iter::Iterator::next", (("local", it, wr.debug.get(it, "")),)), "Some"), "0")
    def is_payload(y):
        return y[0] == "field" and y[1][0] == "variant" and y[1][2] == "Some" and y[1][1][0] == "call" and y[1][1][1].endswith("Iterator::next")
    def reach(bi, env_of):
        lp = outer_header(bi)
        if lp is None:
            return None
        def f(y):
            y = unov_deep(strip(y))
            return env_of(y)
        return bool(reachable_sites(wr, g, {bi}, f, start=lp[1]))
    bad = None
    # image write: shows unwrap_or(op(self, i, d), 0)
    img = [(bi, sh[0]) for bi, lit, sh in writes if len(sh) == 1 and is_call(sh[0], "unwrap_or") and is_call(strip(sh[0][2][0]), "DSet::op")]
    deg = [(bi, sh[0]) for bi, lit, sh in writes if len(sh) == 1 and is_call(sh[0], "unwrap_or") and is_call(strip(sh[0][2][0]), "DSet::m")]
    if len(img) != 1 or len(deg) != 1:
        bad = "%d image writes and %d degree writes (one each expected)" % (len(img), len(deg))
    else:
        ib, e_t = img[0]
        opc = strip(e_t[2][0])
        i_t, d_t = strip(opc[2][1]), strip(opc[2][2])
        e_u = unov_deep(e_t)
        def env1(iv, dv, ev):
            def f(y):
                if y == unov_deep(i_t):
                    return iv
                if y == unov_deep(d_t):
                    return dv
                if y == e_u:
                    return ev
                return None
            return f
        lpi = outer_header(ib)
        in_ops = loop_body(wr, lpi[0], lpi[1]) if lpi else set()
        commas = [bi for bi, lit, sh in writes if lit == "," and bi in in_ops]
        blanks = [bi for bi, lit, sh in writes if lit == " " and bi in in_ops]
        if len(commas) != 1 or len(blanks) != 1:
            bad = "operation lists: %d `,` writes and %d blank writes (one each expected)" % (len(commas), len(blanks))
        else:
            for iv, dv, ev in ((0, 1, 1), (0, 1, 2), (1, 2, 1), (1, 2, 3), (2, 2, 2), (0, 3, 2), (2, 3, 3), (1, 1, 4), (0, 4, 1)):
                r = reach(ib, env1(iv, dv, ev))
                if r != (ev >= dv):
                    bad = bad or "operation %d, chamber %d with image %d: the image is %s" % (iv, dv, ev, "written" if r else "not written")
                r = reach(blanks[0], env1(iv, dv, ev))
                if r != (ev >= dv and dv > 1):
                    bad = bad or "operation %d, chamber %d with image %d: a blank is %s" % (iv, dv, ev, "written" if r else "not written")
                r = reach(commas[0], env1(iv, dv, ev))
                if r != (iv > 0):
                    bad = bad or "operation list %d: a `,` is %s before it" % (iv, "written" if r else "not written")
        # degree lists
        db, m_t = deg[0]
        mc = strip(m_t[2][0])
        mi_t, md_t = strip(mc[2][1]), strip(mc[2][3])
        def env2(iv, dv):
            def f(y):
                if y == unov_deep(mi_t):
                    return iv
                if y == unov_deep(md_t):
                    return dv
                return None
            return f
        lpd = outer_header(db)
        in_deg = loop_body(wr, lpd[0], lpd[1]) if lpd else set()
        commas = [bi for bi, lit, sh in writes if lit == "," and bi in in_deg]
        blanks = [bi for bi, lit, sh in writes if lit == " " and bi in in_deg]
        if not bad and (len(commas) != 1 or len(blanks) != 1):
            bad = "degree lists: %d `,` writes and %d blank writes (one each expected)" % (len(commas), len(blanks))
        elif not bad:
            for iv, dv in ((0, 1), (0, 2), (1, 1), (1, 3), (2, 2)):
                if not reach(db, env2(iv, dv)):
                    bad = bad or "degree list %d, representative %d: no degree is written" % (iv, dv)
                r = reach(blanks[0], env2(iv, dv))
                if r != (dv > 1):
                    bad = bad or "degree list %d, representative %d: a blank is %s" % (iv, dv, "written" if r else "not written")
                r = reach(commas[0], env2(iv, dv))
                if r != (iv > 0):
                    bad = bad or "degree list %d: a `,` is %s before it" % (iv, "written" if r else "not written")
        # separators between the sections and the closing bracket are outside the loops and unconditional
        for ch in (":", ">"):
            ws_ = [bi for bi, lit, sh in writes if lit == ch]
            if not bad and (len(ws_) != 1 or loop_containing(wr, ws_[0]) is not None):
                bad = "the `%s` after the %s is not written exactly once outside the loops" % (ch, "operation lists" if ch == ":" else "degree lists")
        # header: size only iff dim == 2
        dim_w, size_w = ("call", "dsets::DSet::dim", (me,)), ("call", "dsets::DSet::size", (me,))
        h1 = [bi for bi, lit, sh in writes if sh == [size_w]]
        h2 = [bi for bi, lit, sh in writes if sh == [size_w, dim_w]]
        if not bad and (len(h1) != 1 or len(h2) != 1):
            bad = "header writes: %d showing the size only, %d showing size and dimension (one each expected)" % (len(h1), len(h2))
        elif not bad:
            for dv in (1, 2, 3, 4):
                def f(y, dv=dv):
                    return dv if strip(y) == dim_w else None
                r1, r2 = bool(reachable_sites(wr, g, {h1[0]}, f)), bool(reachable_sites(wr, g, {h2[0]}, f))
                if (r1, r2) != (dv == 2, dv != 2):
                    bad = bad or "dimension %d: the header is written %s" % (dv, "without the dimension" if r1 and not r2 else "with the dimension" if r2 and not r1 else "in both forms" if r1 else "not at all")
    ctx.ob("T4-printer-table", wr.name, "separators / emission / header", "ok" if not bad else "violation",
           "`,` iff i > 0; image iff e >= d, blank iff d > 1; one degree per representative; size-only header iff dim == 2" if not bad else bad)


def run(ctx):
    g = ctx.facts.getters()
    # Display prints m = r * v of every adjacent index pair at the orbit representatives: a range guard in r / v that rejects an in-range
    # query (`i > size()` for `i > dim()`) prints 0 there and the text no longer parses back to an equal symbol (shared rule, see C02)
    from . import c02
    c02.none_outside_ranges(ctx, g)
    c02.walk_closing(ctx, g)
    acceptance_tables(ctx, g)
    printer_table(ctx, g)
    grammar_assembly(ctx, g)
    body = ctx.body(ENTRY)
    reach = ctx.facts.reachable(ENTRY)
    ctx.scan(ctx.facts.bodies[d] for d in reach)
    ctx.clauses += ["parse is total w.r.t. every number in the text (T5 untrusted-input)", "parsed degrees are multiples of orbit lengths (T3)",
                    "parsed operations are involutions on 1..size (pairing guard + set writes both directions)"]
    if not any(True for _ in body.calls(exact=PARSER)):
        raise AnchorMissing(ENTRY + " -> " + PARSER)

    def has_parse(t):
        return contains(t, lambda s: isinstance(s, tuple) and s and s[0] == "call" and s[1] == PARSER)
    # term -> type, term -> name for the stable locals of from_str
    ty_of, name_of_t = {}, {}
    for l in range(body.argc + 1, len(body.f["locals"])):
        if not body.is_stable_local(l):
            continue
        t = norm(body.local_origin(l), g)
        ty = body.local_ty(l).replace("&", "").replace("'{erased} ", "").strip()
        if ty in INT_TYS:
            ty_of[t] = ty
        if body.debug.get(l):
            name_of_t.setdefault(t, body.debug[l])
    # integer fields of the parsed spec
    spec_adt = ctx.facts.adts.get("parse_dsym::DSymSpec")
    if spec_adt is None:
        raise AnchorMissing("parse_dsym::DSymSpec")
    int_fields = {f["name"] for v in spec_adt["variants"] for f in v["fields"] if f["ty"] in INT_TYS}

    # a D-set built by PartialDSet::new(size, dim) from parsed numbers keeps them as its size / dim (no writer of these fields outside the
    # constructors and grow()), through every conversion: `<anything derived from that local>.dim` is the parsed dimension
    built = {}
    for l in range(body.argc + 1, len(body.f["locals"])):
        for dbb, d in body.all_defs_origins(l):
            d = norm(d, g)
            if is_call(d, "PartialDSet::new") and len(d[2]) == 2 and any(has_parse(a) for a in d[2]):
                built[l] = d[2]

    def built_field(t):
        """`<derived from a D-set built by PartialDSet::new(size, dim)>.dim` -> the dim argument of that constructor call"""
        if isinstance(t, tuple) and t and t[0] == "field" and t[2] in ("dim", "size") and not has_parse(t):
            ls = [x for x in subterms(t[1]) if x[0] == "local" and x[1] in built]
            if ls:
                return built[ls[0][1]][1 if t[2] == "dim" else 0]
        return None

    def tracked(t):
        if not isinstance(t, tuple) or not t or not has_parse(t):
            return False
        if t in ty_of:
            return True
        if t[0] == "field" and t[2] in int_fields:
            return True
        if t[0] == "call" and t[1].endswith("::len") and len(t[2]) == 1:
            return True
        return False

    def name_of(t):
        if t in name_of_t:
            return name_of_t[t]

        if t[0] == "field" and t[2] in int_fields and has_parse(t):
            return "spec." + t[2]
        if t[0] == "field" and has_parse(t) and t[1][0] == "field" and t[1][2] == "1":
            return "spec." + str(t[2])
        return None

    eng = T5(ctx.facts, max_depth=4)
    eng.rewrite = built_field
    n = eng.evaluate_entry(ctx, "T5-untrusted-input", ENTRY, tracked, name_of=name_of)
    ctx.floor("panic sites depending on parsed numbers", n, 10)
    ctx.notes.append("T5 stats: %s; functions reachable from from_str: %d" % (eng.stats, len(reach)))

    # assertions about the D-set that was built from the text: the text decides the contents of that D-set, so an assertion on the way to
    # the result that speaks about its contents is a condition on the input.  The only one on the reference tree is SimpleDSet::from_partial's
    # `assert!(ds.is_complete())`, which the fill loop of from_str establishes (T3-fill-complete below); any other one (e.g. "far-apart
    # operations commute") can be violated by a syntactically valid text and turns a parse into a panic.
    eng.inprogress.add(ENTRY)
    try:
        raw_all = eng.raw_clauses(body, 0, phi=False)
    finally:
        eng.inprogress.discard(ENTRY)
    nas = 0
    for c in raw_all:
        if c.kind != "assert" or len(c.chain) < 2:
            continue
        terms = [x for a in c.trig for y in a[1:] if isinstance(y, tuple) for x in subterms(y)]
        if not any(x[0] == "local" and x[1] in built for x in terms) or any(has_parse(x) for x in terms if isinstance(x, tuple)):
            continue
        if any(x[0] == "rel" for x in c.trig) and all(x[0] == "rel" and x[1] in ("Lt", "Le") for x in c.trig):
            continue          # range assertions on indices / chambers: decided by the T5 obligations above
        nas += 1
        justified = any(a[0] in ("bool", "rel") and any(isinstance(y, tuple) and is_call(strip(y), "::is_complete") for y in a[1:]) for a in c.trig)
        chain = ">".join(x.split("::")[-1] for x in c.chain[1:])
        ctx.ob("T5-assert-on-built-dset", ENTRY, "%s:%s" % (chain, "is_complete" if justified else show_atom(c.trig[0])[:50]), "ok" if justified else "violation",
               "completeness of the built D-set is established by the fill loop (every still-undefined entry is either set or the text is rejected)" if justified else
               "an assertion about the contents of the D-set built from the text (%s, via %s) is not established by from_str: a syntactically valid text that violates it makes parse() panic instead of returning Err" % (
                   " & ".join(show_atom(a)[:60] for a in c.trig), chain), c.span)
    ctx.floor("assertions about the built D-set on the parse path", nas, 1)
    writer_reader(ctx, g, body)
    grammar_total(ctx, g)
    # ---- U3: unwrap of a lookup in one of the parsed lists needs a dominating comparison on that list's length
    nu = 0
    for bi, t in body.calls("option::Option::<T>::unwrap"):
        a = norm(body.origin(t["args"][0]), g)
        if not (a[0] == "call" and a[1].endswith("::get") and len(a[2]) == 2 and has_parse(a[2][0])):
            continue
        lst = a[2][0]
        nu += 1
        ok = False
        for f in body.facts_at(bi):
            f = atom_norm(f, g)
            if f[0] == "rel" and any(contains(x, lambda s_: isinstance(s_, tuple) and s_ and s_[0] == "call" and s_[1].endswith("::len") and s_[2] and s_[2][0] == lst) for x in (f[2], f[3])):
                ok = True
        ctx.ob("T5-list-length-guard", ENTRY, "unwrap(get(%s, i))" % (name_of(lst) or "list"), "ok" if ok else "violation",
               "a comparison on the list's len() dominates the unwrap" if ok else "a lookup in a parsed list is unwrapped without any dominating test of that list's length", body.span_of(bi))
    ctx.floor("unwraps of lookups in parsed lists", nu, 2)

    # ---- U4: set_v(i, d, m / r) dominated by m % r == 0
    sv = list(body.calls(exact="dsyms::PartialDSym::set_v"))
    ctx.floor("set_v calls in from_str", len(sv), 1)
    for bi, t in sv:
        v = norm(body.origin(t["args"][3]), g)
        ok = False
        if v[0] == "binop" and v[1] == "Div":
            m, r = v[2], v[3]
            for a in body.facts_at(bi):
                a = atom_norm(a, g)
                if a[0] == "rel" and a[1] == "Eq" and a[3] == ("int", 0) and a[2] == ("binop", "Rem", m, r):
                    ok = True
                # m and r are usize (set_v's parameter type): `!(m % r > 0)` and `m % r < 1` say the same
                if a[0] == "rel" and a[2] == ("binop", "Rem", m, r) and ((a[1] == "Le" and a[3] == ("int", 0)) or (a[1] == "Lt" and a[3] == ("int", 1))):
                    ok = True
        ctx.ob("T3-degree-multiple", ENTRY, "set_v(i, d, m / r)", "ok" if ok else "violation",
               "the stored branching number m / r is dominated by m % r == 0 on the same m and r" if ok else
               "a degree that is not a multiple of the orbit length can be stored (no dominating m % r == 0 on the operands of the division): " + show(v, 1)[:80], body.span_of(bi))
    # ---- set is the only writer of PartialDSet.op entries in scope, and writes both directions
    st = ctx.body("dsets::PartialDSet::set")
    writes = []
    for bi, si, s in st.assigns():
        pass
    idxm = [(bi, t) for bi, t in st.calls("ops::IndexMut::index_mut")]
    keys = [norm(st.origin(t["args"][1]), g) for bi, t in idxm]
    i_, d_, e_ = [("param", k, st.debug.get(k, "")) for k in (2, 3, 4)]
    me = ("param", 1, st.debug.get(1, ""))
    both = any(k == ("call", "dsets::PartialDSet::idx", (me, i_, d_)) for k in keys) and any(k == ("call", "dsets::PartialDSet::idx", (me, i_, e_)) for k in keys)
    ctx.require(both, "T1-set-writes-both-directions", st.name, "op[idx(i,d)], op[idx(i,e)]", "set writes entry (i,d) and entry (i,e)",
                "PartialDSet::set no longer writes both directions of the pairing: " + "; ".join(show(k, 1) for k in keys))
    for d in reach:
        b = ctx.facts.bodies[d]
        for bi, si, s in b.assigns():
            rv = s["rv"]
            if rv["k"] in ("ref", "rawptr") and (rv.get("mut") or rv["k"] == "rawptr") and any(e["k"] == "field" and e.get("adt") == "dsets::PartialDSet" and e["name"] == "op" for e in rv["place"]["p"]):
                ok = d in ("dsets::PartialDSet::set", "dsets::PartialDSet::grow")
                ctx.ob("T1-set-only-writer", d, "mutborrow:PartialDSet.op", "ok" if ok else "violation",
                       "entries are written only by PartialDSet::set" if ok else "operation entries are written outside PartialDSet::set on the parse path", b.span_of(bi, si))
