"""C16 - simplification driver: PARTIAL claim (DESIGN 11.6).  Only the structural part is decided: simplify() returns at a fixpoint of all
four moves, every move's output is re-merged, merge_all merges tiles/facets in the primal and in the dual and returns in the original
orientation, and the result is built branch-free by as_dsym.  Topology preservation of the individual moves is NOT decided."""
from ..core import *
from ..templates import *

M = "simplify::"
MOVES = ("fix_local_1_vertex", "fix_local_2_vertex", "fix_non_disk_face", "split_and_glue")

EXPLANATION = (
    "PARTIAL. Decided (driver discipline, necessary for the clauses 'a connected result has a single tile and a single vertex and no edge, "
    "face or tile of degree 2' and 'the result is branch-free'): (1) simplify() tries the four moves fix_local_1_vertex, fix_local_2_vertex, "
    "fix_non_disk_face and split_and_glue on the current D-set and returns only when its `changed` flag is false, the flag being reset in "
    "every round and set on every path on which a move returned Some: the result is a fixpoint of all four moves; (2) the output of every "
    "move, and the input itself, passes through merge_all before it becomes the current D-set; (3) merge_all applies its table of steps to "
    "one carried D-set, keeps every Some(out), and the table merges tiles and then facets both before the first dualisation and between "
    "the first and the second, with an even number of dualisations (the result has the input's orientation: tiles stay tiles); (4) the "
    "value returned is as_dsym of the current D-set (None exactly for Empty), and as_dsym assigns branching 1 everywhere (branch-free); "
    "(5) every literal pair list handed to reglue is a perfect matching of a set of chambers that is closed under the old operation "
    "(existing chambers: each re-paired chamber's old partner is re-paired too, words compared modulo d.i.i = d and d.i.j = d.j.i for |i-j| > 1; "
    "freshly grown chambers: each listed exactly once) - otherwise the operation stops being an involution and build_set panics; "
    "(6) fix_local_2_vertex squeezes only faces not glued to each other; (6a) cut_face / cut_tile, evaluated symbolically on their pair lists (size 100; cut lengths "
    "2, 4, 6): grow appends fixed points, every operation is defined exactly once on every fresh chamber, re-paired old chambers are closed under the old operation, "
    "and the operation pairs (0,2), (0,3), (1,3) commute at the fresh chambers wherever the walk stays among chambers the primitive names; (6b) collapse writes its two "
    "renumbering maps as inverses over the kept chambers, re-routes by e = e.connector.i exactly while e is removed, builds size - |remove| chambers, and at each of its "
    "five call sites removes a union of orbits of the D-set it collapses under an index set containing the connector (table of connectors: facet 3, edge of degree 2: 2); (7) the frozen loop structure (T10) and the stale-snapshot lint (T11) of simplify.rs, cutsets.rs and fundamental_group.rs. NOT decided: "
    "that any move or merge preserves the manifold/its fundamental group, sphericity of tiles and vertex figures, absence of panics on "
    "pseudo-toroidal covers, canonical-form invariance under renumbering -- these quantify over the topology of the rewriting system and "
    "have no necessary condition visible in the shape of the code.")
TRUSTED = ["rustc MIR lowering", "Option::or / Option::unwrap semantics"]
ASSUMPTIONS = ["input legal for simplify (complete, branch-free 3D D-set with spherical tiles and vertex figures)"]


def fn_items(body, ops):
    out = []
    for o in ops:
        t = body.origin(o)
        fns = [x[1] for x in subterms(t) if isinstance(x, tuple) and x and x[0] == "fn"]
        out.append(fns[0] if fns else None)
    return out


def fn_tables(body):
    """[(bb, [fn names])] for array literals of fn items"""
    out = []
    for bi, si, s in body.assigns():
        rv = s["rv"]
        if rv["k"] == "aggregate" and rv.get("agg") == "array":
            names = fn_items(body, rv["ops"])
            if names and all(n is not None for n in names):
                out.append((bi, names))
    return out


def indirect_calls(body):
    return [(bi, blk["term"]) for bi, blk in body.live_blocks() if blk["term"]["k"] == "call" and not blk["term"]["callee"].get("def")]


def resolve_ref(body, t, g):
    t = strip(norm(t, g))
    for _ in range(4):
        if t[0] == "local":
            ds = body.all_defs_origins(t[1])
            if len(ds) == 1:
                t = strip(norm(ds[0][1], g))
                continue
        break
    return t


def op_word(t, base, depth=0):
    """t as `base` followed by a word of operation indices (applied left to right), through op(..).unwrap(), walk(.., [..]) and Some(..)"""
    t = strip(t)
    if t == base:
        return []
    if depth > 12 or not isinstance(t, tuple):
        return None
    if t[0] == "agg" and t[1].endswith("Option::Some") and len(t[2]) == 1:
        return op_word(t[2][0], base, depth + 1)
    if is_call(t, "Option::<T>::unwrap") or is_call(t, "Option::<T>::expect"):
        return op_word(t[2][0], base, depth + 1)
    if t[0] == "call" and (t[1].endswith("DSet::op") or t[1].endswith("::op_unchecked")) and len(t[2]) == 3:
        i = eval_int(t[2][1])
        w = op_word(t[2][2], base, depth + 1)
        return None if i is None or w is None else w + [i]
    if t[0] == "call" and t[1].endswith("DSet::walk") and len(t[2]) == 3:
        w = op_word(t[2][1], base, depth + 1)
        idx = strip(t[2][2])
        if w is None or idx[0] != "agg":
            return None
        js = [eval_int(x) for x in idx[2]]
        return None if any(j is None for j in js) else w + js
    return None


def reduce_word(w):
    out = []
    for i in w:
        if out and out[-1] == i:
            out.pop()           # the operations are involutions
        else:
            out.append(i)
    return tuple(out)


def excluded_words(body, bb, base, g):
    """canonical words w with a dominating fact `base . w != base` at block bb (a relation u = v is base = base . v . u^-1; w and w^-1
    describe the same relation)"""
    out = set()
    for a in body.facts_at(bb):
        a = atom_norm(a, g)
        l = r = None
        if a[0] == "rel" and a[1] == "Ne":
            l, r = a[2], a[3]
        elif a[0] == "bool" and a[2] is False and is_call(a[1], "PartialEq::eq"):
            l, r = a[1][2]
        if l is None:
            continue
        wl, wr = op_word(l, base), op_word(r, base)
        if wl is None or wr is None:
            continue
        w = reduce_word(wr + wl[::-1])
        out.add(min(w, w[::-1]))
    return out


def squeeze_guard(ctx, g):
    """fix_local_2_vertex: at a 2-valent vertex (r(1, 2, d) == 2) the two faces are squeezed together only if the chamber e = d.2.3 on
    the other face is not d itself and is not d rotated by one corner step in EITHER direction (d.2.3.0.1 != d and d.2.3.1.0 != d):
    otherwise the two faces are glued to each other and squeezing changes the manifold (lens spaces L(p, 1) lose 3 from p)"""
    ctx.clauses.append("fix_local_2_vertex squeezes only faces that are not glued to each other by the identity or a one-step rotation in either direction (T3)")
    b = ctx.body(M + "fix_local_2_vertex")
    sites = list(b.calls(exact=M + "squeeze_tile_3d"))
    ctx.floor("squeeze_tile_3d calls in fix_local_2_vertex", len(sites), 1)
    for bi, t in sites:
        fa = [atom_norm(a, g) for a in b.facts_at(bi)]
        base = None
        for a in fa:
            if a[0] == "rel" and a[1] == "Eq" and is_call(a[2], M + "r") and a[3] == ("int", 2) and [eval_int(x) for x in a[2][2][1:3]] == [1, 2]:
                base = strip(a[2][2][3])
        ctx.ob("T3-squeeze-guard", b.name, "r(1, 2, d) == 2", "ok" if base is not None else "violation",
               "the move is applied at a vertex of degree 2 in its tile" if base is not None else "the squeeze is not dominated by r(ds, 1, 2, d) == 2", b.span_of(bi))
        if base is None:
            continue
        ex = excluded_words(b, bi, base, g)
        want = {"d.2.3 != d": (2, 3), "d.2.3.0.1 != d": (2, 3, 0, 1), "d.2.3.1.0 != d": (2, 3, 1, 0)}
        missing = [k for k, w in want.items() if min(w, w[::-1]) not in ex]
        ctx.ob("T3-squeeze-guard", b.name, "faces not glued to each other", "ok" if not missing else "violation",
               "the squeeze is dominated by d.2.3 != d, d.2.3.0.1 != d and d.2.3.1.0 != d" if not missing else
               "the squeeze is not excluded when %s fails (dominating exclusions, as words: %s): the two faces at the vertex are glued to each other and squeezing them changes the manifold" % (
                   " / ".join(missing), sorted(ex)), b.span_of(bi))


def rooted_word(t, depth=0):
    """(root term, [operation indices applied left to right]) for root.op(i1).op(i2)...; (t, []) when t is not such a lookup"""
    t = strip(t)
    if depth > 12 or not isinstance(t, tuple):
        return t, []
    if t[0] == "agg" and t[1].endswith("Option::Some") and len(t[2]) == 1:
        return rooted_word(t[2][0], depth + 1)
    if is_call(t, "Option::<T>::unwrap") or is_call(t, "Option::<T>::expect"):
        return rooted_word(t[2][0], depth + 1)
    if t[0] == "call" and (t[1].endswith("DSet::op") or t[1].endswith("::op_unchecked")) and len(t[2]) == 3:
        i = eval_int(t[2][1])
        if i is not None:
            r, w = rooted_word(t[2][2], depth + 1)
            return r, w + [i]
    return t, []


def canon_word(w):
    """normal form under d.i.i = d and d.i.j = d.j.i for |i - j| > 1 (both hold in every D-set this module handles)"""
    w = list(w)
    changed = True
    while changed:
        changed = False
        k = 0
        while k + 1 < len(w):
            if w[k] == w[k + 1]:
                del w[k:k + 2]
                changed = True
                k = max(k - 1, 0)
            elif abs(w[k] - w[k + 1]) > 1 and w[k] > w[k + 1]:
                w[k], w[k + 1] = w[k + 1], w[k]
                changed = True
                k = max(k - 1, 0)
            else:
                k += 1
    return tuple(w)


def reglue_pairs(ctx, g):
    """reglue(ds, pairs, k) overwrites op(k, .) on the listed chambers only. The result is a D-set (op k an involution) only if the listed chambers
    are closed under the OLD op(k, .) - otherwise a chamber keeps pointing at a partner that no longer points back - and each is listed once.
    For the literal pair lists: (a) pairs of existing chambers (squeeze_tile_3d, fix_local_1_vertex, fix_non_disk_face): every component x has its
    old partner x.k in the list; (b) pairs of freshly grown chambers nu[c] (cut_face; fixed points of every operation): each c once, and all of them"""
    ctx.clauses.append("literal pair lists passed to reglue are perfect matchings of a set of chambers closed under the old operation (T9)")
    n_sites = n_lit = 0
    for fn in ("squeeze_tile_3d", "fix_local_1_vertex", "fix_non_disk_face", "cut_face", "cut_tile"):
        b = ctx.body(M + fn)
        ctx.scan([b])
        for bi, t in b.calls(exact=M + "reglue"):
            n_sites += 1
            pairs = strip(norm(b.origin(t["args"][1]), g))
            k = eval_int(norm(b.origin(t["args"][2]), g))
            if not (pairs[0] == "agg" and pairs[1] == "array"):
                continue          # iterator-built lists (cut_face index 1, cut_tile): not decided here
            n_lit += 1
            comps = []
            okshape = k is not None
            for p in pairs[2]:
                p = strip(p)
                if p[0] == "agg" and p[1] == "tuple" and len(p[2]) == 2:
                    comps += [strip(p[2][0]), strip(p[2][1])]
                else:
                    okshape = False
            if not okshape:
                ctx.ob("T9-reglue-pairs", b.name, "reglue #%d" % n_lit, "violation", "pair list / index not a literal: %s" % show(pairs, 1)[:60], b.span_of(bi))
                continue
            fresh = [c for c in comps if is_call(c, "Index::index") or c[0] == "index"]
            if fresh and len(fresh) == len(comps):
                idx = [eval_int(c[2][1] if c[0] == "call" else c[2]) for c in comps]
                srcs = {c[2][0] if c[0] == "call" else c[1] for c in comps}
                rng = None
                for s in srcs:
                    s = strip(s)
                    s = strip(s[2][0]) if is_call(s, "Iterator::collect") else s
                    r = range_of(b, s, g)
                    if r:
                        rng = eval_term_env(("binop", "Sub", r[1], r[0]), {}) if False else r
                width = None
                if rng is not None and len(srcs) == 1:
                    lo, hi = rng[0], rng[1]
                    size = ("field", ("param", 1, b.debug.get(1, "")), "size")
                    a_, b_ = eval_term_env(unov_term(lo), {size: 100}), eval_term_env(unov_term(hi), {size: 100})
                    if a_ is not None and b_ is not None:
                        width = b_ - a_ + (1 if rng[2] else 0)
                ok = None not in idx and len(set(idx)) == len(idx) and width is not None and sorted(idx) == list(range(width))
                ctx.ob("T9-reglue-pairs", b.name, "op %s of the fresh chambers" % k, "ok" if ok else "violation",
                       "each of the %d fresh chambers is paired exactly once" % width if ok else
                       "the pairs for operation %s list fresh chambers %s (of %s grown): a chamber listed twice loses the involution, one left out stays a fixed point where the cut surface must be closed" % (k, idx, width), b.span_of(bi))
                continue
            rw = [(r, canon_word(w)) for r, w in (rooted_word(c) for c in comps)]
            bad = None
            if len(set(rw)) != len(rw):
                bad = "a chamber is listed twice in the pairs for operation %s" % k
            for (r, w), c in zip(rw, comps):
                if (r, canon_word(list(w) + [k])) not in rw:
                    bad = bad or "%s (= %s . %s) is re-paired under operation %s but its old partner under that operation is not in the list: the old partner keeps pointing at it, operation %s is no longer an involution (build_set panics or the D-set is invalid)" % (
                        show(c, 1)[:40], show(r, 1)[:20], list(w), k, k)
            ctx.ob("T9-reglue-pairs", b.name, "op %s of existing chambers" % k, "ok" if not bad else "violation",
                   "the %d re-paired chambers are closed under the old operation %s and listed once" % (len(comps), k) if not bad else bad, b.span_of(bi))
    ctx.floor("reglue call sites", n_sites, 11)
    ctx.floor("reglue call sites with a literal pair list", n_lit, 6)


class Glue:
    """symbolic evaluation of the pair lists a cutting primitive hands to reglue: fresh chambers are integers (size = 100), existing
    chambers are (root, canonical operation word)"""

    def __init__(self, ctx, body, g, env):
        self.ctx, self.b, self.g, self.env = ctx, body, g, env
        self.F = ctx.facts

    def num(self, t):
        return eval_term_env(unov_term(fold_std_ops(t)), self.env)

    def items(self, t):
        """the integers an iterator term runs over"""
        t = strip(t)
        r = range_of(self.b, t, self.g)
        if r:
            lo, hi = self.num(r[0]), self.num(r[1])
            if lo is None or hi is None:
                raise ValueError("range bounds %s" % show(t, 1)[:60])
            return list(range(lo, hi + (1 if r[2] else 0)))
        raise ValueError("iterator %s" % show(t, 1)[:60])

    def pairs(self, t):
        t = strip(t)
        if is_call(t, "Iterator::chain"):
            return self.pairs(t[2][0]) + self.pairs(t[2][1])
        if is_call(t, "iter::empty"):
            return []
        if t[0] == "agg" and t[1] == "array":
            return [self.pair(p) for p in t[2]]
        if is_call(t, "Iterator::map"):
            return [self.pair(apply_closure(self.F, t[2][1], [("int", k)], self.g)) for k in self.items(t[2][0])]
        if is_call(t, "Fn::call") or is_call(t, "FnMut::call_mut") or is_call(t, "FnOnce::call_once"):
            a = strip(t[2][1])
            args = list(a[2]) if a[0] == "agg" else [a]
            r = apply_closure(self.F, t[2][0], args, self.g)
            if r is None:
                raise ValueError("closure %s" % show(t[2][0], 1)[:60])
            return self.pairs(r)
        raise ValueError("pair list %s" % show(t, 1)[:80])

    def pair(self, p):
        p = strip(p) if p is not None else None
        if p is None or not (p[0] == "agg" and p[1] == "tuple" and len(p[2]) == 2):
            raise ValueError("pair %s" % (show(p, 1)[:60] if p else p))
        return self.val(p[2][0]), self.val(p[2][1])

    def val(self, t, depth=0):
        t = strip(t)
        if depth > 8:
            raise ValueError("depth")
        n = self.num(t)
        if n is not None:
            return n
        ix = as_index(t)
        if ix:
            base, k = ix
            k = self.num(k)
            if k is None:
                raise ValueError("index %s" % show(t, 1)[:60])
            if is_call(base, "Iterator::collect"):
                src = strip(base[2][0])
                if is_call(src, "Iterator::map"):
                    inner = strip(src[2][0])
                    inner = strip(inner[2][0]) if is_call(inner, "::iter") or (inner[0] == "call" and inner[1].endswith("::iter")) else inner
                    el = ("index", inner, ("int", k))
                    return self.val(apply_closure(self.F, src[2][1], [el], self.g), depth + 1)
                return self.items(src)[k]
            if is_call(base, "box_assume_init_into_vec_unsafe"):
                # norm() drops the allocation marker that tells vec! literals apart: accept only a function with a single literal
                lits = [[self.b.origin(o) for o in s_["rv"]["ops"]] for _, _, s_ in self.b.assigns()
                        if s_["rv"]["k"] == "aggregate" and s_["rv"].get("agg") == "array" and any(e["k"] == "deref" for e in s_["place"]["p"])]
                if len(lits) != 1:
                    raise ValueError("%d vec! literals" % len(lits))
                return self.val(norm(lits[0][k], self.g), depth + 1)
            if base[0] == "param":
                return ((base[2], k), ())
            raise ValueError("indexed %s" % show(base, 1)[:60])
        r, w = rooted_word(t)
        if w:
            rv = self.val(r, depth + 1)
            if isinstance(rv, int):
                raise ValueError("operation on a fresh chamber %s" % show(t, 1)[:60])
            return (rv[0], canon_word(list(rv[1]) + w))
        if t[0] in ("param", "local"):
            return (t, ())
        raise ValueError("chamber %s" % show(t, 1)[:60])


def glue_tables(ctx, b, g, env, fresh):
    """{op index: [(x, y)]} for the reglue calls of b, evaluated with env; plus the structural checks on them.  -> (tables, problem)"""
    G = Glue(ctx, b, g, env)
    tabs = {}
    grows = [G.num(norm(b.origin(t["args"][1]), g)) for bi, t in b.calls(exact=M + "grow")]
    if grows != [len(fresh)]:
        return None, "grow is asked for %s chambers where the gluing uses %d" % (grows, len(fresh))
    for bi, t in b.calls(exact=M + "reglue"):
        k = eval_int(norm(b.origin(t["args"][2]), g))
        if k is None or k in tabs:
            return None, "reglue index %s not a distinct literal" % k
        try:
            tabs[k] = G.pairs(norm(b.origin(t["args"][1]), g))
        except (ValueError, IndexError, TypeError) as e:
            return None, "pairs for operation %s cannot be evaluated (%s)" % (k, e)
    for k, ps in sorted(tabs.items()):
        comps = [x for p in ps for x in p]
        if len(set(comps)) != len(comps):
            return tabs, "a chamber is listed twice in the pairs for operation %d: %s" % (k, sorted([c for c in set(comps) if comps.count(c) > 1], key=str)[:2])
        fr = sorted(c for c in comps if isinstance(c, int))
        if fr != fresh:
            return tabs, "operation %d is not defined on every fresh chamber exactly once (fresh chambers %d..%d, listed %s)" % (k, fresh[0], fresh[-1], fr)
        for c in comps:
            if not isinstance(c, int) and (c[0], canon_word(list(c[1]) + [k])) not in comps:
                return tabs, "existing chamber %s.%s is re-paired under operation %d but its old partner is not" % (c[0], list(c[1]), k)
    return tabs, None


def commutation_walks(tabs, fresh):
    """for every fresh chamber x and commuting pair (a, b): x.a.b.a.b in the re-glued D-set.  -> (decided, problem)"""
    new = {}
    for k, ps in tabs.items():
        for x, y in ps:
            new[(k, x)] = y
            new[(k, y)] = x
    decided = 0
    for a, b_ in ((0, 2), (0, 3), (1, 3)):
        for x in fresh:
            cur = x
            for j in (a, b_, a, b_):
                if (j, cur) in new:
                    cur = new[(j, cur)]
                elif isinstance(cur, int):
                    return decided, "operation %d is undefined at fresh chamber %d" % (j, cur)
                else:
                    cur = (cur[0], canon_word(list(cur[1]) + [j]))
            if isinstance(cur, int):
                decided += 1
                if cur != x:
                    return decided, "operations %d and %d do not commute at fresh chamber #%d (x.%d.%d.%d.%d = #%d): the result is not a D-set of a tiling" % (a, b_, x - fresh[0], a, b_, a, b_, cur - fresh[0])
    return decided, None


def cut_tables(ctx, g):
    """cut_face and cut_tile insert fresh chambers (8, resp. 2m) and glue them in with four reglue calls.  Evaluated symbolically (size 100;
    m = 2, 4, 6): every operation is defined exactly once on every fresh chamber, re-paired existing chambers are closed under the old operation,
    and the operation pairs (0,2), (0,3), (1,3) commute at every fresh chamber wherever the walk x.a.b.a.b stays among chambers the primitive knows"""
    ctx.clauses.append("cut_face / cut_tile glue every fresh chamber exactly once per operation, consistently with the old gluing, with commuting non-adjacent operations (T4, pair lists evaluated)")
    b = ctx.body(M + "cut_face")
    ctx.scan(ctx.facts.with_closures(b.name))
    size = ("field", ("param", 1, b.debug.get(1, "")), "size")
    fresh = list(range(101, 109))
    tabs, bad = glue_tables(ctx, b, g, {size: 100}, fresh)
    dec = 0
    if not bad and sorted(tabs) != [0, 1, 2, 3]:
        bad = "reglue is called for operations %s, not 0..3" % sorted(tabs)
    if not bad:
        dec, bad = commutation_walks(tabs, fresh)
        if not bad and dec < 24:
            bad = "only %d of 24 commutation walks return to a fresh chamber" % dec
    ctx.ob("T4-cut-gluing", b.name, "8 fresh chambers", "ok" if not bad else "violation",
           "operations 0..3 defined once on each fresh chamber, old partners re-paired together, %d commutation walks closed" % dec if not bad else bad)
    b = ctx.body(M + "cut_tile")
    ctx.scan(ctx.facts.with_closures(b.name))
    size = ("field", ("param", 1, b.debug.get(1, "")), "size")
    mlen = ("call", "std::vec::Vec::<T, A>::len", (("param", 2, b.debug.get(2, "")),))
    for m in (2, 4, 6):
        fresh = list(range(101, 101 + 2 * m))
        tabs, bad = glue_tables(ctx, b, g, {size: 100, mlen: m}, fresh)
        dec = 0
        if not bad and sorted(tabs) != [0, 1, 2, 3]:
            bad = "reglue is called for operations %s, not 0..3" % sorted(tabs)
        if not bad:
            dec, bad = commutation_walks(tabs, fresh)
            if not bad and dec < 4 * m:
                bad = "only %d of %d commutation walks (0,3), (1,3) return to a fresh chamber" % (dec, 4 * m)
        ctx.ob("T4-cut-gluing", b.name, "cut of length %d" % m, "ok" if not bad else "violation",
               "operations 0..3 defined once on each of the %d fresh chambers, old partners re-paired together, %d commutation walks closed" % (2 * m, dec) if not bad else bad)


def grow_shape(ctx, g):
    """grow(ds, m) appends m chambers that are fixed points of every operation (what the gluing tables above assume of the fresh chambers)
    and leaves the old ones alone: build_set(size + m, dim, |i, d| if d > size { Some(d) } else { ds.op(i, d) })"""
    b = ctx.body(M + "grow")
    ctx.scan(ctx.facts.with_closures(b.name))
    me, m_ = ("param", 1, b.debug.get(1, "")), ("param", 2, b.debug.get(2, ""))
    size_terms = {("field", me, "size"): 100, ("call", "dsets::DSet::size", (me,)): 100, ("field", me, "dim"): 3, ("call", "dsets::DSet::dim", (me,)): 3}
    sites = list(b.calls("build_set"))
    bad = None
    if len(sites) != 1:
        raise AnchorMissing("grow: build_set call")
    bi, t = sites[0]
    env = dict(size_terms)
    env[m_] = 7
    n_ = eval_term_env(unov_term(fold_std_ops(norm(b.origin(t["args"][0]), g))), env)
    d_ = eval_term_env(unov_term(fold_std_ops(norm(b.origin(t["args"][1]), g))), env)
    if n_ != 107 or d_ != 3:
        bad = "grow(ds, 7) on a D-set of size 100 and dimension 3 builds a set of size %s and dimension %s" % (n_, d_)
    cp = closure_parts(norm(b.origin(t["args"][2]), g))
    if cp is None or cp[0] not in ctx.facts.bodies:
        raise AnchorMissing("grow: operation closure")
    cb = ctx.facts.bodies[cp[0]]
    caps = [norm(c, g) for c in cp[1]]

    def sub(n):
        if n[0] == "field" and n[1][0] == "param" and n[1][1] == 1 and str(n[2]).isdigit() and int(n[2]) < len(caps):
            return caps[int(n[2])]
        return None
    rets = {}
    for bi_, si, s in cb.assigns():
        if s["place"]["l"] == 0 and not s["place"]["p"]:
            rets[bi_] = map_term(norm(cb.rv_origin(s["rv"]), g), sub)
    for bi_, t_ in cb.calls():
        if t_["dest"]["l"] == 0 and not t_["dest"]["p"]:
            rets[bi_] = ("call", t_["callee"].get("def", "?"), tuple(map_term(norm(cb.origin(a), g), sub) for a in t_["args"]))
    i_p, d_p = ("param", 2, cb.debug.get(2, "")), ("param", 3, cb.debug.get(3, ""))
    paths = paths_to(cb, 0, set(rets), g=g)
    n_eval = 0
    for d in (1, 100, 101, 107):
        env = dict(size_terms)
        env.update({i_p: 2, d_p: d})
        hits = []
        for tgt, atoms in paths:
            ev = [eval_atom_env((a[0],) + tuple(map_term(x, sub) if isinstance(x, tuple) else x for x in a[1:]), env) for a in atoms if not is_ovf_atom(a)]
            if any(e is None for e in ev):
                bad = bad or "a branch condition of grow's operation cannot be evaluated"
            elif all(ev):
                hits.append(tgt)
        if len(hits) != 1:
            bad = bad or "grow's operation at chamber %d: %d returns possible" % (d, len(hits))
            continue
        r = strip(rets[hits[0]])
        n_eval += 1
        if d > 100:
            ok = r[0] == "agg" and r[1].endswith("Option::Some") and eval_term_env(r[2][0], env) == d
            bad = bad or (None if ok else "appended chamber %d (size 100) is not a fixed point of the operations: %s" % (d, show(r, 1)[:50]))
        else:
            ok = r[0] == "call" and r[1].endswith("::op") and [strip(x) for x in r[2][1:]] == [i_p, d_p] and strip(r[2][0]) == me
            bad = bad or (None if ok else "old chamber %d does not keep ds.op(i, d): %s" % (d, show(r, 1)[:50]))
    ctx.ob("T4-cut-gluing", b.name, "appended chambers are fixed points", "ok" if not bad and n_eval == 4 else "violation",
           "size + m chambers; d > size -> Some(d), else ds.op(i, d) (4 chambers evaluated)" if not bad and n_eval == 4 else (bad or "not evaluated"))


def collapse_shape(ctx, g):
    """collapse(ds, remove, connector) renumbers the surviving chambers and re-routes every operation i != connector through the removed
    region: e = d.i; while e is removed { e = e.connector.i }.  Decided (shape): the two renumbering maps are written as inverses of each other,
    only for chambers not in `remove`, over 1..=size; the result has size - |remove| chambers; the closure starts at op(i, img2src[d]), steps by
    op(i, op(connector, e)) exactly while src2img[e] == 0 and only for i != connector, and answers src2img[e]"""
    ctx.clauses.append("collapse: inverse renumbering maps over the kept chambers, operations re-routed through the removed region by e.connector.i (T9)")
    b = ctx.body(M + "collapse")
    ctx.scan(ctx.facts.with_closures(b.name))
    # (a) the maps
    stores = []
    for bi, si, s in b.assigns():
        if [e["k"] for e in s["place"]["p"]] == ["deref"]:
            tgt = strip(norm(b.local_origin(s["place"]["l"]), g))
            if is_call(tgt, "IndexMut::index_mut"):
                stores.append((bi, strip(tgt[2][0]), strip(tgt[2][1]), strip(norm(b.rv_origin(s["rv"]), g))))
    bad = None
    if len(stores) != 2:
        bad = "%d indexed stores (expected src2img[d] = next; img2src[next] = d)" % len(stores)
    else:
        (b1, v1, k1, x1), (b2, v2, k2, x2) = stores
        if not (v1 != v2 and k1 == x2 and k2 == x1):
            bad = "the two renumbering maps are not written as inverses: %s[%s] = %s, %s[%s] = %s" % (show(v1, 1), show(k1, 1)[:20], show(x1, 1)[:20], show(v2, 1), show(k2, 1)[:20], show(x2, 1)[:20])
        else:
            src = k1 if is_call(strip(k1[1])[1] if k1[0] == "field" else k1, "Iterator::next") or contains(k1, lambda x: is_call(x, "Iterator::next")) else k2
            cnt = k2 if src is k1 else k1
            r = loop_range_of_payload(b, src, g)
            size = ("field", ("field", ("variant", ("param", 1, b.debug.get(1, "")), "DSet"), "0"), "size")
            okr = r is not None and eval_int(r[0]) == 1 and r[2] and contains(r[1], lambda x: x[0] == "field" and x[2] == "size") and not contains(r[1], lambda x: x[0] == "binop")
            if not okr:
                bad = "the renumbering loop does not run over 1..=size(): %s" % (r,)
            for bb in (b1, b2):
                fa = [atom_norm(a, g) for a in b.facts_at(bb)]
                if not any(a[0] == "bool" and a[2] is False and a[1][0] == "call" and a[1][1].endswith("::contains") and strip(a[1][2][1]) == src for a in fa):
                    bad = bad or "a chamber is numbered without `!remove.contains(&d)` dominating the store"
            if cnt[0] != "local":
                bad = bad or "the new number is not a running counter"
            else:
                defs = [strip(norm(d, g)) for _, d in b.all_defs_origins(cnt[1])]
                inc = [d for d in defs if d[0] == "field" and d[1][0] == "binop" and d[1][1] == "AddWithOverflow" and strip(d[1][2]) == cnt and eval_int(d[1][3]) == 1]
                ini = [d for d in defs if eval_int(d) == 1]
                if len(defs) != 2 or len(inc) != 1 or len(ini) != 1:
                    bad = bad or "the counter is not `next = 1; next += 1` (%s)" % [show(d, 1)[:30] for d in defs]
    ctx.ob("T9-collapse-shape", b.name, "renumbering maps", "ok" if not bad else "violation",
           "src2img[d] = next; img2src[next] = d; next += 1 for every d in 1..=size() not in remove" if not bad else bad)
    # (b) the result and its operation
    sites = list(b.calls("build_set"))
    if len(sites) != 1:
        raise AnchorMissing("collapse: build_set")
    bi, t = sites[0]
    a0 = strip(norm(b.origin(t["args"][0]), g))
    bad = None
    sz = unov_term(a0)
    if not (sz[0] == "binop" and sz[1] == "Sub" and strip(sz[2])[0] == "field" and strip(sz[2])[2] == "size" and is_call(strip(sz[3]), "::len")):
        bad = "the collapsed set is not built with size() - remove.len() chambers: %s" % show(a0, 1)[:60]
    cp = closure_parts(norm(b.origin(t["args"][2]), g))
    if cp is None or cp[0] not in ctx.facts.bodies:
        raise AnchorMissing("collapse: operation closure")
    cb = ctx.facts.bodies[cp[0]]
    caps = [strip(norm(c, g)) for c in cp[1]]
    names = {}
    for k, c in enumerate(caps):
        if c[0] == "local":
            names[b.debug.get(c[1], "")] = ("field", ("param", 1, ""), str(k))
        elif c[0] == "param":
            names[c[2]] = ("field", ("param", 1, ""), str(k))
        else:
            names["ds"] = ("field", ("param", 1, ""), str(k))

    def capn(n):
        x = names.get(n)
        if x is None:
            raise AnchorMissing("collapse closure capture " + n)
        return x
    s2i, i2s, con, dsn = capn("src2img"), names.get("img2src", ("absent",)), capn("connector"), capn("ds")
    i_p, d_p = ("param", 2, cb.debug.get(2, "")), ("param", 3, cb.debug.get(3, ""))

    def un(x):
        x = strip(x)
        return strip(x[2][0]) if is_call(x, "Option::<T>::unwrap") else None

    def opcall(x):
        """(index term, chamber term) for ds.op(i, d)"""
        x = strip(x) if x is not None else None
        if x is not None and x[0] == "call" and x[1].endswith("::op") and len(x[2]) == 3 and strip(x[2][0]) == dsn:
            return strip(x[2][1]), strip(x[2][2])
        return None

    def idx(x, arr):
        ix = as_index(x)
        return strip(ix[1]) if ix and ix[0] == arr else None
    ret = strip(norm(cb.local_origin(0), g))
    e_loc = None
    if ret[0] == "agg" and ret[1].endswith("Option::Some"):
        e_loc = idx(ret[2][0], s2i)
    if e_loc is None or e_loc[0] != "local":
        bad = bad or "the operation does not answer Some(src2img[e]): %s" % show(ret, 1)[:50]
    else:
        defs = [(dbb, strip(norm(d, g))) for dbb, d in cb.all_defs_origins(e_loc[1])]
        start = [d for dbb, d in defs if opcall(un(d)) and opcall(un(d))[0] == i_p and idx(opcall(un(d))[1], i2s) == d_p]
        step = []
        for dbb, d in defs:
            o = opcall(un(d))
            if o and o[0] == i_p:
                o2 = opcall(un(o[1]))
                if o2 and o2[0] == con and o2[1] == e_loc:
                    step.append(dbb)
        if len(defs) != 2 or len(start) != 1 or len(step) != 1:
            bad = bad or "the walk is not `e = ds.op(i, img2src[d]); e = ds.op(i, ds.op(connector, e))`: %s" % [show(d, 1)[:60] for _, d in defs]
        else:
            fa = [atom_norm(a, g) for a in cb.facts_at(step[0])]
            if not any(a[0] == "rel" and a[1] == "Eq" and idx(a[2], s2i) == e_loc and eval_int(a[3]) == 0 for a in fa):
                bad = bad or "the re-routing step is not taken exactly while src2img[e] == 0"
            if not any(a[0] == "rel" and a[1] == "Ne" and {strip(a[2]), strip(a[3])} == {i_p, con} for a in fa):
                bad = bad or "the re-routing step is not restricted to i != connector"
            loops = natural_loops(cb)
            exits = [atom_norm(a, g) for h, blocks in loops for e_, ats in loop_exit_atoms(cb, h, blocks, g) for a in ats]
            if not any(a[0] == "rel" and a[1] == "Ne" and idx(a[2], s2i) == e_loc and eval_int(a[3]) == 0 for a in exits):
                bad = bad or "the walk does not end exactly when src2img[e] != 0"
    ctx.ob("T9-collapse-shape", b.name, "re-routed operation", "ok" if not bad else "violation",
           "size() - remove.len() chambers; e = d.i, while removed e = e.connector.i (i != connector), answer src2img[e]" if not bad else bad)


def collapse_sites(ctx, g):
    """collapse(ds, remove, connector) gives kept chambers whose connector-neighbour was removed the image 0 (no chamber): the removed set has
    to be closed under the connector operation.  At every call the removed set is a union of orbit(indices, .) of THE SAME D-set with
    connector in indices; merge_tiles / merge_facets additionally select, walk and connect with the same indices"""
    ctx.clauses.append("every collapse removes a union of orbits (of the D-set it collapses) under an index set that contains the connector (T9)")
    n = 0
    for fn in ("merge_tiles", "merge_facets", "fix_local_1_vertex", "fix_local_2_vertex", "split_and_glue_attempt"):
        b = ctx.body(M + fn)
        ctx.scan(ctx.facts.with_closures(b.name))
        for bi, t in b.calls(exact=M + "collapse"):
            n += 1
            target = strip(norm(b.origin(t["args"][0]), g))
            if target[0] == "agg" and target[1].endswith("DSetOrEmpty::DSet"):
                target = strip(target[2][0])
            rem = norm(b.origin(t["args"][1]), g)
            con = eval_int(norm(b.origin(t["args"][2]), g))
            orbits = []
            filters = []
            reps = []
            for x in subterms(rem):
                if not isinstance(x, tuple) or not x:
                    continue
                if is_call(x, "DSet::orbit_reps"):
                    reps.append(x)
                elif is_call(x, "DSet::orbit"):
                    orbits.append(x)
                elif x[0] == "agg" and closure_parts(x):
                    r = closure_result(ctx.facts, x, g)
                    if r is None:
                        continue
                    r = strip(r)
                    if is_call(r, "DSet::orbit"):
                        orbits.append(r)
                    else:
                        filters.append(r)
            bad = None
            if con is None or not orbits:
                bad = "removed set is not built from DSet::orbit / connector not a literal"
            # which neighbour takes over: across a removed facet (3-orbits; the whole [0,1,3] disk of a squeezed face) the walk continues in the
            # neighbouring tile (3); across a removed edge of degree 2 it continues on the other face of the SAME tile (2) - with 3 there it would glue
            # the wrong tiles together
            want = {"merge_tiles": 3, "merge_facets": 2, "fix_local_1_vertex": 3, "fix_local_2_vertex": 3, "split_and_glue_attempt": 3}[fn]
            if not bad and con != want:
                bad = "%s re-routes through operation %s; removing %s needs %s" % (fn, con, "an edge of degree 2" if want == 2 else "a facet", want)
            for o in orbits:
                recv = strip(o[2][0])
                if recv[0] == "variant" or (recv[0] == "field" and strip(recv[1])[0] == "variant"):
                    recv_ok = strip(recv) == target or (target[0] == "param" and contains(recv, lambda y: y == target))
                else:
                    recv_ok = recv == target
                idx = strip(o[2][1])
                ids = [eval_int(z) for z in idx[2]] if idx[0] == "agg" else [None]
                if None in ids:
                    bad = bad or "orbit indices not literal"
                elif con not in ids:
                    bad = bad or "the removed set is a union of %s-orbits but the connector is %s: a kept chamber whose %s-neighbour is removed is mapped to chamber 0" % (ids, con, con)
                if not recv_ok:
                    bad = bad or "the removed orbit is computed in %s but %s is collapsed" % (show(recv, 1)[:30], show(target, 1)[:30])
            if fn == "merge_tiles" and not bad:
                ok = any(f[0] == "binop" and f[1] == "Eq" and eval_int(f[3]) == con and strip(f[2])[0] == "field" and strip(f[2])[2] == "1" for f in filters)
                ids = [eval_int(z) for z in strip(orbits[0][2][1])[2]]
                if not ok or ids != [con]:
                    bad = "merge_tiles does not select inner edges of index %s and remove their [%s]-orbits (filters %s, orbit indices %s)" % (con, con, [show(f, 1)[:30] for f in filters], ids)
            if fn == "merge_facets" and not bad:
                ids = [eval_int(z) for z in strip(orbits[0][2][1])[2]]
                rid = [[eval_int(z) for z in strip(r_[2][1])[2]] for r_ in reps]
                fl = [f for f in filters if f[0] == "binop" and f[1] == "Eq" and is_call(strip(f[2]), M + "r") and eval_int(f[3]) == 2]
                fid = [[eval_int(z) for z in strip(f[2])[2][1:3]] for f in fl]
                if rid != [ids] or fid != [ids]:
                    bad = "merge_facets: representatives %s, degree test %s and removed orbits %s do not use one index pair with r == 2" % (rid, fid, ids)
            ctx.ob("T9-collapse-sites", b.name, "collapse(.., %s)" % con, "ok" if not bad else "violation",
                   "removed: orbits under %s of the collapsed D-set, connector %s among them" % ([[eval_int(z) for z in strip(o[2][1])[2]] for o in orbits], con) if not bad else bad, b.span_of(bi))
    ctx.floor("collapse call sites", n, 5)


def in_loop(body, bb):
    return any(bb in blocks for h, blocks in natural_loops(body))


def reglue_body(ctx, g):
    """reglue itself: every listed pair (d, e) is entered in BOTH directions - (d, e) and (e, d) - so that the new operation is an involution;
    the rebuilt operation answers the new partner exactly for the re-glued index AND a listed chamber (decided as a truth table over both tests),
    the old ds.op(i, d) otherwise; the set is rebuilt with the old size and dimension."""
    ctx.clauses.append("reglue: pairs entered in both directions; new partner iff i == index and d listed, else the old operation; same size and dimension (T4)")
    b = ctx.body(M + "reglue")
    cls = ctx.facts.closures.get(M + "reglue", [])
    ctx.scan([b] + [ctx.facts.bodies[c] for c in cls])
    bad = None
    both = False
    table_ok = None
    for c in cls:
        cb = ctx.facts.bodies[c]
        r = strip(norm(cb.local_origin(0), g))
        if r[0] == "agg" and r[1] == "array" and len(r[2]) == 2:
            tup = []
            for x in r[2]:
                x = strip(x)
                tup.append(tuple(str(strip(y)[2]) if strip(y)[0] == "field" else "?" for y in x[2]) if x[0] == "agg" and x[1] == "tuple" else None)
            both = sorted(t for t in tup if t) == [("0", "1"), ("1", "0")]
        somes = [dbb for dbb, d in cb.all_defs_origins(0) if strip(norm(d, g))[0] == "agg" and strip(norm(d, g))[1].endswith("Option::Some")]
        olds = [dbb for dbb, d in cb.all_defs_origins(0) if is_call(strip(norm(d, g)), "DSet::op")]
        if somes and olds:
            i_, d_ = ("param", 2, cb.debug.get(2, "")), ("param", 3, cb.debug.get(3, ""))
            newv = strip(norm(dict(cb.all_defs_origins(0))[somes[0]], g))
            look = [y for y in subterms(newv) if is_call(y, "::get")]
            if not (look and strip(look[0][2][1]) == d_):
                bad = "the new partner is not looked up for the chamber asked about"
            oldv = strip(norm(dict(cb.all_defs_origins(0))[olds[0]], g))
            if not bad and [strip(x) for x in oldv[2][1:]] != [i_, d_]:
                bad = "the old operation is not asked for (i, d)"
            def val(same, listed):
                def f(y):
                    y = strip(y)
                    if y == i_:
                        return 7
                    if y[0] == "field" and strip(y[1])[0] == "param" and strip(y[1])[1] == 1 and str(y[2]).isdigit() and cb.local_ty_of_upvar(int(str(y[2]))) in ("usize", "&usize"):
                        return 7 if same else 8
                    if is_call(y, "::contains_key") or is_call(y, "Option::<T>::is_some"):
                        return listed
                    return None
                return f
            table_ok = True
            for same in (0, 1):
                for listed in (0, 1):
                    rn = bool(reachable_sites(cb, g, set(somes), val(same, listed)))
                    ro = bool(reachable_sites(cb, g, set(olds), val(same, listed)))
                    want = bool(same and listed)
                    if (rn, ro) != (want, not want) and not bad:
                        bad = "operation %s the re-glued one, chamber %s: the answer is %s" % ("is" if same else "is not", "listed" if listed else "not listed",
                                                                                              "the new partner" if rn and not ro else "the old operation" if ro and not rn else "undetermined")
    if not bad and not both:
        bad = "a pair (d, e) is not entered as (d, e) and (e, d): the new operation is not an involution"
    if not bad and table_ok is None:
        bad = "the rebuilt operation (new partner / old operation) was not found"
    bs = [[strip(norm(b.origin(x), g)) for x in t["args"]] for bi, t in b.calls("build_set")]
    ds = ("param", 1, b.debug.get(1, ""))
    def dimq(t, n):
        t = strip(t)
        return (t[0] == "field" and strip(t[1]) == ds and t[2] == n) or (is_call(t, "::" + n) and strip(t[2][0]) == ds)
    if not bad and not (len(bs) == 1 and dimq(bs[0][0], "size") and dimq(bs[0][1], "dim")):
        bad = "the set is not rebuilt with build_set(ds.size(), ds.dim(), ..)"
    ctx.ob("T4-reglue-body", b.name, "both directions / new partner iff re-glued index and listed / same extent", "ok" if not bad else "violation",
           "(d, e) and (e, d); Some(paired[d]) iff i == index && listed, else ds.op(i, d); build_set(size, dim)" if not bad else bad)


def network_cut_flow(ctx, g):
    """network_cut (which face boundary the glued face is cut along): source and sink are two fresh vertex numbers above every skeleton vertex;
    the cut is the minimum vertex cut of network_edges(.., source, sink) between them; the marked chambers are the (1, 2)-orbits (the vertices)
    of cut_with_insides(cut, reps, ds, d); the special chambers are the (0, 1)-orbit - the face - of op(3, d), the PARTNER of the glue face
    (with the glue face itself every cut that touches the partner becomes a chord and is thrown away, depending on the numbering); the walk
    starts at a marked chamber whose 0-neighbour is not marked and gets (ds, start, marked, special) in this order."""
    ctx.clauses.append("network_cut: fresh source / sink, marked = vertices of the cut with its inside, special = partner face op(3, d), start at the rim of the marked set (T4 dataflow)")
    b = ctx.body(M + "network_cut")
    ctx.scan(ctx.facts.with_closures(b.name))
    ds, d = ("param", 1, b.debug.get(1, "")), ("param", 2, b.debug.get(2, ""))
    bad = None
    cp = [[unov_deep(strip(norm(b.origin(x), g))) for x in t["args"]] for bi, t in b.calls(exact=M + "cut_pairs_in_order")]
    if len(cp) != 1:
        bad = "%d calls of cut_pairs_in_order" % len(cp)
    else:
        a = cp[0]
        def through(t, names):
            t = strip(t)
            while t[0] == "call" and any(t[1].endswith(n) for n in names):
                t = strip(t[2][0])
            return t
        sp = through(a[3], ("Iterator::collect", "IntoIterator::into_iter", "::iter", "Iterator::cloned", "Iterator::copied"))
        partner = ("call", "std::option::Option::<T>::unwrap", (("call", "dsets::DSet::op", (ds, ("int", 3), d)),))
        if not (is_call(sp, "DSet::orbit") and strip(sp[2][0]) == ds and strip(sp[2][1]) == ("agg", "array", (("int", 0), ("int", 1))) and strip(sp[2][2]) == partner):
            bad = "the special chambers are not the face orbit([0, 1], op(3, d)) of the partner of the glue face: %s" % show(sp, 2)[:80]
        mk = strip(a[2])
        fm = [y for y in subterms(mk) if is_call(y, "Iterator::flat_map")]
        cwi = [y for y in subterms(mk) if is_call(y, "cut_with_insides")]
        if not bad and (len(fm) != 1 or len(cwi) != 1 or not is_call(mk, "Iterator::collect")):
            bad = "the marked chambers are not collected from cut_with_insides(..) through one flat_map"
        elif not bad:
            cl = strip(fm[0][2][1])
            body_ = None
            if cl[0] == "agg" and cl[1].startswith("closure:"):
                body_ = strip(norm(ctx.facts.bodies[cl[1][len("closure:"):]].local_origin(0), g))
            if not (body_ is not None and is_call(body_, "DSet::orbit") and strip(body_[2][1]) == ("agg", "array", (("int", 1), ("int", 2))) and strip(body_[2][2])[0] == "param"):
                bad = "the marked chambers are not the (1, 2)-orbits (vertices) of the chambers of the cut"
            ca = [strip(x) for x in cwi[0][2]]
            sk = ("call", M + "make_skeleton", (ds,))
            mvc = ca[0]
            if not bad and not (is_call(mvc, "min_vertex_cut_undirected") and ca[1] == ("field", sk, "1") and ca[2] == ds and ca[3] == d):
                bad = "cut_with_insides does not get (minimum vertex cut, reps of the skeleton, ds, d)"
            elif not bad:
                ne, so, si = [strip(x) for x in mvc[2]]
                mx = [y for y in subterms(so) if is_call(y, "Iterator::max")]
                src_ok = so[0] == "binop" and so[1] == "Add" and eval_int(so[3]) == 1 and mx and contains(mx[0], lambda y: y == ("field", sk, "0"))
                if not (src_ok and si == ("binop", "Add", so, ("int", 1))):
                    bad = "source / sink are not max(skeleton vertex numbers) + 1 and source + 1"
                elif not (is_call(ne, "network_edges") and [strip(x) for x in ne[2]] == [ds, d, ("param", 3, b.debug.get(3, "")), ("field", sk, "0"), ("field", sk, "2"), so, si]):
                    bad = "network_edges does not get (ds, d, edge_mode, vertex numbers, skeleton edges, source, sink)"
        st = strip(a[1])
        fd = [y for y in subterms(st) if is_call(y, "Iterator::find")]
        if not bad and len(fd) != 1:
            bad = "the start chamber is not found by one search through the marked chambers"
        elif not bad:
            cl = strip(fd[0][2][1])
            body_ = strip(norm(ctx.facts.bodies[cl[1][len("closure:"):]].local_origin(0), g)) if cl[0] == "agg" and cl[1].startswith("closure:") else None
            okst = body_ is not None and body_[0] == "unop" and body_[1] == "Not" and is_call(strip(body_[2]), "::contains") and \
                is_call(strip(strip(body_[2])[2][1]), "Option::<T>::unwrap") and is_call(strip(strip(strip(body_[2])[2][1])[2][0]), "DSet::op") and \
                eval_int(strip(strip(strip(strip(body_[2])[2][1])[2][0])[2][1])) == 0
            src_marked = contains(fd[0][2][0], lambda y: y == mk) or any(strip(norm(b.local_origin(y[1]), g)) and contains(strip(norm(b.local_origin(y[1]), g)), lambda z: z == mk)
                                                                        for y in subterms(fd[0][2][0]) if isinstance(y, tuple) and y and y[0] == "local")
            if not okst:
                bad = "the start chamber is not a marked chamber whose 0-neighbour is unmarked (`!marked.contains(op(0, e))`)"
    ctx.ob("T4-network-cut-flow", b.name, "source, sink / cut / marked / special / start", "ok" if not bad else "violation",
           "fresh source and sink; marked = (1,2)-orbits of cut_with_insides(min cut); special = orbit([0,1], op(3, d)); start on the rim" if not bad else bad)


def run(ctx):
    g = ctx.facts.getters()
    b = ctx.body(M + "simplify")
    ma = ctx.body(M + "merge_all")
    ctx.scan([b, ma] + [ctx.body(M + m) for m in MOVES])
    ds_in = ("param", 1, b.debug.get(1, ""))
    # ---- (1) the move table
    ctx.clauses.append("simplify() returns at a fixpoint of all four moves (T3/T4)")
    tabs = fn_tables(b)
    ctx.floor("fn-item tables in simplify()", len(tabs), 1)
    names = [n for _, ns in tabs for n in ns]
    missing = [m for m in MOVES if M + m not in names]
    ctx.ob("T4-move-table", b.name, "moves", "ok" if not missing else "violation",
           "all four moves are tried: %s" % [n.split("::")[-1] for n in names] if not missing else
           "the move table lacks %s: simplify() can return a D-set to which that move still applies (degree-2 elements / non-disk faces / splittable tiles remain)" % missing)
    ind = indirect_calls(b)
    ctx.floor("indirect move calls in simplify()", len(ind), 1)
    cur = None       # the carried D-set local
    for bi, t in ind:
        a = resolve_ref(b, b.origin(t["args"][0]), g)
        if a[0] == "local":
            cur = a
        lp = loop_range_of_payload  # (unused; payload checked through the table's into_iter)
        callee_l = None
        op = t["callee"].get("indirect", "")
        okp = False
        try:
            callee_l = int(op.split("_")[-1])
            src = strip(norm(b.local_origin(callee_l), g))
            okp = src[0] == "field" and src[1][0] == "variant" and is_call(src[1][1], "Iterator::next")
        except ValueError:
            pass
        ctx.ob("T4-move-table", b.name, "op(&ds)", "ok" if okp and cur is not None else "violation",
               "each table entry is applied to the current D-set" if okp and cur is not None else "the indirect call is not `table entry`(&current D-set): %s" % show(a, 1)[:50], b.span_of(bi))
    if cur is None:
        raise AnchorMissing("simplify(): carried D-set")
    defs = [(dbb, norm(d, g)) for dbb, d in b.all_defs_origins(cur[1])]
    # ---- (2) every definition of the current D-set is either the input or unwrap(or(merge_all(&X), Some(X)))
    ctx.clauses.append("the input and every move's output pass through merge_all before becoming the current D-set (T9)")

    def merged_of(t):
        """X if t == merge_all(&X).or(Some(X)).unwrap() / .unwrap_or(X); else None"""
        t = strip(t)
        if is_call(t, "Option::<T>::unwrap") and is_call(strip(t[2][0]), "Option::<T>::or"):
            a1, a2 = [strip(x) for x in strip(t[2][0])[2]]
            if is_call(a1, M + "merge_all") and a2[0] == "agg" and a2[1].endswith("Option::Some") and strip(a1[2][0]) == strip(a2[2][0]):
                return strip(a2[2][0])
        if is_call(t, "Option::<T>::unwrap_or"):
            a1, a2 = [strip(x) for x in t[2]]
            if is_call(a1, M + "merge_all") and strip(a1[2][0]) == a2:
                return a2
        return None
    n_in = n_mv = 0
    for dbb, d in defs:
        x = merged_of(d)
        lp = True if in_loop(b, dbb) else None
        if x is None:
            # the only un-merged definition allowed is the initial wrapping of the input, which must be followed by the merged redefinition
            ok0 = lp is None and d[0] == "agg" and d[1].endswith("DSetOrEmpty::DSet") and is_call(strip(d[2][0]), "derived::as_dset") and strip(strip(d[2][0])[2][0]) == ds_in
            ctx.ob("T9-merged", b.name, "ds := " + origin_head(d), "ok" if ok0 else "violation",
                   "initial wrapping DSet(as_dset(input))" if ok0 else "the current D-set is assigned a value that did not pass through merge_all: " + show(d, 1)[:90], b.span_of(dbb))
            continue
        if lp is None:
            n_in += 1
            ok = x == cur
            ctx.ob("T9-merged", b.name, "initial merge", "ok" if ok else "violation", "the input is merged before the first round" if ok else "the initial merge is not applied to the wrapped input: " + show(x, 1)[:60], b.span_of(dbb))
        else:
            n_mv += 1
            ok = x[0] == "field" and x[1][0] == "variant" and x[1][2] == "Some" and x[1][1][0] == "call" and x[1][1][1] == "indirect"
            ctx.ob("T9-merged", b.name, "move output merged", "ok" if ok else "violation",
                   "ds := merge_all(&out).or(Some(out)).unwrap() for the move's own output" if ok else "the value merged is not the output of the move just applied: " + show(x, 1)[:60], b.span_of(dbb))
    ctx.floor("merged definitions of the current D-set (initial + per move)", n_in + n_mv, 2)
    ctx.require(n_in >= 1, "T9-merged", b.name, "initial merge present", "input merged first", "the input is not passed through merge_all before the first round")
    ctx.require(n_mv >= 1, "T9-merged", b.name, "move merge present", "move outputs merged", "no move output is passed through merge_all")
    # ---- (1b) the changed flag
    rets = [bi for bi, si, s in b.assigns() if s["place"]["l"] == 0 and not s["place"]["p"]]
    rets += [bi for bi, t in b.calls() if t["dest"]["l"] == 0 and not t["dest"]["p"]]
    flag = None
    for bi in rets:
        for a in b.facts_at(bi):
            a = atom_norm(a, g)
            if a[0] == "bool" and a[1][0] == "local" and a[2] is False and b.local_ty(a[1][1]) == "bool":
                flag = a[1]
    okflag = flag is not None and all(any(atom_norm(a, g) == ("bool", flag, False) for a in b.facts_at(bi)) for bi in rets)
    ctx.ob("T3-fixpoint", b.name, "return<-!changed", "ok" if okflag else "violation",
           "every return is dominated by changed == false" if okflag else "simplify() can return without its `changed` flag being false (or has no such flag)")
    if flag is not None:
        fdefs = [(dbb, norm(d, g)) for dbb, d in b.all_defs_origins(flag[1])]
        loops = natural_loops(b)
        call_bbs = [bi for bi, t in ind]
        inner = [set(bl) for h, bl in loops if all(c in bl for c in call_bbs)]
        inner_bl = min(inner, key=len) if inner else set()
        outer = [set(bl) for h, bl in loops if inner_bl and inner_bl < set(bl)]
        okr = bool(outer) and any(d == ("int", 0) and any(dbb in bl for bl in outer) and dbb not in inner_bl for dbb, d in fdefs)
        ctx.ob("T3-fixpoint", b.name, "changed = false per round", "ok" if okr else "violation",
               "the flag is reset at the start of every round" if okr else "the `changed` flag is not reset to false inside the outer loop before the moves are tried")
        trues = [dbb for dbb, d in fdefs if d == ("int", 1)]
        okset = bool(trues)
        # every path from a Some(out) edge of the move call to the flag test passes an assignment changed = true
        tests = [bi for bi, blk in b.live_blocks() if blk["term"]["k"] == "switch" and strip(norm(b.origin(blk["term"]["discr"]), g)) == flag]
        for bi, t in ind:
            sw = b.blocks[t["t"]]["term"] if t.get("t") is not None else None
            if not sw or sw["k"] != "switch":
                okset = False
                continue
            some = [tg for v, tg in sw["targets"] if v == 1]
            for sb in some:
                for tb in tests:
                    if tb in b.fwd(sb, cut_nodes=tuple(trues)):
                        okset = False
        ctx.ob("T3-fixpoint", b.name, "Some(out) -> changed = true", "ok" if okset and tests else "violation",
               "every applied move sets the flag before it is tested" if okset and tests else
               "a move can be applied (Some(out)) and the round still counts as unchanged: simplify() returns although further moves may apply")
    # ---- (4) result
    ctx.clauses.append("the result is as_dsym of the current D-set, None exactly for Empty; as_dsym assigns branching 1 everywhere (T9)")
    rd = [(dbb, norm(d, g)) for dbb, d in b.all_defs_origins(0)]
    oks = okn = False
    for dbb, d in rd:
        if d[0] == "agg" and d[1].endswith("Option::Some"):
            x = strip(d[2][0])
            oks = is_call(x, "derived::as_dsym") and strip(x[2][0]) == ("field", ("variant", cur, "DSet"), "0")
            if not oks:
                ctx.ob("T9-result", b.name, "Some(..)", "violation", "the D-symbol returned is not as_dsym(current D-set): " + show(x, 1)[:70], b.span_of(dbb))
        elif d[0] == "agg" and d[1].endswith("Option::None"):
            fa = [atom_norm(a, g) for a in b.facts_at(dbb)]
            okn = any(a[0] in ("variant", "notvariant") and strip(a[1]) == cur for a in fa)
    ctx.ob("T9-result", b.name, "Some(as_dsym(&ds))", "ok" if oks else "violation", "the result is as_dsym of the current D-set" if oks else "no return of as_dsym(current D-set)")
    ctx.ob("T9-result", b.name, "None<-Empty", "ok" if okn else "violation", "None only on the Empty variant" if okn else "None is returned without a test of the current D-set's variant")
    asd = ctx.body("derived::as_dsym")
    ctx.scan(ctx.facts.with_closures(asd.name))
    r = norm(asd.local_origin(0), g)
    okb = False
    if is_call(r, "derived::build_sym_using_vs"):
        res = closure_result(ctx.facts, r[2][1], g)
        okb = res is not None and res[0] == "agg" and res[1].endswith("Option::Some") and strip(res[2][0]) == ("int", 1)
        okb = okb and is_call(strip(r[2][0]), "derived::as_dset") and strip(strip(r[2][0])[2][0]) == ("param", 1, asd.debug.get(1, ""))
    ctx.ob("T9-result", asd.name, "branch-free", "ok" if okb else "violation",
           "as_dsym = build_sym_using_vs(as_dset(ds), |_, _| Some(1))" if okb else "as_dsym no longer assigns branching number 1 to every orbit of as_dset(ds): " + show(r, 1)[:90])
    # ---- (3) merge_all
    ctx.clauses.append("merge_all: tiles then facets merged in the primal and in the dual, even number of dualisations, every Some(out) kept (T4/T9)")
    mt = fn_tables(ma)
    ctx.floor("fn-item tables in merge_all()", len(mt), 1)
    seq = [n.split("::")[-1] for n in (mt[0][1] if mt else [])]
    segs = [[]]
    for n in seq:
        if n == "dual":
            segs.append([])
        else:
            segs[-1].append(n)
    nd = seq.count("dual")
    def seg_ok(s):
        return "merge_tiles" in s and "merge_facets" in s and s.index("merge_tiles") < len(s) - 1 - s[::-1].index("merge_facets") + 1
    okseq = nd >= 2 and nd % 2 == 0 and len(segs) >= 2 and seg_ok(segs[0]) and seg_ok(segs[1])
    ctx.ob("T4-merge-table", ma.name, "steps", "ok" if okseq else "violation",
           "steps %s: tiles and facets merged before the first and before the second dualisation; %d dualisations" % (seq, nd) if okseq else
           "steps %s: %s" % (seq, "an odd number of dualisations returns the dual tiling (tiles and vertices exchanged)" if nd % 2 else
                             "tiles/facets are not merged both in the primal and in the dual: several tiles or vertices survive"))
    mi = indirect_calls(ma)
    ctx.floor("indirect step calls in merge_all()", len(mi), 1)
    mcur = None
    for bi, t in mi:
        a = resolve_ref(ma, ma.origin(t["args"][0]), g)
        if a[0] == "local":
            mcur = a
    okm = False
    if mcur is not None:
        mdefs = [(dbb, norm(d, g)) for dbb, d in ma.all_defs_origins(mcur[1])]
        init = [d for dbb, d in mdefs if not in_loop(ma, dbb)]
        upd = [d for dbb, d in mdefs if in_loop(ma, dbb)]
        p1 = ("param", 1, ma.debug.get(1, ""))
        okinit = len(init) == 1 and (strip(init[0]) == p1 or (is_call(init[0], "Clone::clone") and strip(init[0][2][0]) == p1))
        okupd = len(upd) >= 1 and all(strip(d)[0] == "field" and strip(d)[1][0] == "variant" and strip(d)[1][2] == "Some" and strip(d)[1][1][0] == "call" and strip(d)[1][1][1] == "indirect" for d in upd)
        # every Some(out) edge reaches the store ds = out before the next step
        stores = tuple(dbb for dbb, d in mdefs if in_loop(ma, dbb))
        for bi, t in mi:
            sw = ma.blocks[t["t"]]["term"] if t.get("t") is not None else None
            lp_h = [h for h, bl in natural_loops(ma) if bi in bl]
            if not sw or sw["k"] != "switch" or not lp_h:
                okupd = False
                continue
            for v, sb in sw["targets"]:
                if v == 1 and lp_h[0] in ma.fwd(sb, cut_nodes=stores):
                    okupd = False
        rr = [norm(d, g) for _, d in ma.all_defs_origins(0)]
        okret = len(rr) == 1 and rr[0][0] == "agg" and rr[0][1].endswith("Option::Some") and strip(rr[0][2][0]) == mcur
        okm = okinit and okupd and okret
        why = "init ok: %s, every Some(out) kept: %s, returns Some(carried): %s" % (okinit, okupd, okret)
    else:
        why = "no carried D-set"
    ctx.ob("T9-merge-carried", ma.name, "ds = out", "ok" if okm else "violation",
           "starts from a clone of the input, keeps every Some(out), returns the carried D-set" if okm else "merge_all does not thread one D-set through its steps (%s)" % why)
    squeeze_guard(ctx, g)
    reglue_pairs(ctx, g)
    cut_tables(ctx, g)
    grow_shape(ctx, g)
    collapse_shape(ctx, g)
    collapse_sites(ctx, g)
    network_cut_flow(ctx, g)
    reglue_body(ctx, g)
    ctx.floor("chamber-indexed tables in collapse / make_skeleton", chamber_tables(ctx, "T4-chamber-table", ctx.body(M + "collapse"), g) + chamber_tables(ctx, "T4-chamber-table", ctx.body(M + "make_skeleton"), g), 3)
    for bi, t in mi:
        every_iteration_reaches(ctx, "T3-merge-every-step", ma, bi, "step-loop->op(&ds)", "some step of merge_all's table is skipped")
