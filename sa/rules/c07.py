"""C07 - D-symbol generator: curvature windows, exact scaled curvature, degree bound, output filters, numbering (DESIGN 4/C07)."""
from ..core import *
from ..templates import *

M = "generators::dsym_generators::"
BT = "<generators::dsym_generators::DSymBackTracking as util::backtrack::BackTracking>::"
B_SPEC = 7     # the property: spherical output has branching at most 7 (and minimally hyperbolic assignments need no more)

EXPLANATION = (
    "Decided: (1) the curvature window has the requested sign: from the match tables of Geometries::{min,max}_curvature, Spherical lies in "
    "[1, +inf), Euclidean is {0}, Hyperbolic lies in (-inf, -1], All contains all three; and each window contains curvatures that certainly "
    "occur (Spherical: 4*CURV_FAC and CURV_FAC*4/120; Hyperbolic: -CURV_FAC/42 and everything down to -CURV_FAC/2 * 2^47, i.e. no lower "
    "end a D-set in memory could reach). (2) the scaled integer curvature is exact and "
    "branching is explored up to 7: the constant inclusive upper end B of the branching loop in children() equals 7, CURV_FAC is divisible by "
    "every integer in 1..=B and by 2 (420 = lcm(1..7)), every compute_vmins arm lies in 1..=B, and every division of CURV_FAC in the module has "
    "a divisor that is a branching value (<= B) or 2. (3) every degree is at least 3: each arm r -> v of compute_vmins has r*v >= 3 and the "
    "default arm (r >= 3) has v >= 1. (4) the output is filtered: every way of making extract's `good` true passes curv >= min_curvature and "
    "curv <= max_curvature, and then either base_curvature < 0 or all of next >= orbit_count(), is_good(vs, curv), is_canonical(vs) on the "
    "state's own vs/curv; Some(..) is only built on good == true, from the state's vs and the generator's own D-set; children() pushes a "
    "hyperbolic assignment only under is_minimally_hyperbolic(&vs, curv) on the pushed vs/curv. (5) numbered consecutively from 1. NOT "
    "decided: equality of the output with the oracle sets per geometry (completeness/irredundancy), correctness of the curvature formula.")
TRUSTED = ["rustc MIR lowering", "A7 lcm(1..7) = 420", "generic back-tracking driver (checked under C12)"]
ASSUMPTIONS = ["input: connected complete 2D D-set"]


def run(ctx):
    g = ctx.facts.getters()
    windows(ctx, g)
    b = exactness(ctx, g)
    vmins(ctx, g, b)
    bookkeeping(ctx, g)
    root_state(ctx, g)
    min_hyperbolic(ctx, g)
    good_list(ctx, g)
    orbifold_key(ctx, g)
    canonical_assignment(ctx, g)
    generator_decisions(ctx, g)
    window_operands(ctx, g)
    ctx.clauses.append("the generator's private orientation / orbit routines look at every operation 0..=dim() (T4)")
    gb = [b for d, b in sorted(ctx.facts.bodies.items()) if d.startswith(M) and "{closure" not in d]
    ctx.scan(gb)
    index_ranges_inclusive(ctx, "T4-index-ranges", gb, g, 1)
    filters(ctx, g)
    ctx.clauses.append("numbered consecutively from 1 (T4)")
    counter_rule(ctx, "T4-consecutive-numbering", M + "DSyms::new", "<generators::dsym_generators::DSyms as std::iter::Iterator>::next", "SimpleDSym::from_partial", g)


def orbifold_key(ctx, g):
    """the key looked up in the good-orbifold list is Conway's symbol of the candidate: cone degrees (descending), `*` exactly when the D-set
    has a mirror (a loop - NOT when there happens to be a corner: 2*, 3*, 4* and * have mirrors without corners), corner degrees (descending),
    `x` exactly when not weakly oriented; in this order"""
    ctx.clauses.append("the generator's orbifold key is cones . (* iff the D-set has a loop) . corners . (x iff not weakly oriented), degrees descending (T9)")
    b = ctx.body(M + "DSymBackTracking::orbifold_symbol")
    ctx.scan([b])
    me = ("param", 1, b.debug.get(1, ""))
    ret = strip(norm(b.local_origin(0), g))
    parts = None
    if is_call(ret, "join"):
        arr = strip(ret[2][0])
        while arr[0] == "cast":
            arr = strip(arr[1])
        if arr[0] == "agg" and arr[1] == "array":
            parts = [strip(x) for x in arr[2]]
    bad = None
    if parts is None or len(parts) != 4 or strip(ret[2][1]) != ("str", ""):
        bad = "the key is not the concatenation of four parts: %s" % show(ret, 1)[:80]
    else:
        names = {v: k for k, v in b.debug.items()}

        def lst(x, name):
            return is_call(x, "degree_list_as_string") and strip(x[2][0]) == ("local", names.get(name, -1), name)
        if not (lst(parts[0], "cones") and lst(parts[2], "corners")):
            bad = "the key does not start with the cone degrees and carry the corner degrees in third place: %s / %s" % (show(parts[0], 1)[:40], show(parts[2], 1)[:40])

        def flag(x, what):
            """{literal: [atoms]} for String::from(<&str chosen by a test>)"""
            if not is_call(x, "From::from"):
                return None
            a = strip(x[2][0])
            if a[0] != "local":
                return None
            out = {}
            for dbb, dd in b.all_defs_origins(a[1]):
                dd = strip(norm(dd, g))
                if dd[0] != "str":
                    return None
                out[dd[1]] = [atom_norm(z, g) for z in b.facts_at(dbb)]
            return out
        mid, cross = flag(parts[1], "*"), flag(parts[3], "x")

        def decided_by(fl, mark, callee, recv):
            if fl is None or set(fl) != {"", mark}:
                return False
            def has(atoms, val):
                return any(z[0] == "bool" and z[2] is val and is_call(z[1], callee) and strip(z[1][2][0]) == recv for z in atoms)
            return has(fl[""], True) and has(fl[mark], False)
        if not bad and not decided_by(mid, "*", "DSet::is_loopless", ("field", me, "dset")):
            bad = "the `*` of the key is not decided by `self.dset.is_loopless()` (`*` exactly when the D-set has a mirror): orbifolds with a mirror but no corner (2*, 3*, 4*, *) get a key without `*` and are dropped as bad"
        if not bad and not decided_by(cross, "x", "is_weakly_oriented", me):
            bad = "the `x` of the key is not decided by `self.is_weakly_oriented()`"
        # both lists sorted descending before use
        for name in ("cones", "corners"):
            l = ("local", names.get(name, -1), name)
            srt = [bi for bi, t in b.calls("::sort") if contains(norm(b.origin(t["args"][0]), g), lambda y: y == l)]
            rev = [bi for bi, t in b.calls("::reverse") if contains(norm(b.origin(t["args"][0]), g), lambda y: y == l)]
            use = [bi for bi, t in b.calls("degree_list_as_string") if strip(norm(b.origin(t["args"][0]), g)) == l]
            pushes = [bi for bi, t in b.calls("::push") if contains(norm(b.origin(t["args"][0]), g), lambda y: y == l)]
            ok = len(srt) == 1 and len(rev) == 1 and len(use) == 1 and b.dominates(srt[0], rev[0]) and b.dominates(rev[0], use[0]) and all(srt[0] not in b.fwd(u) for u in use) \
                and all(srt[0] in b.fwd(p_) for p_ in pushes) and not any(p_ in b.fwd(srt[0]) for p_ in pushes)
            if not bad and not ok:
                bad = "the %s are not sorted and reversed (descending) after the last push and before they are printed" % name
    ctx.ob("T9-orbifold-key", b.name, "cones * corners x", "ok" if not bad else "violation",
           "cones (descending), `*` iff !is_loopless, corners (descending), `x` iff !is_weakly_oriented" if not bad else bad)
    # what goes into which list
    want = {("corners", "fix"): False, ("cones", "swap"): False, ("corners", "chain"): False, ("cones", "nochain"): False}
    names = {v: k for k, v in b.debug.items()}
    for bi, t in b.calls("::push"):
        tgt = strip(norm(b.origin(t["args"][0]), g))
        while tgt[0] in ("ref", "deref"):
            tgt = tgt[1]
        nm = b.debug.get(tgt[1], "?") if tgt[0] == "local" else "?"
        val = strip(norm(b.origin(t["args"][1]), g))
        fa = [z for z in (atom_norm(z, g) for z in b.facts_at(bi)) if z[0] != "rel" or (isinstance(z[2], tuple) and isinstance(z[3], tuple))]
        def opx(z, k):
            return z[0] == "call" and z[1].endswith("op_unchecked") and eval_int(z[2][1]) == k
        if eval_int(val) == 2:
            d0_fix = any(z[0] == "rel" and z[1] == "Eq" and opx(strip(z[2]), 0) and strip(z[3]) == strip(strip(z[2])[2][2]) for z in fa)
            d2_fix = any(z[0] == "rel" and z[1] == "Eq" and opx(strip(z[2]), 2) and strip(z[3]) == strip(strip(z[2])[2][2]) for z in fa)
            d0_move = any(z[0] == "rel" and z[1] == "Ne" and opx(strip(z[2]), 0) and strip(z[3]) == strip(strip(z[2])[2][2]) for z in fa)
            d2_d0 = any(z[0] == "rel" and z[1] == "Eq" and {k_ for k_ in (0, 2) if opx(strip(z[2]), k_) or opx(strip(z[3]), k_)} == {0, 2} and
                        strip(strip(z[2])[2][2]) == strip(strip(z[3])[2][2]) for z in fa if z[0] == "rel" and strip(z[2])[0] == "call" and strip(z[3])[0] == "call")
            if nm == "corners" and d0_fix and d2_fix:
                want[("corners", "fix")] = True
            elif nm == "cones" and d0_move and d2_d0:
                want[("cones", "swap")] = True
            else:
                want[("?", show(val, 1))] = False
        else:
            big = any(z[0] == "rel" and z[1] == "Lt" and eval_int(z[2]) == 1 and strip(z[3]) == val for z in fa)
            ch = [z for z in fa if z[0] == "bool" and contains(z[1], lambda y: y[0] == "field" and y[2] == "orbit_is_chain")]
            same_i = val[0] == "index" and all(contains(z[1], lambda y: y == strip(val[2])) for z in ch)
            if big and ch and same_i and nm == "corners" and all(z[2] is True for z in ch):
                want[("corners", "chain")] = True
            elif big and ch and same_i and nm == "cones" and all(z[2] is False for z in ch):
                want[("cones", "nochain")] = True
            else:
                want[("?", show(val, 1)[:30])] = False
    missing = [k for k, v in want.items() if not v]
    ctx.ob("T9-orbifold-key", b.name, "which degree goes where", "ok" if not missing else "violation",
           "2 -> corners at a chamber fixed by 0 and 2, 2 -> cones where 0 and 2 agree off the mirror; v > 1 -> corners on a chain orbit, cones otherwise" if not missing else
           "the degrees are not sorted into cones / corners as: fixed by 0 and 2 -> corner 2; d.0 = d.2 != d -> cone 2; v[i] > 1 on a chain -> corner, else cone (unmatched: %s)" % missing)


def canonical_assignment(ctx, g):
    """irredundancy: an assignment of branching numbers is emitted only if no automorphism of the D-set carries it to a lexicographically LARGER one.
    orbit_maps: for EVERY automorphism `map`, m[orbit_index[i][d]] = orbit_index[i][map[d]] over all adjacent index pairs i in 0..dim and all
    chambers; is_canonical: for EVERY such m the permuted list ws[i] = vs[m[i]] over all orbits is compared with vs as a whole (slice order),
    false exactly on ws > vs"""
    ctx.clauses.append("one assignment per automorphism class: orbit permutations from all automorphisms over all orbits; is_canonical rejects exactly ws > vs for ws[i] = vs[m[i]] (T9)")
    ob = ctx.body(M + "orbit_maps")
    ctx.scan([ob])
    dset, oi = ("param", 1, ob.debug.get(1, "")), ("param", 3, ob.debug.get(3, ""))
    stores = []
    for bi, si, s in ob.assigns():
        if [e["k"] for e in s["place"]["p"]] == ["deref"]:
            tgt = strip(norm(ob.local_origin(s["place"]["l"]), g))
            if is_call(tgt, "IndexMut::index_mut"):
                stores.append((bi, strip(tgt[2][0]), strip(tgt[2][1]), strip(norm(ob.rv_origin(s["rv"]), g))))
    bad = None
    if len(stores) != 1:
        bad = "%d indexed stores" % len(stores)
    else:
        bi, arr, key, val = stores[0]
        k1, k2 = as_index(key), as_index(val)
        k1r = as_index(k1[0]) if k1 else None
        k2r = as_index(k2[0]) if k2 else None
        ok = k1 and k2 and k1r and k2r and k1r[0] == oi and k2r[0] == oi and strip(k1r[1]) == strip(k2r[1])
        if not ok:
            bad = "not m[orbit_index[i][d]] = orbit_index[i][map[d]]: %s <- %s" % (show(key, 1)[:40], show(val, 1)[:40])
        else:
            i_t, d_t = strip(k1r[1]), strip(k1[1])
            md = as_index(strip(k2[1]))
            ri, rd = loop_range_of_payload(ob, i_t, g), loop_range_of_payload(ob, d_t, g)
            msrc = iter_source(ob, md[0], g) if md else None
            if not (md and strip(md[1]) == d_t):
                bad = "the image orbit is not looked up at map[d]"
            elif not (isinstance(msrc, tuple) and contains(norm(msrc, g), lambda y: is_call(y, "DSet::automorphisms") and strip(y[2][0]) == dset)):
                bad = "the maps are not all of dset.automorphisms()"
            elif not (ri and eval_int(ri[0]) == 0 and not ri[2] and (is_call(strip(ri[1]), "::dim") or strip(ri[1]) == ("field", dset, "dim")) and
                      rd and eval_int(rd[0]) == 1 and rd[2] and (is_call(strip(rd[1]), "::size") or strip(rd[1]) == ("field", dset, "size"))):
                bad = "not over all adjacent index pairs i in 0..dim() and all chambers 1..=size()"
            else:
                pushes = [bb for bb, t in ob.calls("::push")]
                lp = loop_containing(ob, bi)
                if len(pushes) != 1:
                    bad = "not one permutation pushed per automorphism"
    ctx.ob("T9-canonical-assignment", ob.name, "orbit permutation", "ok" if not bad else "violation", "m[orbit_index[i][d]] = orbit_index[i][map[d]] for every automorphism, index pair and chamber" if not bad else bad)
    cb = ctx.body(M + "DSymBackTracking::is_canonical")
    ctx.scan(ctx.facts.with_closures(cb.name))
    me, vs = ("param", 1, cb.debug.get(1, "")), ("param", 2, cb.debug.get(2, ""))
    bad = None
    cmps = [(bi, t) for bi, t in cb.calls() if t["callee"].get("def", "").endswith(("PartialOrd::gt", "PartialOrd::lt", "PartialOrd::ge", "PartialOrd::le", "PartialOrd::partial_cmp", "Ord::cmp"))]
    if len(cmps) != 1:
        bad = "%d order comparisons" % len(cmps)
    else:
        bi, t = cmps[0]
        nm = t["callee"]["def"].split("::")[-1]
        a = [strip(norm(cb.origin(x), g)) for x in t["args"]]
        full = lambda z: map_term(z, lambda y: norm(cb.local_origin(y[1]), g) if y[0] == "local" and cb.is_stable_local(y[1]) else None)
        l_, r_ = strip(full(a[0])), strip(full(a[1]))
        is_vs = lambda z: z == vs or (contains(z, lambda y: y == vs) and not contains(z, lambda y: is_call(y, "Iterator::map")))
        if nm == "gt" and is_vs(r_) and not is_vs(l_):
            ws = l_
        elif nm == "lt" and is_vs(l_) and not is_vs(r_):
            ws = r_
        else:
            ws = None
        if ws is None:
            bad = "the test is not `ws > vs` (or `vs < ws`): %s(%s, %s)" % (nm, show(l_, 1)[:30], show(r_, 1)[:30])
        else:
            maps = [y for y in subterms(ws) if is_call(y, "Iterator::map")]
            if len(maps) != 1:
                bad = "ws is not one map over the orbits"
            else:
                res = apply_closure(ctx.facts, strip(maps[0][2][1]), [("local", -1, "i")], g)
                res = strip(res) if res is not None else None
                ai = as_index(res) if res is not None else None
                inner = as_index(strip(ai[1])) if ai else None
                rng = range_of(cb, strip(maps[0][2][0]), g)
                msrc = iter_source(cb, inner[0], g) if inner else None
                if not (ai and ai[0] == vs and inner and strip(inner[1]) == ("local", -1, "i")):
                    bad = "ws[i] is not vs[m[i]]: %s" % (show(res, 1)[:50] if res else None)
                elif not (rng and eval_int(rng[0]) == 0 and not rng[2] and contains(rng[1], lambda y: y == vs)):
                    bad = "ws does not range over all orbits 0..vs.len()"
                elif not (isinstance(msrc, tuple) and contains(norm(msrc, g), lambda y: y[0] == "field" and y[2] == "orbit_maps")):
                    bad = "m does not range over self.orbit_maps"
                else:
                    # false exactly when the comparison holds, true after the loop
                    rets = {}
                    for dbb, d in cb.all_defs_origins(0):
                        d = strip(norm(d, g))
                        if d[0] == "int" or d[0] == "bool":
                            rets[dbb] = bool(d[1])
                    def holds_at(bb, val):
                        return any(x[0] == "bool" and x[2] is val and strip(x[1]) == ("call", t["callee"]["def"], tuple(a)) or
                                   (x[0] == "bool" and x[2] is val and x[1][0] == "call" and x[1][1] == t["callee"]["def"]) for x in (atom_norm(y, g) for y in cb.facts_at(bb)))
                    f_ = [bb for bb, v in rets.items() if v is False]
                    t_ = [bb for bb, v in rets.items() if v is True]
                    if len(f_) != 1 or len(t_) != 1 or not holds_at(f_[0], True) or holds_at(t_[0], True):
                        bad = "false is not returned exactly when some ws > vs, true otherwise"
    ctx.ob("T9-canonical-assignment", cb.name, "ws > vs", "ok" if not bad else "violation", "for every orbit permutation m: ws[i] = vs[m[i]] over all orbits; false iff ws > vs" if not bad else bad)


def generator_decisions(ctx, g):
    """the D-symbol generator as decision tables (path conditions evaluated over the outcomes of the opaque tests):
    extract: a symbol is emitted iff  min <= curv <= max  and ( base_curvature < 0  or ( all orbits assigned and is_good and is_canonical ) );
    children: none iff all orbits are assigned or base_curvature < 0; a candidate is pushed iff its curvature is >= min, for negative curvature only
    if minimally hyperbolic; a non-negative candidate continues with the NEXT orbit (next + 1);
    compute_vmins: r = 1 -> 3, r = 2 -> 2, r >= 3 -> 1 (the least v with r * v >= 3);
    new: orbit permutations are computed exactly for base_curvature >= 0; the lower bound is max(geometry minimum, base_curvature if negative else -CURV_FAC);
    is_weakly_oriented (generator's own): 2-colouring seeded at chamber 1 with sign 1; an unsigned neighbour gets the opposite sign and is queued; a signed
    neighbour other than the chamber itself with the same sign answers false"""
    ctx.clauses.append("generator decision tables: extract, children, compute_vmins, new, is_weakly_oriented (T4, path conditions evaluated)")
    me_of = lambda b: ("param", 1, b.debug.get(1, ""))
    b = ctx.body(BT + "extract")
    me, st = me_of(b), ("param", 2, b.debug.get(2, ""))
    somes = {bi for bi, si, s in b.assigns() if s["place"]["l"] == 0 and not s["place"]["p"] and strip(norm(b.rv_origin(s["rv"]), g))[1].endswith("Option::Some")}
    somes |= {bi for bi, t in b.calls("PartialDSym::from_fields")}
    bad = None
    F = lambda o, n: ("field", o, n)
    def val(curv, mn, mx, base, nxt, cnt, good, canon):
        def f(y):
            if y == F(st, "curv"):
                return curv
            if y == F(me, "min_curvature"):
                return mn
            if y == F(me, "max_curvature"):
                return mx
            if y == F(me, "base_curvature"):
                return base
            if y == F(st, "next"):
                return nxt
            if y[0] == "call" and (y[1].endswith("orbit_count") or (y[1].endswith("::len") and contains(y, lambda z: z == F(me, "orbit_vmins")))):
                return cnt
            if y[0] == "call" and y[1].endswith("is_good"):
                return good
            if y[0] == "call" and y[1].endswith("is_canonical"):
                return canon
            return None
        return f
    import itertools
    n = 0
    # `let good = a && b && (c || (d && e && f))` is a bool local joined from several leaf blocks: its disjuncts (bool_join_disjuncts) are evaluated
    gl = None
    for bi in somes:
        for x in b.facts_at(bi):
            x = atom_norm(x, g)
            if x[0] == "bool" and x[2] is True and strip(x[1])[0] == "local":
                gl = strip(x[1])
    disj = bool_join_disjuncts(b, gl[1], g) if gl is not None else []

    def emitted(valuation):
        for dbb, atoms in disj:
            ok = True
            for a in atoms:
                if a[0] not in ("rel", "bool") or is_ovf_atom(a):
                    continue
                env = {}
                for y in subterms(("agg", "x", tuple(x for x in a[1:] if isinstance(x, tuple)))):
                    if isinstance(y, tuple) and y:
                        v = valuation(y)
                        if v is not None:
                            env[y] = v
                c = eval_atom_env(a, env)
                if c is False:
                    ok = False
                    break
            if ok:
                return True
        return False
    if not disj:
        bad = "the decision `good` of extract is not a joined bool"
    for curv, base, nxt, good, canon in itertools.product((-5, 0, 9, 11), (-3, 2), (1, 2), (0, 1), (0, 1)):
        if bad:
            break
        mn, mx, cnt = 0, 10, 2
        want = (mn <= curv <= mx) and (base < 0 or (nxt >= cnt and good and canon))
        r = emitted(val(curv, mn, mx, base, nxt, cnt, good, canon))
        n += 1
        if bool(r) != bool(want):
            bad = bad or "curvature %d in [0, 10], base curvature %d, %s orbits assigned, is_good %s, is_canonical %s: a symbol is %s" % (
                curv, base, "all" if nxt >= cnt else "not all", bool(good), bool(canon), "emitted" if r else "not emitted")
    for curv, want in ((0, True), (10, True)):
        if not bad and emitted(val(curv, 0, 10, -3, 2, 2, 1, 1)) != want:
            bad = "a symbol whose curvature equals the %s bound of the window is not emitted" % ("lower" if curv == 0 else "upper")
    ctx.ob("T4-generator-decisions", b.name, "extract", "ok" if not bad and somes else "violation", "%d combinations + window boundaries" % n if not bad and somes else (bad or "no Some answer found"))
    b = ctx.body(BT + "children")
    me, st = me_of(b), ("param", 2, b.debug.get(2, ""))
    pushes = [(bi, strip(norm(b.origin(t["args"][1]), g))) for bi, t in b.calls("Vec::<T, A>::push")]
    bad = None
    if len(pushes) != 2:
        bad = "%d candidate pushes" % len(pushes)
    else:
        curvs = {strip(v[2][1]) for bi, v in pushes if v[0] == "agg" and len(v[2]) == 3}
        cl = list(curvs)[0] if len(curvs) == 1 else None
        hyp = [bi for bi, v in pushes if is_call(strip(v[2][2]), "orbit_count") or contains(v[2][2], lambda z: isinstance(z, tuple) and z and z[0] == "call" and (z[1].endswith("orbit_count") or z[1].endswith("::len")))]
        non = [(bi, v) for bi, v in pushes if bi not in hyp]
        if cl is None or len(hyp) != 1 or len(non) != 1:
            bad = "the two pushes are not (negative curvature: next = orbit_count) and (non-negative: next + 1) of one curvature value"
        else:
            nx = unov_deep(strip(non[0][1][2][2]))
            if nx != ("binop", "Add", F(st, "next"), ("int", 1)):
                bad = "a non-negative candidate does not continue with orbit next + 1: %s" % show(nx, 1)[:40]
            def val2(n_, cnt, base, curv, mn, minhyp):
                def f(y):
                    if y == F(st, "next"):
                        return n_
                    if y[0] == "call" and (y[1].endswith("orbit_count") or (y[1].endswith("::len") and contains(y, lambda z: z == F(me, "orbit_vmins")))):
                        return cnt
                    if y == F(me, "base_curvature"):
                        return base
                    if y == cl:
                        return curv
                    if y == F(me, "min_curvature"):
                        return mn
                    if y[0] == "call" and y[1].endswith("is_minimally_hyperbolic"):
                        return minhyp
                    return None
                return f
            hp, np_ = set(hyp), {non[0][0]}
            for n_, cnt, base, curv, mn, mh, want in ((2, 2, 5, 3, -9, 1, (False, False)), (0, 2, -1, 3, -9, 1, (False, False)), (0, 2, 5, 3, -9, 1, (False, True)), (0, 2, 5, 0, -9, 1, (False, True)),
                                                      (0, 2, 5, -4, -9, 1, (True, False)), (0, 2, 5, -4, -9, 0, (False, False)), (0, 2, 5, -9, -9, 1, (True, False)), (0, 2, 5, -10, -9, 1, (False, False)), (1, 2, 0, 3, -9, 1, (False, True))):
                r = reachable_sites(b, g, hp | np_, val2(n_, cnt, base, curv, mn, mh))
                got = (bool(r & hp), bool(r & np_))
                if not bad and got != want:
                    bad = "orbit %d of %d, base curvature %d, candidate curvature %d (minimum %d), minimally hyperbolic %s: children %s" % (
                        n_, cnt, base, curv, mn, bool(mh), "; ".join(n2 if g_ else "does not " + n2 for g_, w_, n2 in zip(got, want, ("push the hyperbolic candidate", "push the candidate for the next orbit")) if g_ != w_))
    ctx.ob("T4-generator-decisions", b.name, "children", "ok" if not bad else "violation", "9 combinations" if not bad else bad)
    vb = ctx.body(M + "compute_vmins")
    stores = []
    for bi, si, s in vb.assigns():
        if [e["k"] for e in s["place"]["p"]] == ["deref"]:
            stores.append(s["rv"])
    bad = None
    tab = {}
    sw = [blk["term"] for bi, blk in vb.live_blocks() if blk["term"]["k"] == "switch" and len(blk["term"]["targets"]) >= 2 and not contains(norm(vb.origin(blk["term"]["discr"]), g), lambda z: z[0] == "discr")]
    if len(sw) != 1:
        bad = "the minimum is not one match on the orbit length"
    else:
        t_ = sw[0]
        def arm(tgt):
            cur, seen = tgt, set()
            while cur is not None and cur not in seen:
                seen.add(cur)
                for s_ in vb.blocks[cur]["stmts"]:
                    if s_["k"] == "assign" and not s_["place"]["p"] and s_["rv"]["k"] == "use" and s_["rv"]["op"]["k"] == "const" and "int" in s_["rv"]["op"]:
                        return s_["rv"]["op"]["int"]
                nx = vb.succ().get(cur, [])
                cur = nx[0] if len(nx) == 1 else None
            return None
        arms = {v: arm(tg) for v, tg in t_["targets"]}
        other = arm(t_["otherwise"])
        for rv in (1, 2, 3, 6):
            tab[rv] = arms.get(rv, other)
        if tab != {1: 3, 2: 2, 3: 1, 6: 1}:
            bad = "compute_vmins maps orbit lengths 1, 2, 3, 6 to %s; the least v with r * v >= 3 is 3, 2, 1, 1" % tab
    ctx.ob("T4-generator-decisions", vb.name, "vmin(r)", "ok" if not bad else "violation", "r = 1, 2, 3, 6 -> 3, 2, 1, 1" if not bad else bad)
    nb = ctx.body(M + "DSymBackTracking::new")
    om = {bi for bi, t in nb.calls(exact=M + "orbit_maps")}
    bad = None
    base_l = [("local", l, nm) for l, nm in nb.debug.items() if nm == "base_curvature"]
    bl = base_l[0] if base_l else None
    if len(om) != 1 or bl is None:
        bad = "not one orbit_maps computation on a base curvature"
    else:
        for bv, want in ((-1, False), (0, True), (4, True)):
            r = reachable_sites(nb, g, om, lambda y, bv=bv: bv if y == bl else None)
            if bool(r) != want:
                bad = bad or "for base curvature %d the orbit permutations are %s (needed exactly when assignments are enumerated: base curvature >= 0)" % (bv, "computed" if r else "not computed")
    ctx.ob("T4-generator-decisions", nb.name, "orbit_maps iff base_curvature >= 0", "ok" if not bad else "violation", "base curvature -1 / 0 / 4" if not bad else bad)
    wb = ctx.body(M + "DSymBackTracking::is_weakly_oriented")
    bad = None
    stores = []
    for bi, si, s in wb.assigns():
        if [e["k"] for e in s["place"]["p"]] == ["deref"]:
            tgt = strip(norm(wb.local_origin(s["place"]["l"]), g))
            if is_call(tgt, "IndexMut::index_mut"):
                stores.append((bi, strip(tgt[2][1]), strip(norm(wb.rv_origin(s["rv"]), g))))
    seeds = [x for x in stores if eval_int(x[1]) == 1 and eval_int(x[2]) == 1]
    ext = [x for x in stores if x not in seeds]
    pb = [(bi, strip(norm(wb.origin(t["args"][1]), g))) for bi, t in wb.calls("VecDeque::<T, A>::push_back")]
    falses = {bi for bi, si, s in wb.assigns() if s["place"]["l"] == 0 and not s["place"]["p"] and eval_int(strip(norm(wb.rv_origin(s["rv"]), g))) == 0}
    if len(seeds) != 1 or not any(eval_int(v) == 1 for bi, v in pb):
        bad = "the colouring is not seeded with sgn[1] = 1 and chamber 1 queued"
    elif len(ext) != 1 or not falses or chamber_tables(ctx, "T4-chamber-table", wb, g, fill=0) != 1:
        bad = "not one sign assignment / one `false` answer / one chamber table"
    else:
        eb, di, val_ = ext[0]
        vv = unov_deep(val_)
        okneg = (vv[0] == "unop" and vv[1] == "Neg") and as_index(strip(vv[2]))
        d_ = strip(as_index(strip(vv[2]))[1]) if okneg else None
        if not okneg:
            bad = "an unsigned neighbour does not get the opposite sign -sgn[d]: %s" % show(val_, 1)[:40]
        else:
            def val3(sdi, sd, same):
                def f(y):
                    a = as_index(y)
                    if a and strip(a[1]) == di:
                        return sdi
                    if a and strip(a[1]) == d_:
                        return sd
                    if y == di:
                        return 4
                    if y == d_:
                        return 4 if same else 5
                    return None
                return f
            for sdi, sd, same, want in ((0, 1, 0, (True, False)), (-1, 1, 0, (False, False)), (1, 1, 0, (False, True)), (1, 1, 1, (False, False))):
                r = reachable_sites(wb, g, {eb} | falses, val3(sdi, sd, same))
                got = (eb in r, bool(r & falses))
                if got != want:
                    bad = bad or "neighbour sign %d, own sign %d, neighbour %s the chamber itself: %s" % (sdi, sd, "is" if same else "is not",
                          "; ".join(n2 if g_ else "does not " + n2 for g_, w_, n2 in zip(got, want, ("assign a sign", "answer false")) if g_ != w_))
    ctx.ob("T4-generator-decisions", wb.name, "2-colouring", "ok" if not bad else "violation", "seed sgn[1] = 1; unsigned -> opposite sign; same sign on another chamber -> false" if not bad else bad)


def window_operands(ctx, g):
    """new(): the lower end of the curvature window is max(geometry minimum, X) with X = base_curvature exactly when that is negative (nothing below the
    base can occur), else -CURV_FAC (implied by minimal hyperbolicity); is_good: an assignment of curvature <= 0 is good without looking at the list,
    a positive one is looked up"""
    nb = ctx.body(M + "DSymBackTracking::new")
    bl = [("local", l, nm) for l, nm in nb.debug.items() if nm == "base_curvature"]
    bad = None
    mx = [(bi, [strip(norm(nb.origin(x), g)) for x in t["args"]]) for bi, t in nb.calls("Ord::max")]
    if len(mx) != 1 or not bl or mx[0][1][1][0] != "local":
        bad = "the lower bound is not geoms.min_curvature().max(<chosen operand>)"
    else:
        opl = mx[0][1][1]
        tab = {}
        for dbb, d in nb.all_defs_origins(opl[1]):
            d = strip(norm(d, g))
            fa = [atom_norm(x, g) for x in nb.facts_at(dbb) if atom_norm(x, g)[0] == "rel"]
            for bv in (-1, 0, 5):
                vals = [eval_atom_env(x, {bl[0]: bv}) for x in fa]
                vals = [v for v in vals if v is not None]
                if vals and all(vals):
                    tab[bv] = "base" if d == bl[0] else eval_int(d) if eval_int(d) is not None else show(d, 1)[:20]
        if not (tab.get(-1) == "base" and tab.get(0) == tab.get(5) and isinstance(tab.get(0), int) and tab.get(0) < 0):
            bad = "the second operand of the lower bound is %s for base curvatures -1 / 0 / 5; it must be the base curvature exactly when negative, else -CURV_FAC" % tab
    ctx.ob("T4-generator-decisions", nb.name, "min = max(geometry minimum, base if base < 0 else -CURV_FAC)", "ok" if not bad else "violation", "base curvature -1 / 0 / 5" if not bad else bad)
    gb = ctx.body(M + "DSymBackTracking::is_good")
    curv = ("param", 3, gb.debug.get(3, ""))
    lookups = {bi for bi, t in gb.calls("::contains")} | {bi for bi, t in gb.calls("orbifold_symbol")}
    bad = None
    for cv, want in ((-3, False), (0, False), (1, True), (7, True)):
        r = reachable_sites(gb, g, lookups, lambda y, cv=cv: cv if y == curv else None)
        if bool(r) != want:
            bad = bad or "an assignment of curvature %d is %s against the good-orbifold list (only positive curvature is)" % (cv, "looked up" if r else "not looked up")
    ctx.ob("T4-generator-decisions", gb.name, "list consulted iff curv > 0", "ok" if not bad and lookups else "violation", "curvature -3 / 0 / 1 / 7" if not bad and lookups else (bad or "no lookup found"))


def windows(ctx, g):
    ctx.clauses.append("curvature window has the requested sign (T4)")
    adt = ctx.facts.adts.get(M + "Geometries")
    if adt is None:
        raise AnchorMissing(M + "Geometries")
    names = [v["name"] for v in adt["variants"]]
    tab = {}
    for which in ("min_curvature", "max_curvature"):
        b = ctx.body(M + "Geometries::" + which)
        ctx.scan([b])
        mt, discr = match_table(b, g)
        if mt is None:
            raise AnchorMissing(b.name + ": match table")
        for k, v in mt.items():
            if k == "otherwise":
                continue
            val = eval_int(v) if v is not None else None
            tab.setdefault(names[k] if isinstance(k, int) and k < len(names) else str(k), {})[which] = val
        if mt.get("otherwise") is not None and len([k for k in mt if k != "otherwise"]) < len(names):
            # the last variant may be the otherwise arm
            missing = [n for n in names if n not in tab or which not in tab[n]]
            val = eval_int(mt["otherwise"])
            for n in missing:
                tab.setdefault(n, {})[which] = val
    def w(n):
        return tab.get(n, {}).get("min_curvature"), tab.get(n, {}).get("max_curvature")
    s, e, h, a = w("Spherical"), w("Euclidean"), w("Hyperbolic"), w("All")
    if any(x is None for t in (s, e, h, a) for x in t):
        ctx.ob("T4-curvature-window", M + "Geometries", "tables", "violation", "window tables could not be read as constants: %s" % tab)
        return
    ctx.ob("T4-curvature-window", M + "Geometries", "Spherical", "ok" if s[0] >= 1 and s[1] >= s[0] else "violation",
           "Spherical window [%d, %d] lies in [1, inf)" % s if s[0] >= 1 and s[1] >= s[0] else "Spherical window [%d, %d] admits curvature <= 0 (or is empty)" % s)
    ctx.ob("T4-curvature-window", M + "Geometries", "Euclidean", "ok" if e == (0, 0) else "violation",
           "Euclidean window is {0}" if e == (0, 0) else "Euclidean window is [%d, %d], not {0}" % e)
    ctx.ob("T4-curvature-window", M + "Geometries", "Hyperbolic", "ok" if h[1] <= -1 and h[0] <= h[1] else "violation",
           "Hyperbolic window [%d, %d] lies in (-inf, -1]" % h if h[1] <= -1 and h[0] <= h[1] else "Hyperbolic window [%d, %d] admits curvature >= 0 (or is empty)" % h)
    okall = a[0] <= min(s[0], e[0], h[0]) and a[1] >= max(s[1], e[1], h[1])
    ctx.ob("T4-curvature-window", M + "Geometries", "All", "ok" if okall else "violation",
           "All window [%d, %d] contains the three others" % a if okall else "All window [%d, %d] does not contain the union of the three geometry windows" % a)
    # completeness side (necessary instances): each window contains the curvatures that certainly occur in its geometry
    cfv = ctx.facts.consts.get(M + "CURV_FAC", {}).get("int")
    if cfv:
        need = [
            ("Spherical", s, 4 * cfv, "4*CURV_FAC (curvature 4: a tiling of the sphere with trivial symmetry group, e.g. the 24-chamber tetrahedron symbol with all v = 1)"),
            ("Spherical", s, 4 * cfv // 120, "4*CURV_FAC/120 (the one-chamber symbol of *235, the largest spherical group)"),
            ("Hyperbolic", h, -(cfv // 42), "-CURV_FAC/42 (the one-chamber symbol of *237, the smallest hyperbolic orbifold: curvature -1/42)"),
            ("Hyperbolic", h, -(cfv // 2) * 2 ** 47, "-CURV_FAC/2 * 2^47 (base curvatures -CURV_FAC/2*size + .. of D-sets whose orbits cannot be lowered are unbounded below: any lower end a D-set in memory can reach is wrong)"),
            ("All", a, 4 * cfv, "4*CURV_FAC"), ("All", a, 0, "0"), ("All", a, -(cfv // 2) * 2 ** 47, "-CURV_FAC/2 * 2^47"),
        ]
        for name, win, val, why in need:
            ok = win[0] <= val <= win[1]
            ctx.ob("T4-window-complete", M + "Geometries", "%s contains %s" % (name, why.split(" (")[0]), "ok" if ok else "violation",
                   "%s window [%d, %d] contains %s" % (name, win[0], win[1], why) if ok else
                   "%s window [%d, %d] excludes %d = %s: symbols of the requested geometry are dropped" % (name, win[0], win[1], val, why))
    # the windows are what the back-tracker stores
    nb = ctx.body(M + "DSymBackTracking::new")
    geoms = ("param", 2, nb.debug.get(2, ""))
    mx = [norm(nb.origin(rv["ops"][rv["fields"].index("max_curvature")]), g) for bi, si, s in nb.assigns() for rv in [s["rv"]]
          if rv["k"] == "aggregate" and rv.get("agg") == "adt" and "max_curvature" in rv.get("fields", [])]
    ctx.require(bool(mx) and mx[0] == ("call", M + "Geometries::max_curvature", (geoms,)), "T4-curvature-window", nb.name, "max_curvature field", "upper end = geoms.max_curvature()",
                "the stored upper end of the window is not geoms.max_curvature(): %s" % [show(x, 1)[:50] for x in mx])
    mn = [norm(nb.origin(rv["ops"][rv["fields"].index("min_curvature")]), g) for bi, si, s in nb.assigns() for rv in [s["rv"]]
          if rv["k"] == "aggregate" and rv.get("agg") == "adt" and "min_curvature" in rv.get("fields", [])]
    okmn = bool(mn) and mn[0][0] == "call" and mn[0][1].endswith("Ord::max") and ("call", M + "Geometries::min_curvature", (geoms,)) in mn[0][2]
    # pruning bound implied by minimal hyperbolicity: lowering one branching number 2 -> 1 on a cone orbit gains 2*CURV_FAC*(1/1 - 1/2) = CURV_FAC,
    # so for base_curvature >= 0 nothing below -CURV_FAC can be minimally hyperbolic, but everything down to -CURV_FAC can
    cf = ctx.facts.consts.get(M + "CURV_FAC", {}).get("int")
    if okmn and cf is not None:
        other = [x for x in mn[0][2] if x != ("call", M + "Geometries::min_curvature", (geoms,))]
        consts = []
        for x in other:
            raw = x
            if x[0] == "local":
                for dbb, dt in nb.all_defs_origins(x[1]):
                    v = eval_int(dt)
                    if v is not None:
                        consts.append(v)
            else:
                v = eval_int(x)
                if v is not None:
                    consts.append(v)
        okp = bool(consts) and all(v <= -cf for v in consts)
        ctx.ob("T4-pruning-bound", nb.name, "min_curvature floor for base_curvature >= 0", "ok" if okp else "violation",
               "the pruning floor %s is <= -CURV_FAC = %d (a single lowering 2 -> 1 on a cone orbit gains CURV_FAC)" % (consts, -cf) if okp else
               "the pruning floor %s is above -CURV_FAC = %d: minimally hyperbolic assignments with curvature in [-CURV_FAC, floor) are pruned" % (consts, -cf))
    ctx.require(okmn, "T4-curvature-window", nb.name, "min_curvature field", "lower end = max(geoms.min_curvature(), ..): never below the requested window",
                "the stored lower end of the window is not max(geoms.min_curvature(), ..): %s" % [show(x, 1)[:60] for x in mn])


def exactness(ctx, g):
    ctx.clauses.append("scaled integer curvature is exact; branching explored up to 7 (T4)")
    ch = ctx.body(BT + "children")
    ctx.scan([ch])
    cf = ctx.facts.consts.get(M + "CURV_FAC")
    if cf is None or "int" not in cf:
        raise AnchorMissing(M + "CURV_FAC")
    F_ = cf["int"]
    # branching loop: the range whose payload is written into vs[n]
    B = None
    for bi, blk in ch.live_blocks():
        pass
    ranges = []
    for bi, t in ch.calls("RangeInclusive::<Idx>::new"):
        a = [norm(ch.origin(x), g) for x in t["args"]]
        ranges.append(a)
    consts = [a for a in ranges if a[1][0] == "int"]
    ctx.floor("inclusive constant-ended branching loops in DSym children()", len(consts), 1)
    if consts:
        B = consts[0][1][1]
        lo = consts[0][0]
        st = ("param", 2, ch.debug.get(2, ""))
        oklo = contains(lo, lambda s: s == ("field", st, "vs"))
        ctx.require(oklo, "T4-branching-bound", ch.name, "v-range:start", "branching values start at the orbit's current (minimal) value state.vs[n]", "branching loop does not start at state.vs[n]: " + show(lo, 1)[:60])
        ctx.ob("T4-branching-bound", ch.name, "v-range:end", "ok" if B == B_SPEC else "violation",
               "branching is explored up to %d (inclusive)" % B if B == B_SPEC else
               "branching is explored up to %d, not %d: %s" % (B, B_SPEC, "spherical symbols with branching up to 7 / minimally hyperbolic ones are missed" if B < B_SPEC else "divisions of CURV_FAC by values above 7 are inexact"))
        bad = [k for k in range(1, B + 1) if F_ % k != 0] + ([2] if F_ % 2 else [])
        ctx.ob("T4-curvature-exact", M + "CURV_FAC", "divisible-by-1..B", "ok" if not bad else "violation",
               "CURV_FAC = %d is divisible by every branching value 1..=%d and by 2" % (F_, B) if not bad else
               "CURV_FAC = %d is not divisible by %s: the integer curvature k*CURV_FAC/v is rounded, symbols are misclassified" % (F_, bad))
    return B


def bookkeeping(ctx, g):
    """the scaled integer curvature is CURV_FAC * (sum over the 01- and 12-orbits of k/v - size/2) with k = 1 for a chain orbit and 2
    otherwise (the same quantity as delaney2d::curvature, whose 02-orbits contribute size/2): the base value, the per-orbit term and the
    update in children() are decided by evaluating the expressions on all (k, v) in {1, 2} x 1..=7"""
    ctx.clauses.append("scaled curvature bookkeeping: base value, per-orbit term k*CURV_FAC/v and the update in children() agree (T4, expressions evaluated on all k, v)")
    F_ = ctx.facts.consts.get(M + "CURV_FAC", {}).get("int")
    nb = ctx.body(M + "DSymBackTracking::new")
    ch = ctx.body(BT + "children")

    def k_defs(b, kl, chain_field_pred):
        """{value: polarity of the is_chain test that dominates the definition}"""
        out = {}
        for dbb, d in b.all_defs_origins(kl[1]):
            v = eval_int(norm(d, g))
            pol = None
            for a in b.facts_at(dbb):
                a = atom_norm(a, g)
                if a[0] == "bool" and chain_field_pred(a[1]):
                    pol = a[2]
            out[v] = pol
        return out
    # --- new(): base_curvature
    bl = [l for l, n in nb.debug.items() if n == "base_curvature"]
    if not bl:
        raise AnchorMissing("DSymBackTracking::new: base_curvature")
    defs = [(dbb, norm(d, g)) for dbb, d in nb.all_defs_origins(bl[0])]
    loops = natural_loops(nb)
    init = [d for dbb, d in defs if not any(dbb in bs for h, bs in loops)]
    upd = [d for dbb, d in defs if any(dbb in bs for h, bs in loops)]
    dset = ("param", 1, nb.debug.get(1, ""))
    size_t = [x for d in init for x in subterms(d) if isinstance(x, tuple) and ((x[0] == "field" and x[2] == "size") or is_call(x, "DSet::size")) and contains(x, lambda y: y == dset)]
    okinit = False
    if len(init) == 1 and size_t:
        okinit = all(eval_term_env(init[0], {size_t[0]: n}) == -(F_ // 2) * n for n in (1, 2, 7, 12, 48))
    ctx.ob("T4-curvature-bookkeeping", nb.name, "base = -CURV_FAC/2 * size", "ok" if okinit else "violation",
           "the base curvature starts at -CURV_FAC/2 * size()" if okinit else "the base curvature does not start at -CURV_FAC/2 * dset.size(): %s" % [show(d, 1)[:70] for d in init])
    okupd = False
    det = "no accumulation found"
    if len(upd) == 1:
        u = upd[0]
        me = ("local", bl[0], "base_curvature")
        kl = [x for x in subterms(u) if x[0] == "local" and nb.debug.get(x[1]) == "k"]
        vm = [x for x in subterms(u) if x[0] in ("index",) or is_call(x, "Index::index")]
        vm = [x for x in vm if contains(x, lambda y: is_call(y, "compute_vmins")) or contains(x, lambda y: y[0] == "local" and nb.debug.get(y[1]) == "orbit_vmins")]
        if kl and vm:
            okupd = True
            for kv in (1, 2):
                for v in range(1, 8):
                    got = eval_term_env(u, {me: 1000, kl[0]: kv, vm[0]: v})
                    if got != 1000 + kv * F_ // v:
                        okupd = False
                        det = "for k = %d, vmin = %d the orbit adds %s, not k*CURV_FAC/v = %d" % (kv, v, None if got is None else got - 1000, kv * F_ // v)
            kd = k_defs(nb, kl[0], lambda t: contains(t, lambda y: is_call(y, "collect_orbits") or (y[0] == "local" and nb.debug.get(y[1]) == "orbit_is_chain")))
            if okupd and kd != {1: True, 2: False}:
                okupd = False
                det = "k is not (1 for a chain orbit, 2 otherwise): %s" % kd
        else:
            det = "the accumulated term does not read k and orbit_vmins[i]: " + show(u, 1)[:80]
    ctx.ob("T4-curvature-bookkeeping", nb.name, "base += k*CURV_FAC/vmin[i]", "ok" if okupd else "violation",
           "every orbit adds k*CURV_FAC/vmin with k = 1 for chains, 2 otherwise (14 (k, v) pairs)" if okupd else det)
    # --- children(): curv
    cl = [l for l, n in ch.debug.items() if n == "curv"]
    st = ("param", 2, ch.debug.get(2, ""))
    okc = False
    det = "curv not found"
    for l in cl:
        for dbb, d in ch.all_defs_origins(l):
            d = norm(d, g)
            d = expand_single_defs(ch, d, g, keep=tuple(x for x in subterms(d) if x[0] == "local" and ch.debug.get(x[1]) == "k"))
            kl = [x for x in subterms(d) if x[0] == "local" and ch.debug.get(x[1]) == "k"]
            old = ("field", st, "curv")
            vmin = ("index", ("field", st, "vs"), ("field", st, "next"))
            vmin2 = ("call", "std::ops::Index::index", (("field", st, "vs"), ("field", st, "next")))
            vs_ = [x for x in subterms(d) if x[0] == "field" and x[1][0] == "variant" and is_call(x[1][1], "Iterator::next")]
            vm = [x for x in subterms(d) if x in (vmin, vmin2)]
            if not (kl and vs_ and vm and contains(d, lambda y: y == old)):
                det = "the child's curvature is not computed from state.curv, k, state.vs[state.next] and the loop's v: " + show(d, 1)[:90]
                continue
            okc = True
            for kv in (1, 2):
                for a in range(1, 8):
                    for b_ in range(a, 8):
                        got = eval_term_env(d, {old: 5000, kl[0]: kv, vm[0]: a, vs_[0]: b_})
                        if got != 5000 - kv * F_ // a + kv * F_ // b_:
                            okc = False
                            det = "for k = %d, raising v from %d to %d changes the curvature by %s, not by -k*CURV_FAC/%d + k*CURV_FAC/%d = %d" % (
                                kv, a, b_, None if got is None else got - 5000, a, b_, -kv * F_ // a + kv * F_ // b_)
            kd = k_defs(ch, kl[0], lambda t: contains(t, lambda y: y[0] == "field" and y[2] == "orbit_is_chain") and contains(t, lambda y: y == ("field", st, "next")))
            if okc and kd != {1: True, 2: False}:
                okc = False
                det = "k is not (1 if orbit_is_chain[state.next], 2 otherwise): %s" % kd
    ctx.ob("T4-curvature-bookkeeping", ch.name, "curv' = curv - k*F/vmin + k*F/v", "ok" if okc else "violation",
           "raising orbit n from its minimal v to v replaces its term k*CURV_FAC/vmin by k*CURV_FAC/v (56 (k, vmin, v) triples), same k as in the base value" if okc else det)


def good_list(ctx, g):
    """the fixed list of good spherical orbifolds in is_good(): every entry is written in the canonical form the private orbifold_symbol
    routine produces (cone degrees descending, optional '*', corner degrees descending, optional 'x') - otherwise it can never match -
    and names a good orbifold of positive Euler characteristic (not a tear-drop / spindle and their mirrored versions)"""
    from fractions import Fraction
    import re
    ctx.clauses.append("every entry of the good-orbifold list is a canonical symbol of a good spherical orbifold (T4 data table)")
    name = M + "DSymBackTracking::is_good"
    b = ctx.body(name)
    ctx.scan([b])
    lits = list(str_consts_in(b))
    for (n, k), pb in ctx.facts.promoted.items():
        if n == name:
            lits += str_consts_in(pb if hasattr(pb, "live_blocks") else Body(pb, ctx.facts))
    ctx.floor("entries of the good-orbifold list", len(lits), 20)
    bad = []
    for s in lits:
        m = re.fullmatch(r"([2-9]*)(\*?)([2-9]*)(x?)", s)
        if not m or (m.group(3) and not m.group(2)):
            bad.append("%r is not of the form <cones>[*<corners>][x]" % s)
            continue
        cones, star, corners, cross = [int(c) for c in m.group(1)], bool(m.group(2)), [int(c) for c in m.group(3)], bool(m.group(4))
        if cones != sorted(cones, reverse=True) or corners != sorted(corners, reverse=True):
            bad.append("%r is not in the canonical (descending) order that orbifold_symbol() produces: it can never match" % s)
            continue
        chi = 2 - sum(1 - Fraction(1, c) for c in cones) - (1 if star else 0) - sum((1 - Fraction(1, c)) / 2 for c in corners) - (1 if cross else 0)
        if chi <= 0:
            bad.append("%r has Euler characteristic %s <= 0: not spherical" % (s, chi))
        elif not star and not cross and (len(cones) == 1 or (len(cones) == 2 and cones[0] != cones[1])):
            bad.append("%r is a bad orbifold (tear-drop / spindle)" % s)
        elif star and not cones and not cross and (len(corners) == 1 or (len(corners) == 2 and corners[0] != corners[1])):
            bad.append("%r is a bad orbifold (mirrored tear-drop / spindle)" % s)
    if len(set(lits)) != len(lits):
        bad.append("duplicate entries")
    ctx.ob("T4-good-orbifold-list", name, "entries", "ok" if not bad else "violation",
           "%d entries, all canonical symbols of good spherical orbifolds" % len(lits) if not bad else "; ".join(bad[:3]))


def min_hyperbolic(ctx, g):
    """is_minimally_hyperbolic: for EVERY orbit whose branching exceeds its minimum, lowering it by one (term k*CURV_FAC/v replaced by
    k*CURV_FAC/(v-1)) must make the curvature non-negative; decided by evaluating the expression on all (k, v)"""
    ctx.clauses.append("minimal hyperbolicity: every raised orbit is lowered by exactly one with its own k; `false` iff some lowered curvature is still negative (T3/T4)")
    F_ = ctx.facts.consts.get(M + "CURV_FAC", {}).get("int")
    b = ctx.body(M + "DSymBackTracking::is_minimally_hyperbolic")
    ctx.scan([b])
    me, vs, curv = (("param", i, b.debug.get(i, "")) for i in (1, 2, 3))
    cl = [l for l, n in b.debug.items() if n == "c"]
    okc = False
    det = "lowered curvature `c` not found"
    site = None
    for l in cl:
        for dbb, d in b.all_defs_origins(l):
            d = norm(d, g)
            d = expand_single_defs(b, d, g, keep=tuple(x for x in subterms(d) if x[0] == "local" and b.debug.get(x[1]) == "k"))
            site = dbb
            kl = [x for x in subterms(d) if x[0] == "local" and b.debug.get(x[1]) == "k"]
            vi = [x for x in subterms(d) if (x[0] == "index" or is_call(x, "Index::index")) and contains(x, lambda y: y == vs)]
            if not (kl and vi and contains(d, lambda y: y == curv)):
                det = "the lowered curvature is not computed from curv, k and vs[i]: " + show(d, 1)[:90]
                continue
            i_t = vi[0][2] if vi[0][0] == "index" else vi[0][2][1]
            for _ in range(3):
                if i_t[0] == "local" and len(b.all_defs_origins(i_t[1])) == 1:
                    i_t = norm(b.all_defs_origins(i_t[1])[0][1], g)
            okc = True
            for kv in (1, 2):
                for v in range(2, 8):
                    got = eval_term_env(d, {curv: -3000, kl[0]: kv, vi[0]: v})
                    if got != -3000 - kv * F_ // v + kv * F_ // (v - 1):
                        okc = False
                        det = "for k = %d, v = %d the lowered curvature differs from curv by %s, not by -k*CURV_FAC/v + k*CURV_FAC/(v-1) = %d" % (
                            kv, v, None if got is None else got + 3000, -kv * F_ // v + kv * F_ // (v - 1))
            kd = {}
            for kb, kdv in b.all_defs_origins(kl[0][1]):
                pol = None
                for a in b.facts_at(kb):
                    a = atom_norm(a, g)
                    if a[0] == "bool" and contains(a[1], lambda y: y[0] == "field" and y[2] == "orbit_is_chain") and contains(a[1], lambda y: y == i_t):
                        pol = a[2]
                kd[eval_int(norm(kdv, g))] = pol
            if okc and kd != {1: True, 2: False}:
                okc = False
                det = "k is not (1 if orbit_is_chain[i], 2 otherwise) for the orbit being lowered: %s" % kd
            # guard: only raised orbits, and all of them
            fa = [atom_norm(a, g) for a in b.facts_at(dbb)]
            vm = lambda t: (t[0] == "index" or is_call(t, "Index::index")) and contains(t, lambda y: y[0] == "field" and y[2] == "orbit_vmins") and contains(t, lambda y: y == i_t)
            okg = any(a[0] == "rel" and a[1] == "Lt" and vm(a[2]) and a[3] in (vi[0], ("index", vs, i_t), ("call", "std::ops::Index::index", (vs, i_t))) for a in fa)
            r = loop_range_of_payload(b, i_t, g)
            okr = r is not None and r[0] == ("int", 0) and not r[2] and (is_call(r[1], "orbit_count") or contains(r[1], lambda y: y[0] == "field" and y[2] == "orbit_vmins"))
            if okc and not (okg and okr):
                okc = False
                det = "the lowering test does not run over every orbit i in 0..orbit_count() with vs[i] > orbit_vmins[i] (guard: %s, range: %s)" % (okg, okr)
    ctx.ob("T4-minimal-hyperbolicity", b.name, "c = curv - k*F/v + k*F/(v-1)", "ok" if okc else "violation",
           "every raised orbit is lowered by one with its own k (12 (k, v) pairs)" if okc else det, b.span_of(site) if site is not None else None)
    # returns: false under c < 0 (and under curv >= 0), true otherwise
    if cl:
        cterm = ("local", cl[0], "c")
        okf = False
        for bi, si, s in b.assigns():
            if s["place"]["l"] == 0 and not s["place"]["p"] and norm(b.rv_origin(s["rv"]), g) == ("int", 0):
                fa = [atom_norm(a, g) for a in b.facts_at(bi)]
                if any(a[0] == "rel" and implies(a, ("rel", "Lt", a[2], ("int", 0))) and (a[2] == cterm or (a[2][0] == "local" and b.debug.get(a[2][1]) == "c") or
                                                                                        contains(a[2], lambda y: y[0] == "local" and b.debug.get(y[1]) == "k")) for a in fa):
                    okf = True
        ctx.ob("T4-minimal-hyperbolicity", b.name, "false<-c < 0", "ok" if okf else "violation",
               "`false` is returned when a lowered curvature is still negative" if okf else "no `return false` under c < 0: non-minimal hyperbolic assignments are accepted")


def root_state(ctx, g):
    """root(): the search starts from the minimal assignment (vs = orbit_vmins, curv = base_curvature) and is marked finished
    (next = orbit_count()) exactly when the base curvature is NEGATIVE; a flat minimal assignment (curvature 0) still has hyperbolic
    descendants (raise one branching number), so `<= 0` loses them.  The same predicate base_curvature < 0 gates children() and extract()."""
    ctx.clauses.append("root = (orbit_vmins, base_curvature, next = orbit_count() iff base_curvature < 0 else 0), same predicate as in children()/extract() (T4)")
    b = ctx.body(BT + "root")
    ctx.scan([b])
    me = ("param", 1, b.debug.get(1, ""))
    base = ("field", me, "base_curvature")
    agg = None
    for bi, si, s in b.assigns():
        rv = s["rv"]
        if rv["k"] == "aggregate" and rv.get("agg") == "adt" and "next" in rv.get("fields", []):
            agg = {f: norm(b.origin(o), g) for f, o in zip(rv["fields"], rv["ops"])}
    if agg is None:
        raise AnchorMissing("DSymBackTracking::root: state aggregate")
    okvs = contains(agg["vs"], lambda y: y == ("field", me, "orbit_vmins"))
    okcv = strip(agg["curv"]) == base
    ctx.ob("T4-root-state", b.name, "vs, curv", "ok" if okvs and okcv else "violation",
           "the root is the minimal assignment with the base curvature" if okvs and okcv else "the root state is not (orbit_vmins.clone(), base_curvature): vs = %s, curv = %s" % (show(agg["vs"], 1)[:40], show(agg["curv"], 1)[:40]))
    nx = agg["next"]
    bad = None
    if nx[0] == "local":
        table = {}
        for dbb, d in b.all_defs_origins(nx[1]):
            d = norm(d, g)
            fa = [atom_norm(a, g) for a in b.facts_at(dbb)]
            for cv in (-5, -1, 0, 1, 7):
                vals = [eval_atom_env(a, {base: cv}) for a in fa if any(isinstance(z, tuple) and contains(z, lambda y: y == base) for z in a[1:])]
                vals = [v for v in vals if v is not None]
                if vals and all(vals):
                    table[cv] = "finished" if is_call(d, "orbit_count") else ("open" if d == ("int", 0) else show(d, 1)[:30])
        want = {-5: "finished", -1: "finished", 0: "open", 1: "open", 7: "open"}
        if table != want:
            bad = "for base curvature %s the root is %s; expected finished exactly for negative values (a flat minimal assignment still has hyperbolic descendants)" % (
                sorted(table), [table[k] for k in sorted(table)])
    else:
        bad = "next is not chosen by the sign of the base curvature: " + show(nx, 1)[:50]
    ctx.ob("T4-root-state", b.name, "next = orbit_count() iff base_curvature < 0", "ok" if not bad else "violation",
           "the root is finished exactly for negative base curvature" if not bad else bad)


def vmins(ctx, g, B):
    ctx.clauses.append("every degree is at least 3 (T4)")
    b = ctx.body(M + "compute_vmins")
    ctx.scan([b])
    arms = {}
    other = None
    for bi, blk in b.live_blocks():
        t = blk["term"]
        if t["k"] == "switch" and len(t["targets"]) >= 1:
            d = norm(b.origin(t["discr"]), g)
            if not contains(d, lambda s: isinstance(s, tuple) and s and s[0] == "call" and s[1].endswith("ops::Index::index")) and d[0] != "index":
                continue
            for v, tgt in list(t["targets"]) + [("otherwise", t["otherwise"])]:
                val = None
                cur = tgt
                for _ in range(4):
                    for s in b.blocks[cur]["stmts"]:
                        if s["k"] == "assign" and s["rv"]["k"] == "use" and s["rv"]["op"]["k"] == "const" and "int" in s["rv"]["op"]:
                            val = s["rv"]["op"]["int"]
                    if val is not None:
                        break
                    nx = b.succ().get(cur, [])
                    if len(nx) != 1:
                        break
                    cur = nx[0]
                if v == "otherwise":
                    other = val
                else:
                    arms[v] = val
    if not arms or other is None:
        ctx.ob("T4-min-degree", b.name, "table", "violation", "the r -> vmin table could not be read (arms %s, default %s)" % (arms, other))
        return
    bad = [(r, v) for r, v in arms.items() if v is None or r * v < 3]
    covered = all(r in arms for r in range(1, 3))
    okd = other is not None and other >= 1
    ctx.ob("T4-min-degree", b.name, "arms", "ok" if not bad and covered and okd else "violation",
           "arms %s, default %d: r*v >= 3 for every orbit length" % (sorted(arms.items()), other) if not bad and covered and okd else
           "minimal branching table %s (default %s) allows a degree r*v < 3 (bad arms %s, r in 1..2 covered: %s)" % (sorted(arms.items()), other, bad, covered))
    if B is not None:
        okb = all(1 <= v <= B for v in list(arms.values()) + [other])
        ctx.ob("T4-min-degree", b.name, "arms<=B", "ok" if okb else "violation", "all minimal branching values lie in 1..=%d" % B if okb else "a minimal branching value lies outside 1..=%d" % B)


def filters(ctx, g):
    ctx.clauses.append("output filtered by window, good-orbifold list and canonicity (T3, bool-join idiom)")
    ex = ctx.body(BT + "extract")
    ch = ctx.body(BT + "children")
    ctx.scan([ex])
    me, st = ("param", 1, ex.debug.get(1, "")), ("param", 2, ex.debug.get(2, ""))
    somes = [(bi, si, s) for bi, si, s in ex.assigns() if s["place"]["l"] == 0 and s["rv"]["k"] == "aggregate" and s["rv"].get("variant") == "Some"]
    ctx.floor("Some(..) in DSym extract", len(somes), 1)
    curv, vs = ("field", st, "curv"), ("field", st, "vs")
    W1 = ("rel", "Le", ("field", me, "min_curvature"), curv)
    W2 = ("rel", "Le", curv, ("field", me, "max_curvature"))
    HYP = ("rel", "Lt", ("field", me, "base_curvature"), ("int", 0))
    NEXT = ("rel", "Le", ("call", M + "DSymBackTracking::orbit_count", (me,)), ("field", st, "next"))
    GOOD = ("bool", ("call", M + "DSymBackTracking::is_good", (me, vs, curv)), True)
    CANON = ("bool", ("call", M + "DSymBackTracking::is_canonical", (me, vs)), True)
    for bi, si, s in somes:
        fa = ex.facts_at(bi)
        disj = None
        direct = [atom_norm(a, g) for a in fa]
        for a in fa:
            if a[0] == "bool" and a[2] is True and strip(a[1])[0] == "local":
                disj = bool_join_disjuncts(ex, strip(a[1])[1], g)
        if disj is None:
            disj = [(bi, direct)]
        allok = True
        detail = []
        for dbb, atoms in disj:
            atoms = atoms + direct
            def has(x):
                return any(implies(h, x) for h in atoms)
            okw = has(W1) and has(W2)
            okf = has(HYP) or (has(NEXT) and has(GOOD) and has(CANON))
            if not (okw and okf):
                allok = False
                detail.append("a way of making `good` true lacks: %s" % ", ".join(n for n, v in (("curv >= min_curvature", has(W1)), ("curv <= max_curvature", has(W2)),
                              ("base_curvature < 0 or (next >= orbit_count() and is_good and is_canonical)", okf)) if not v))
        ctx.ob("T3-output-filters", ex.name, "Some<-good", "ok" if allok and disj else "violation",
               "%d way(s) of making `good` true; each passes the window and then either base_curvature < 0 or next >= orbit_count() & is_good(vs, curv) & is_canonical(vs)" % len(disj)
               if allok and disj else "; ".join(detail) or "no guard on the emitted symbol", ex.span_of(bi, si))
        v = norm(ex.origin(s["rv"]["ops"][0]), g)
        okv = v[0] == "call" and v[1].endswith("PartialDSym::from_fields") and v[2][0] == ("field", me, "dset") and contains(v[2][3], lambda s_: s_ == vs)
        ctx.require(okv, "T9-output-from-state", ex.name, "Some(from_fields(self.dset, .., state.vs))", "the emitted symbol carries the generator's D-set and the state's branching numbers",
                    "the emitted symbol is not built from self.dset and state.vs: " + show(v, 1)[:100], ex.span_of(bi, si))
    # children: hyperbolic pushes under is_minimally_hyperbolic on the pushed vs/curv
    pushes = [(bi, t) for bi, t in ch.calls("Vec::<T, A>::push") if "DSymGenState" in t["callee"].get("path_with_args", "")]
    ctx.floor("state pushes in DSym children()", len(pushes), 2)
    mec = ("param", 1, ch.debug.get(1, ""))
    nh = 0
    for bi, t in pushes:
        v = norm(ch.origin(t["args"][1]), g)
        if not (v[0] == "agg" and len(v[2]) == 3):
            continue
        pvs, pcurv, pnext = v[2]
        fa = [atom_norm(a, g) for a in ch.facts_at(bi, deep=True)]
        neg = any(implies(h, ("rel", "Lt", pcurv, ("int", 0))) for h in fa)
        if neg:
            nh += 1
            okm = ("bool", ("call", M + "DSymBackTracking::is_minimally_hyperbolic", (mec, pvs, pcurv)), True) in fa
            ctx.ob("T3-minimally-hyperbolic", ch.name, "push(hyperbolic state)", "ok" if okm else "violation",
                   "a negative-curvature assignment is kept only under is_minimally_hyperbolic(&vs, curv) on the pushed vs/curv" if okm else
                   "a negative-curvature assignment is generated without is_minimally_hyperbolic on it", ch.span_of(bi))
        okwin = any(implies(h, ("rel", "Le", ("field", mec, "min_curvature"), pcurv)) for h in fa)
        ctx.require(okwin, "T3-children-window", ch.name, "push<-curv>=min_curvature", "children below the window are pruned", "a child state is generated without curv >= min_curvature", ch.span_of(bi))
    ctx.floor("hyperbolic pushes in DSym children()", nh, 1)
    for h, e, it in loops_in(ch):
        extra = unexpected_carried_state(ch, h, e)
        ctx.ob("T3-per-child-state", ch.name, "loop-carried state", "ok" if not extra else "violation",
               "only the result vector is carried between branching values" if not extra else "state %s is carried from one branching value to the next" % extra)
