"""C08 - geometry predicates agree with the sign of the curvature; spherical exclusion table (DESIGN 4/C08; thin claim)."""
from ..core import *
from ..templates import *

M = "delaney2d::"
EXPLANATION = (
    "Decided (thin): the geometry predicates are functions of the sign of curvature(ds): is_euclidean returns curvature(ds).is_zero(), "
    "is_hyperbolic returns curvature(ds).is_negative(), and every non-false return of is_spherical is dominated by curvature(ds).is_positive(); "
    "the bad-orbifold exclusion has the stated table shape: the cone list is the branching numbers > 1 of the orbit types of oriented_cover(ds), "
    "one cone -> false, two cones -> equal orders, otherwise true. curvature() itself sums (2 or 1)/v over orbit_types_2d(ds) and subtracts "
    "size() (shape: every term is Rational64::new(if loopless {2} else {1}, v)). Also decided (rounds 3-5): an orbit is loopless iff no chamber "
    "of it is fixed by either of its two operations (test at every chamber, both indices); the Euler characteristic is size + #orbits(01, 02, "
    "12) - (3*size + #loops(0, 1, 2))/2 and the symbol gets (2 - chi)/2 handles or 2 - chi cross-caps with chi = euler + #boundary components "
    "(expressions evaluated on samples); a degree is printed bare only if it is at most 9. NOT decided: the Gauss-Bonnet identity between the "
    "two code paths as such, boundary tracing (trace_boundary), invariance under renumbering/dual, multiplication by the sheet number under "
    "covers.")
TRUSTED = ["rustc MIR lowering", "num_traits Zero/Signed sign tests on Rational64"]
ASSUMPTIONS = ["complete 2D D-symbol (asserted by curvature())"]


def run(ctx):
    _g = ctx.facts.getters()
    _n = 0
    for _d, _b in sorted(ctx.facts.bodies.items()):
        if _d.startswith("delaney2d::") and "::test" not in _d and not _b.f.get("test"):
            _n += op_fallback_is_fixed_point(ctx, "T4-undefined-op-stays", _b, _g)
    ctx.floor("op(k, x).unwrap_or(x) sites", _n, 1)
    g = ctx.facts.getters()
    ctx.clauses.append("euclidean <=> curvature 0, hyperbolic <=> curvature < 0, spherical => curvature > 0 (T9/T4)")
    for fn, tests in (("is_euclidean", ("num_traits::Zero::is_zero",)), ("is_hyperbolic", ("num_traits::Signed::is_negative",))):
        b = ctx.body(M + fn)
        ctx.scan([b])
        r = ret_origin(b, g)
        ds = ("param", 1, b.debug.get(1, ""))
        cur = ("call", M + "curvature", (ds,))
        ok = r[0] == "call" and r[1] in tests and r[2] == (cur,)
        alt = r[0] == "binop" and r[1] in ("Eq", "Lt") and cur in (r[2], r[3])
        ctx.ob("T9-sign-test", b.name, "return", "ok" if ok or alt else "violation",
               "%s = curvature(ds).%s()" % (fn, tests[0].split("::")[-1]) if ok or alt else "%s is not the %s sign test of curvature(ds): %s" % (fn, tests[0].split("::")[-1], show(r, 1)[:80]))
    b = ctx.body(M + "is_spherical")
    ctx.scan(ctx.facts.with_closures(b.name))
    ds = ("param", 1, b.debug.get(1, ""))
    pos = ("bool", ("call", "num_traits::Signed::is_positive", (("call", M + "curvature", (ds,)),)), True)
    n = 0
    for bi, si, s in b.assigns():
        if s["place"]["l"] != 0 or s["place"]["p"]:
            continue
        v = norm(b.rv_origin(s["rv"]), g)
        if v == ("int", 0):
            continue
        n += 1
        fa = [atom_norm(a, g) for a in b.facts_at(bi)]
        ctx.ob("T3-spherical-needs-positive", b.name, "return:" + origin_head(v), "ok" if pos in fa else "violation",
               "a possibly-true return is dominated by curvature(ds).is_positive()" if pos in fa else "is_spherical can return true without curvature(ds) > 0", b.span_of(bi, si))
    ctx.floor("non-false returns of is_spherical", n, 2)
    # exclusion table: switch on cones.len()
    ctx.clauses.append("bad-orbifold exclusion table: one cone -> false, two -> equal orders, else true (T4)")
    table = None
    for bi, blk in b.live_blocks():
        t = blk["term"]
        if t["k"] == "switch":
            d = norm(b.origin(t["discr"]), g)
            if d[0] == "call" and d[1].endswith("::len"):
                table = (bi, t, d)
    if table is None:
        ctx.ob("T4-spherical-exclusion", b.name, "match cones.len()", "violation", "the match on the number of cones was not found")
        return
    bi, t, d = table
    cones = d[2][0]
    def val_at(bb):
        cur = bb
        for _ in range(6):
            for s in b.blocks[cur]["stmts"]:
                if s["k"] == "assign" and s["place"]["l"] == 0 and not s["place"]["p"]:
                    return norm(b.rv_origin(s["rv"]), g)
            nx = b.succ().get(cur, [])
            if len(nx) != 1:
                return None
            cur = nx[0]
        return None
    arms = {v: val_at(tg) for v, tg in t["targets"]}
    other = val_at(t["otherwise"])
    ok1 = arms.get(1) == ("int", 0)
    a2 = arms.get(2)
    def is_idx(x, k):
        return x[0] == "call" and x[1].endswith("ops::Index::index") and x[2][1] == ("int", k)
    ok2 = a2 is not None and a2[0] == "binop" and a2[1] == "Eq" and ((is_idx(a2[2], 0) and is_idx(a2[3], 1)) or (is_idx(a2[2], 1) and is_idx(a2[3], 0)))
    oko = other == ("int", 1)
    ctx.ob("T4-spherical-exclusion", b.name, "arms", "ok" if ok1 and ok2 and oko and set(arms) == {1, 2} else "violation",
           "1 cone -> false, 2 cones -> cones[0] == cones[1], otherwise true" if ok1 and ok2 and oko and set(arms) == {1, 2} else
           "exclusion table is %s / default %s" % ({k: (show(v, 1)[:40] if v else None) for k, v in arms.items()}, other and show(other, 1)))
    # cone list: filter v > 1 over orbit types of the oriented cover
    co = norm(b.def_origin(cones), g)
    src_ok = contains(co, lambda s: isinstance(s, tuple) and s and s[0] == "call" and s[1] == M + "orbit_types_2d" and s[2] == (("call", "derived::oriented_cover", (ds,)),))
    flt = [s for s in subterms(co) if isinstance(s, tuple) and s and s[0] == "call" and s[1].endswith("Iterator::filter")]
    fok = False
    for f in flt:
        res = closure_result(ctx.facts, f[2][1], g)
        if res is not None and res[0] == "binop" and ((res[1] == "Gt" and res[3] == ("int", 1)) or (res[1] == "Lt" and res[2] == ("int", 1)) or (res[1] == "Ge" and res[3] == ("int", 2))):
            fok = True
    ctx.ob("T4-spherical-exclusion", b.name, "cones", "ok" if src_ok and fok else "violation",
           "cones = branching numbers > 1 of orbit_types_2d(&oriented_cover(ds))" if src_ok and fok else
           "the cone list is not the branching numbers > 1 of the oriented cover's 2-orbits (source ok: %s, filter v > 1: %s)" % (src_ok, fok))
    # curvature shape
    cu = ctx.body(M + "curvature")
    ctx.scan(ctx.facts.with_closures(cu.name))
    ds = ("param", 1, cu.debug.get(1, ""))
    r = ret_origin(cu, g)
    oks = r[0] == "call" and r[1].endswith("ops::Sub::sub") and contains(r[2][1], lambda s: s == ("call", "dsets::DSet::size", (ds,))) and \
        contains(r[2][0], lambda s: isinstance(s, tuple) and s and s[0] == "call" and s[1] == M + "orbit_types_2d" and s[2] == (ds,)) and \
        contains(r[2][0], lambda s: isinstance(s, tuple) and s and s[0] == "call" and s[1].endswith("Iterator::sum"))
    ctx.ob("T9-curvature-shape", cu.name, "return", "ok" if oks else "violation",
           "curvature = sum over orbit_types_2d(ds) of terms, minus size()" if oks else "curvature is not (sum over orbit_types_2d(ds)) - size(): " + show(r, 1)[:120])
    okt = False
    for c in ctx.facts.closures.get(cu.name, []):
        cb = ctx.facts.bodies[c]
        for bi, t in cb.calls("Ratio::<T>::new"):
            num = norm(cb.origin(t["args"][0]), g)
            den = norm(cb.origin(t["args"][1]), g)
            defs = [norm(d[1], g) for d in cb.all_defs_origins(num[1])] if num[0] == "local" else [num]
            if sorted(d[1] for d in defs if d[0] == "int") == [1, 2] and den[0] in ("field", "param"):
                okt = True
    ctx.ob("T9-curvature-shape", cu.name, "term", "ok" if okt else "violation",
           "each term is Rational64::new(if loopless { 2 } else { 1 }, v)" if okt else "the per-orbit term is not (2 or 1)/v")
    symbol_digits(ctx, g)
    symbol_parts(ctx, g)
    subsymbol_shape(ctx, g)
    exact_2d(ctx, g)
    ctx.floor("chamber-indexed tables in subsymbol", chamber_tables(ctx, "T4-chamber-table", ctx.body("derived::subsymbol"), g), 2)
    loopless_test(ctx, g)
    euler_formula(ctx, g)
    symbol_genus(ctx, g)
    dual_algebra(ctx, g)
    boundary_shape(ctx, g)


def loopless_test(ctx, g):
    """orbit_types_2d: an (i, j)-orbit counts 2/v in the curvature iff NO chamber e of it is fixed by op(i, .) or op(j, .): the test runs over
    every chamber of the orbit of the representative, for both indices, at the chamber itself"""
    ctx.clauses.append("an orbit is loopless iff no chamber of it is fixed by either of its two operations (T2)")
    b = ctx.body(M + "orbit_types_2d")
    ctx.scan(ctx.facts.with_closures(b.name))
    ds = ("param", 1, b.debug.get(1, ""))
    alls = list(b.calls("Iterator::all"))
    ctx.require(len(alls) >= 1, "T2-loopless-test", b.name, "all(..)", "universal test over the orbit", "orbit_types_2d no longer asks whether ALL chambers of the orbit are free of loops")
    for bi, t in alls[:1]:
        src = norm(b.origin(t["args"][0]), g)
        src = norm(b.def_origin(src), g) if src[0] == "local" else src
        orb = [x for x in subterms(src) if is_call(x, "DSet::orbit") and strip(x[2][0]) == ds]
        okorb = False
        idx = []
        if orb:
            arr = strip(orb[0][2][1])
            idx = [strip(x) for x in arr[2]] if arr[0] == "agg" else []
            d_ = strip(orb[0][2][2])
            reps = loop_range_of_payload  # (unused)
            okorb = len(idx) == 2 and iter_source(b, d_, g) is not None and contains(norm(iter_source(b, d_, g), g) if isinstance(iter_source(b, d_, g), tuple) else ("?",), lambda y: is_call(y, "orbit_reps_2d"))
        ctx.ob("T2-loopless-test", b.name, "chambers", "ok" if okorb else "violation",
               "the test runs over ds.orbit([i, j], d) of each 2-orbit representative d" if okorb else "the loopless test does not run over the (i, j)-orbit of a representative from orbit_reps_2d(i, j): " + show(src, 1)[:90], b.span_of(bi))
        if len(idx) == 2:
            orbit_member_fixed_tests(ctx, "T2-loopless-test", b, bi, t, g, ds, idx, "all", "op(i, e) != Some(e) && op(j, e) != Some(e)")


def euler_formula(ctx, g):
    """euler_characteristic(ds) = F - E + V of the cell complex of the orbifold's underlying surface: F = size chambers (triangles),
    E = (3*size + loops_0 + loops_1 + loops_2) / 2 (every chamber has three edges, an edge on a mirror is not shared), V = number of
    (0,1)-, (0,2)- and (1,2)-orbits; decided by evaluating the returned expression on sampled counts"""
    import random
    ctx.clauses.append("Euler characteristic = size + #2-orbits(01, 02, 12) - (3*size + #loops(0, 1, 2)) / 2 (T4, expression evaluated on samples)")
    b = ctx.body(M + "euler_characteristic")
    ctx.scan(ctx.facts.with_closures(b.name))
    ds = ("param", 1, b.debug.get(1, ""))
    r = ret_origin(b, g)
    size_t = ("call", "dsets::DSet::size", (ds,))
    calls = []
    for x in subterms(r):
        if is_call(x, "Fn::call") and x not in calls:
            calls.append(x)
    kinds = {}
    for x in calls:
        cp = closure_parts(x[2][0])
        args = tuple(eval_int(a) for a in strip(x[2][1])[2]) if strip(x[2][1])[0] == "agg" else None
        kind = None
        if cp:
            cb = ctx.facts.bodies.get(cp[0])
            if cb is not None:
                names = [t["callee"].get("def", "") for bi, t in cb.calls()]
                if any(n.endswith("orbit_reps_2d") for n in names) and any(n.endswith("::len") for n in names):
                    kind = "orbits"
                elif any(n.endswith("Iterator::count") for n in names) and any(n.endswith("Iterator::filter") for n in names):
                    kind = "loops"
        kinds[x] = (kind, args)
    orb = sorted(a for k, a in kinds.values() if k == "orbits")
    lps = sorted(a for k, a in kinds.values() if k == "loops")
    oksets = orb == [(0, 1), (0, 2), (1, 2)] and lps == [(0,), (1,), (2,)]
    ctx.ob("T4-euler-formula", b.name, "counts used", "ok" if oksets else "violation",
           "orbit counts for the pairs 01, 02, 12 and loop counts for the operations 0, 1, 2" if oksets else
           "the formula uses orbit counts for %s and loop counts for %s, not (01, 02, 12) and (0, 1, 2)" % (orb, lps))
    rnd = random.Random(11)
    bad = None
    for _ in range(40):
        n = rnd.randint(1, 40)
        env = {size_t: n}
        vo = {x: rnd.randint(1, 30) for x in calls if kinds[x][0] == "orbits"}
        vl = {x: rnd.randint(0, 9) for x in calls if kinds[x][0] == "loops"}
        if (3 * n + sum(vl.values())) % 2:
            continue
        env.update(vo)
        env.update(vl)
        got = eval_term_env(r, env)
        want = n + sum(vo.values()) - (3 * n + sum(vl.values())) // 2
        if got != want:
            bad = "for size %d, orbit counts %s and loop counts %s the expression gives %s, not F + V - E = %d" % (n, sorted(vo.values()), sorted(vl.values()), got, want)
            break
    ctx.ob("T4-euler-formula", b.name, "F + V - E", "ok" if not bad and oksets else "violation",
           "size + sum of orbit counts - (3*size + sum of loop counts) / 2 on sampled counts" if not bad and oksets else (bad or "see `counts used`"))


def symbol_genus(ctx, g):
    """orbifold_symbol: with chi = euler_characteristic(ds) + #boundary components (the closed-up surface) and x = 2 - chi, an orientable
    surface gets x/2 handles "o", a non-orientable one x cross-caps "x"; the choice is made by is_weakly_oriented(ds)"""
    ctx.clauses.append("orbifold symbol: x = 2 - (euler_characteristic + #boundary components); 'o' * (x / 2) if weakly oriented, 'x' * x otherwise (T4)")
    b = ctx.body(M + "orbifold_symbol")
    ds = ("param", 1, b.debug.get(1, ""))
    E = ("call", M + "euler_characteristic", (ds,))
    Bn = ("call", "std::vec::Vec::<T, A>::len", (("call", M + "trace_boundary", (ds,)),))
    wk = ("call", "dsets::DSet::is_weakly_oriented", (ds,))
    got = {}
    for bi, t in b.calls("vec::from_elem"):
        a = [strip(norm(b.origin(x), g)) for x in t["args"]]
        if a[0][0] != "str":
            continue
        pol = None
        for x in b.facts_at(bi):
            x = atom_norm(x, g)
            if x[0] == "bool" and (x[1][0], x[1][1], tuple(strip(y) for y in x[1][2])) == wk:
                pol = x[2]
        vals = [eval_term_env(expand_single_defs(b, a[1], g), {E: e, Bn: k}) for e, k in ((2, 0), (0, 0), (-2, 0), (-4, 2), (1, 1), (-1, 3))]
        got[a[0][1]] = (pol, vals)
    xs = [2 - (e + k) for e, k in ((2, 0), (0, 0), (-2, 0), (-4, 2), (1, 1), (-1, 3))]
    want = {"o": (True, [x // 2 for x in xs]), "x": (False, xs)}
    bad = []
    for k, w in want.items():
        if k not in got:
            bad.append("no run of %r" % k)
        elif got[k][0] != w[0]:
            bad.append("%r is emitted under is_weakly_oriented == %s" % (k, got[k][0]))
        elif got[k][1] != w[1]:
            bad.append("the number of %r is %s for (euler, #boundaries) = (2,0), (0,0), (-2,0), (-4,2), (1,1), (-1,3); expected %s" % (k, got[k][1], w[1]))
    ctx.ob("T4-symbol-genus", b.name, "handles / cross-caps", "ok" if not bad else "violation",
           "'o' * ((2 - chi) / 2) on orientable, 'x' * (2 - chi) on non-orientable surfaces, chi = euler + #boundaries (6 sampled surfaces)" if not bad else "; ".join(bad))


def dual_algebra(ctx, g):
    """dual(ds) reverses the order of the operations: op'(i, d) = op(n - i, d) and the branching number of the pair (i, i+1) is that of
    (n - i - 1, n - i) at the same chamber, on the same chambers and dimension (n = dim); decided by evaluating the closures' index
    expressions for n = 1..4"""
    ctx.clauses.append("dual: op'(i, d) = op(dim - i, d), v'(i, i+1, d) = v(dim - i - 1, dim - i, d), same size and dimension (T4, closures evaluated)")
    b = ctx.body("derived::dual")
    ctx.scan(ctx.facts.with_closures(b.name))
    ds = ("param", 1, b.debug.get(1, ""))
    r = norm(b.local_origin(0), g)
    okshape = is_call(r, "derived::build_sym_using_vs") and is_call(strip(r[2][0]), "derived::build_set")
    bad = None if okshape else "dual is not build_sym_using_vs(build_set(..), ..): " + show(r, 1)[:80]
    if okshape:
        bs = strip(r[2][0])
        if not (strip(bs[2][0]) == ("call", "dsets::DSet::size", (ds,)) and strip(bs[2][1]) == ("call", "dsets::DSet::dim", (ds,))):
            bad = "the dual does not have the size and dimension of ds: build_set(%s, %s, ..)" % (show(bs[2][0], 1)[:30], show(bs[2][1], 1)[:30])
        cps = [closure_parts(strip(bs[2][2])), closure_parts(strip(r[2][1]))]
        if bad is None and (None in cps):
            bad = "the operation / branching maps of the dual are not closure literals"
        if bad is None:
            for which, (cname, caps) in zip(("op", "v"), cps):
                cb = ctx.facts.bodies.get(cname)
                res = strip(norm(cb.local_origin(0), g))
                capenv = {}
                for k, c in enumerate(caps):
                    c = strip(norm(c, g))
                    capenv[("field", ("param", 1, ""), str(k))] = c
                i_, d_ = ("param", 2, cb.debug.get(2, "")), ("param", 3, cb.debug.get(3, ""))
                want_callee = "DSet::op" if which == "op" else "DSym::v"
                if not is_call(res, want_callee):
                    bad = bad or "the %s map of the dual is not ds.%s(..): %s" % (which, which, show(res, 1)[:60])
                    continue
                args = res[2]
                if capenv.get(strip(args[0])) != ds or strip(args[-1]) != d_:
                    bad = bad or "the %s map of the dual does not read ds at the same chamber d" % which
                    continue
                dimcap = [k for k, c in capenv.items() if c == ("call", "dsets::DSet::dim", (ds,))]
                for n in (1, 2, 3, 4):
                    for i in range(0, n + (1 if which == "op" else 0)):
                        env = {i_: i}
                        env.update({k: n for k in dimcap})
                        got = [eval_term_env(a, env) for a in args[1:-1]]
                        want = [n - i] if which == "op" else [n - i - 1, n - i]
                        if got != want:
                            bad = bad or "for dim %d the %s map of the dual sends index %d to %s, expected %s" % (n, which, i, got, want)
    ctx.ob("T4-dual-algebra", b.name, "op(n - i, d) / v(n - i - 1, n - i, d)", "ok" if not bad else "violation",
           "indices are reversed consistently for operations and branching numbers (dim 1..4)" if not bad else bad)


def boundary_shape(ctx, g):
    """boundary components of the orbifold symbol: best_cyclic picks the lexicographically LARGEST of ALL rotations of a corner sequence (so the
    symbol does not depend on where the trace started); trace_boundary starts at every mirror chamber (op(i, d) == d) that was not seen,
    turns to the next index pair in the direction given by the orientation (i+1 or i+2 mod 3), and walks with `opposite`, recording
    every corner with v > 1, until it meets a seen (index, chamber) again; the components are sorted descending"""
    ctx.clauses.append("boundary tracing: best rotation = max over all rotations; start at unseen mirror chambers; direction (i+1 | i+2) mod 3 by orientation; third index k := 3 - j - k (T9/T4)")
    b = ctx.body(M + "best_cyclic")
    ctx.scan(ctx.facts.with_closures(b.name))
    c = ("param", 1, b.debug.get(1, ""))
    r = norm(b.local_origin(0), g)
    ok = is_call(r, "unwrap_or") and is_call(strip(r[2][0]), "Iterator::max")
    if ok:
        mp = strip(strip(r[2][0])[2][0])
        rng = range_of(b, mp[2][0], g) if is_call(mp, "Iterator::map") else None
        ok = rng is not None and rng[0] == ("int", 0) and not rng[2] and is_call(rng[1], "::len") and strip(rng[1][2][0]) == c
        if ok:
            res = closure_result(ctx.facts, mp[2][1], g)
            ch = [x for x in subterms(res)] if res is not None else []
            frm = [x for x in ch if x[0] == "agg" and x[1].endswith("RangeFrom::RangeFrom")]
            to = [x for x in ch if x[0] == "agg" and x[1].endswith("RangeTo::RangeTo")]
            chain = [x for x in ch if is_call(x, "Iterator::chain")]
            ok = len(frm) == 1 and len(to) == 1 and len(chain) == 1 and contains(chain[0][2][0], lambda y: y == frm[0]) and contains(chain[0][2][1], lambda y: y == to[0]) and \
                strip(frm[0][2][0])[:2] == ("param", 2) and strip(to[0][2][0])[:2] == ("param", 2)
    ctx.ob("T9-boundary-shape", b.name, "max over all rotations", "ok" if ok else "violation",
           "best_cyclic = (0..len).map(|i| corners[i..] ++ corners[..i]).max()" if ok else "best_cyclic is not the maximum over all rotations corners[i..] ++ corners[..i], i in 0..len(): " + show(r, 1)[:100])
    tb = ctx.body(M + "trace_boundary")
    ctx.scan([tb])
    L = {n: l for l, n in tb.debug.items()}
    bad = []
    if "k" in L and "j" in L:
        kl, jl = ("local", L["k"], "k"), ("local", L["j"], "j")
        kd = [norm(d, g) for _, d in tb.all_defs_origins(L["k"])]
        starts = sorted(eval_term_env(fold_std_ops(d), {x: 0 for x in subterms(d) if x[0] == "field" and x[1][0] == "variant"}) for d in kd if not contains(d, lambda y: y == kl))
        vals = set()
        for d in kd:
            if contains(d, lambda y: y == kl):
                continue
            pay = [x for x in subterms(d) if x[0] == "field" and x[1][0] == "variant"]
            for i in (0, 1, 2):
                vals.add((i, eval_term_env(d, {p: i for p in pay})))
        want = {(i, (i + 1) % 3) for i in range(3)} | {(i, (i + 2) % 3) for i in range(3)}
        if vals != want:
            bad.append("the two start directions are %s for i = 0, 1, 2; expected (i+1) mod 3 and (i+2) mod 3" % sorted(vals))
        upd = [d for d in kd if contains(d, lambda y: y == kl)]
        oku = len(upd) == 1 and all(eval_term_env(upd[0], {kl: k, jl: j}) == 3 - j - k for j in range(3) for k in range(3) if j != k)
        if not oku:
            bad.append("the third index is not updated as k := 3 - j - k")
    else:
        bad.append("locals j / k not found")
    # sorted descending: sort + reverse on the result, in this order, before the return
    srt = [bi for bi, t in tb.calls("slice::<impl [T]>::sort")]
    rev = [bi for bi, t in tb.calls("slice::<impl [T]>::reverse")]
    if not (len(srt) == 1 and len(rev) == 1 and tb.dominates(srt[0], rev[0])):
        bad.append("the components are not sorted and then reversed")
    # what is sorted are the components in their canonical rotation (sorting the raw traces first makes the order of two components depend on
    # where each trace happened to start, i.e. on the numbering)
    if len(srt) == 1:
        recv = strip(norm(tb.origin(tb.blocks[srt[0]]["term"]["args"][0]), g))
        while recv[0] == "call" and (recv[1].endswith("deref_mut") or recv[1].endswith("deref") or recv[1].endswith("as_mut_slice")):
            recv = strip(recv[2][0])
        if recv[0] == "local":
            pushed = [strip(norm(tb.origin(t["args"][1]), g)) for bi, t in tb.calls("Vec::<T, A>::push") if strip(norm(tb.origin(t["args"][0]), g)) == recv]
            defs = [strip(norm(d, g)) for _, d in tb.all_defs_origins(recv[1])]
            via_map = any(contains(d, lambda y: (isinstance(y, tuple) and y and y[0] == "fn" and y[1].endswith("best_cyclic")) or is_call(y, "best_cyclic")) for d in defs)
            if not ((pushed and all(is_call(x, "best_cyclic") for x in pushed)) or (not pushed and via_map)):
                bad.append("the components are sorted before they are rotated into their canonical form (best_cyclic): their order depends on where each trace started")
        else:
            bad.append("the sorted list is not a local of trace_boundary")
    # v > 1 guard on the corner push
    okv = False
    for bi, t in tb.calls("Vec::<T, A>::push"):
        a = [strip(norm(tb.origin(x), g)) for x in t["args"]]
        if a[0][0] == "local" and tb.debug.get(a[0][1]) == "corners":
            fa = [atom_norm(x, g) for x in tb.facts_at(bi)]
            okv = any(x[0] == "rel" and x[1] in ("Lt", "Le") and x[2][0] == "int" and lower_of(x) is not None and lower_of(x)[1] == 2 for x in fa)
    if not okv:
        bad.append("corners are not recorded exactly for v > 1")
    ctx.ob("T9-boundary-shape", tb.name, "directions / third index / order / corner filter", "ok" if not bad else "violation",
           "start directions (i+1 | i+2) mod 3, k := 3 - j - k, corners with v > 1, components sorted descending" if not bad else "; ".join(bad))


def symbol_parts(ctx, g):
    """orbifold_symbol names the orbifold with ALL its cone points: the first part prints the whole list cone_degrees(ds) - every degree as often
    as it occurs (442, 2222, 333), only reordered (sorted, then reversed: descending) - and each boundary component contributes `*` followed by
    its own corner list, in the order trace_boundary found them"""
    ctx.clauses.append("orbifold symbol prints the full cone list (with multiplicity, descending) and per boundary component `*` + its corners (T9)")
    b = ctx.body(M + "orbifold_symbol")
    ds = ("param", 1, b.debug.get(1, ""))
    uses = list(b.calls("degree_list_as_string"))
    bad = None
    first = None
    lit = [o for bi_, si_, s_ in b.assigns() if s_["rv"]["k"] == "aggregate" and s_["rv"].get("agg") == "array" and any(e["k"] == "deref" for e in s_["place"]["p"]) for o in [s_["rv"]["ops"]]]
    # the vec! literal that starts `parts`
    starts = [strip(norm(b.origin(o[0]), g)) for o in lit if len(o) == 1]
    starts = [x for x in starts if is_call(x, "degree_list_as_string")]
    if len(starts) != 1:
        bad = "the symbol does not start with degree_list_as_string(cone list)"
    else:
        arg = strip(starts[0][2][0])
        if arg[0] != "local":
            bad = "the cone part is printed from %s, not from the list cone_degrees(ds) itself: degrees can be lost or merged on the way (a set keeps each degree once: 442 is printed as 42)" % show(arg, 1)[:70]
        else:
            defs = [strip(norm(d, g)) for _, d in b.all_defs_origins(arg[1])]
            if defs != [("call", M + "cone_degrees", (ds,))]:
                bad = "the cone part is printed from %s, not from cone_degrees(ds)" % [show(d, 1)[:50] for d in defs]
            else:
                use_bb = [bi for bi, t in uses if strip(norm(b.origin(t["args"][0]), g)) == arg]
                touch = []
                for bi, t in b.calls():
                    nm = t["callee"].get("def", "")
                    if nm.endswith("degree_list_as_string") or nm.endswith("cone_degrees"):
                        continue
                    if any(contains(norm(b.origin(a), g), lambda y: y == arg) for a in t["args"]):
                        touch.append((bi, nm))
                srt = [bi for bi, nm in touch if nm.endswith("::sort") or nm.endswith("::sort_unstable")]
                rev = [bi for bi, nm in touch if nm.endswith("::reverse")]
                other = [nm for bi, nm in touch if not (nm.endswith("::sort") or nm.endswith("::sort_unstable") or nm.endswith("::reverse") or nm.endswith("deref_mut") or nm.endswith("::deref"))]
                if other:
                    bad = "the cone list is changed by %s before it is printed (only reordering keeps every cone point)" % [o.split("::")[-1] for o in other]
                elif not (len(srt) == 1 and len(rev) == 1 and len(use_bb) == 1 and b.dominates(srt[0], rev[0]) and b.dominates(rev[0], use_bb[0])):
                    bad = "the cone list is not sorted and then reversed (descending) before it is printed"
    ctx.ob("T9-symbol-parts", b.name, "cone part", "ok" if not bad else "violation",
           "degree_list_as_string(cone_degrees(ds) sorted descending): every cone point is printed" if not bad else bad)
    # boundary components
    pushes = [(bi, strip(norm(b.origin(t["args"][1]), g))) for bi, t in b.calls("::push")]
    star = [bi for bi, v in pushes if is_call(v, "to_string") and strip(v[2][0]) == ("str", "*")]
    cor = [(bi, v) for bi, v in pushes if is_call(v, "degree_list_as_string")]
    bad = None
    if len(star) != 1 or len(cor) != 1:
        bad = "not one `*` and one corner list per boundary component"
    else:
        el = strip(cor[0][1][2][0])
        r = iter_source(b, el, g)
        src_ok = isinstance(r, tuple) and contains(norm(r, g), lambda y: y == ("call", M + "trace_boundary", (ds,)))
        lp1, lp2 = loop_containing(b, star[0]), loop_containing(b, cor[0][0])
        if not src_ok:
            bad = "the corner lists printed are not the components of trace_boundary(ds)"
        elif lp1 is None or lp1 != lp2 or not b.dominates(star[0], cor[0][0]):
            bad = "`*` and the component's corner list are not pushed together, `*` first, once per boundary component"
    ctx.ob("T9-symbol-parts", b.name, "boundary parts", "ok" if not bad else "violation",
           "for every component of trace_boundary(ds): `*`, then its corner degrees" if not bad else bad)


def subsymbol_shape(ctx, g):
    """subsymbol(ds, indices, seed) - what the 3D code hands to the 2D invariants (vertex figures, tiles, components): the orbit of `seed` under
    `indices`, renumbered 1.., with op'(i, .) = op(indices[i], .) and v'(i, .) = v(indices[i], indices[i + 1], .), of dimension len(indices) - 1"""
    ctx.clauses.append("subsymbol: the indices-orbit of the seed, renumbered by inverse maps, with operations / branching numbers looked up through indices[.] (T9)")
    b = ctx.body("derived::subsymbol")
    ctx.scan(ctx.facts.with_closures(b.name))
    ds, seed = ("param", 1, b.debug.get(1, "")), ("param", 3, b.debug.get(3, ""))
    r = strip(norm(b.local_origin(0), g))
    idx_t = [None]

    def index_of(t):
        # indices[t]
        return ("index", idx_t[0], t) if idx_t[0] is not None else t
    # discover the index table from the op closure: ds.op(X[i], ..)
    if is_call(r, "derived::build_sym_using_vs") and is_call(strip(r[2][0]), "derived::build_set"):
        opr = apply_closure(ctx.facts, strip(strip(r[2][0])[2][2]), [("local", -1, "i"), ("local", -2, "d")], g)
        o = strip(opr) if opr is not None else None
        if o is not None and is_call(o, "Option::<T>::map") and is_call(strip(o[2][0]), "DSet::op"):
            ai = as_index(strip(strip(o[2][0])[2][1]))
            if ai and strip(ai[1]) == ("local", -1, "i"):
                idx_t[0] = ai[0]

    def I(t):
        return ("call", "std::ops::Index::index", (idx_t[0], t)) if False else ("idx", t)
    # compare modulo the concrete Index representation: canonicalise both sides
    def canon(t):
        def f(x):
            a = as_index(x) if isinstance(x, tuple) and x and x[0] in ("index", "call") else None
            if a and a[0] == idx_t[0]:
                return ("idx", unov_deep(strip(a[1])))
            return None
        return map_term(t, f)
    maps = None
    if idx_t[0] is None:
        ctx.ob("T9-subsymbol", b.name, "renumbered op / v", "violation", "op'(i, d) does not look up ds.op(indices[i], ..)")
    else:
        # reuse the generic check on canonicalised closures by a local re-implementation of its comparison
        i_, d_ = ("local", -1, "i"), ("local", -2, "d")
        bs = strip(r[2][0])
        o = strip(apply_closure(ctx.facts, strip(bs[2][2]), [i_, d_], g))
        vr = apply_closure(ctx.facts, strip(r[2][1]), [i_, d_], g)
        oc = strip(o[2][0])
        a = [strip(y) for y in oc[2]]
        ix = as_index(a[2])
        inner = apply_closure(ctx.facts, strip(o[2][1]), [("local", -3, "e")], g)
        ii = as_index(strip(inner)) if inner is not None else None
        bad = None
        if not (a[0] == ds and canon(a[1]) == ("idx", i_) and ix and strip(ix[1]) == d_ and ii and strip(ii[1]) == ("local", -3, "e")):
            bad = "op'(i, d) is not src2img[ds.op(indices[i], img2src[d])]: %s" % show(o, 1)[:80]
        else:
            img2src, src2img = ix[0], ii[0]
            v = canon(unov_deep(strip(vr))) if vr is not None else None
            vi = as_index(v[2][3]) if v is not None and is_call(v, "DSym::v") else None
            if img2src == src2img:
                bad = "op'(i, d) maps into and out of the same table"
            elif not (vi and strip(v[2][0]) == ds and strip(v[2][1]) == ("idx", i_) and strip(v[2][2]) == ("idx", ("binop", "Add", i_, ("int", 1))) and vi[0] == img2src and strip(vi[1]) == d_):
                bad = "v'(i, d) is not ds.v(indices[i], indices[i + 1], img2src[d]): %s" % (show(v, 1)[:80] if v else None)
            else:
                maps = (src2img, img2src)
        ctx.ob("T9-subsymbol", b.name, "renumbered op / v", "ok" if not bad else "violation",
               "op'(i, d) = src2img[ds.op(indices[i], img2src[d])], v'(i, d) = ds.v(indices[i], indices[i + 1], img2src[d])" if not bad else bad)
    if maps is None:
        return
    src2img, img2src = maps
    # size / dimension / element set / maps
    bs = strip(r[2][0])
    A = [strip(y) for y in bs[2]]
    orb = [y for y in subterms(A[0]) if is_call(y, "DSet::orbit")]
    bad = None
    if not (is_call(A[0], "::len") and len(orb) == 1 and strip(orb[0][2][0]) == ds and strip(orb[0][2][2]) == seed and contains(orb[0][2][1], lambda y: y == idx_t[0])):
        bad = "the size is not the length of ds.orbit(indices, seed): %s" % show(A[0], 1)[:60]
    elif unov_deep(A[1]) != ("binop", "Sub", ("call", "std::vec::Vec::<T, A>::len", (idx_t[0],)), ("int", 1)):
        bad = "the dimension is not indices.len() - 1: %s" % show(A[1], 1)[:50]
    stores = []
    for bi, si, s in b.assigns():
        if [e["k"] for e in s["place"]["p"]] == ["deref"]:
            tgt = strip(norm(b.local_origin(s["place"]["l"]), g))
            if is_call(tgt, "IndexMut::index_mut"):
                stores.append((bi, strip(tgt[2][0]), strip(tgt[2][1]), strip(norm(b.rv_origin(s["rv"]), g))))
    if not bad:
        if len(stores) != 2:
            bad = "%d indexed stores (expected src2img[d] = next; img2src[next] = d)" % len(stores)
        else:
            byarr = {st[1]: st for st in stores}
            if set(byarr) != {src2img, img2src} or byarr[src2img][2] != byarr[img2src][3] or byarr[src2img][3] != byarr[img2src][2]:
                bad = "the two renumbering maps are not written as inverses of each other"
            else:
                dterm = byarr[src2img][2]
                rr = loop_range_of_payload(b, dterm, g)
                fa = [atom_norm(x, g) for x in b.facts_at(byarr[src2img][0])]
                member = any(x[0] == "bool" and x[2] is True and x[1][0] == "call" and x[1][1].endswith("::contains") and contains(x[1][2][0], lambda y: y == orb[0]) and strip(x[1][2][1]) == dterm for x in fa)
                if not (rr and eval_int(rr[0]) == 1 and rr[2] and is_call(strip(rr[1]), "::size")):
                    bad = "the renumbering loop does not run over 1..=size()"
                elif not member:
                    bad = "a chamber is numbered without `elements.contains(&d)` (the orbit of the seed) dominating the store"
    ctx.ob("T9-subsymbol", b.name, "size, dimension, maps", "ok" if not bad else "violation",
           "len(orbit(indices, seed)) chambers, dimension indices.len() - 1, inverse maps over the chambers of that orbit in 1..=size()" if not bad else bad)


def exact_2d(ctx, g):
    """delaney2d on value tables.  orbit_types_2d visits each index pair once: j in (i + 1)..=dim().  opposite(ds, i, j, d) walks along the
    boundary: while the k-neighbour of e is another chamber, step to it and switch k between i and j (k := i + j - k); answers (k, e).
    trace_boundary starts a component exactly at a mirror (i, d) not seen before.  euler_characteristic counts, for each index, the chambers that
    are their own neighbour.  cone_degrees keeps exactly the loopless orbits with v >= 2.  The symbol of the trivial cases: "*" -> "1*", "" -> "1",
    "x" -> "1x" """
    ctx.clauses.append("delaney2d exactness: pair loop (i + 1)..=dim; boundary walk k := i + j - k until a mirror; components start at unseen mirrors; loop count polarity; cones iff loopless and v >= 2; trivial symbols 1, 1*, 1x (T4)")
    b = ctx.body(M + "orbit_types_2d")
    ctx.scan(ctx.facts.with_closures(b.name))
    bad = None
    reps = [[strip(norm(b.origin(x), g)) for x in t["args"]] for bi, t in b.calls("DSet::orbit_reps_2d")]
    if len(reps) != 1:
        bad = "%d orbit_reps_2d calls" % len(reps)
    else:
        i_t, j_t = reps[0][1], reps[0][2]
        ri, rj = loop_range_of_payload(b, i_t, g), loop_range_of_payload(b, j_t, g)
        lo = unov_deep(strip(rj[0])) if rj else None
        if not (ri and rj and eval_int(ri[0]) == 0 and not ri[2] and is_call(strip(ri[1]), "::dim") and lo == ("binop", "Add", i_t, ("int", 1)) and rj[2] and is_call(strip(rj[1]), "::dim")):
            bad = "the index pairs are not i in 0..dim(), j in (i + 1)..=dim() (each pair once, no pair twice, none with itself)"
    ctx.ob("T4-exact-2d", b.name, "pairs i < j", "ok" if not bad else "violation", "i in 0..dim(), j in (i + 1)..=dim()" if not bad else bad)
    ob = ctx.body(M + "opposite")
    ds, i_, j_, d_ = (("param", k, ob.debug.get(k, "")) for k in (1, 2, 3, 4))
    bad = None
    ret = strip(norm(ob.local_origin(0), g))
    if not (ret[0] == "agg" and len(ret[2]) == 2 and all(strip(x)[0] == "local" for x in ret[2])):
        bad = "the answer is not the pair (k, e) of the walk"
    else:
        k, e = strip(ret[2][0]), strip(ret[2][1])
        kd = [strip(norm(d, g)) for dbb, d in ob.all_defs_origins(k[1])]
        ed = [strip(norm(d, g)) for dbb, d in ob.all_defs_origins(e[1])]
        kup = [d for d in kd if d != i_]
        eup = [d for d in ed if d != d_]
        okk = len(kd) == 2 and i_ in kd and len(kup) == 1 and all(eval_term_env(unov_deep(kup[0]), {i_: a, j_: c, k: kv}) == want for a, c, kv, want in ((0, 1, 0, 1), (0, 1, 1, 0), (1, 2, 1, 2), (1, 2, 2, 1), (0, 2, 2, 0)))
        oke = len(ed) == 2 and d_ in ed and len(eup) == 1 and is_call(eup[0], "Option::<T>::unwrap") and is_call(strip(eup[0][2][0]), "DSet::op") and [strip(z) for z in strip(eup[0][2][0])[2]] == [ds, k, e]
        ex = [atom_norm(a, g) for hh, bl in natural_loops(ob) for e_, ats in loop_exit_atoms(ob, hh, bl, g) for a in ats]
        okx = any(x[0] == "rel" and x[1] == "Eq" and e in (strip(x[2]), strip(x[3])) and
                  any(is_call(strip(z), "Option::<T>::unwrap_or") and is_call(strip(strip(z)[2][0]), "DSet::op") and [strip(w) for w in strip(strip(z)[2][0])[2]] == [ds, k, e] for z in (x[2], x[3])) for x in ex)
        if not okk:
            bad = "k does not start at i and switch between i and j (k := i + j - k)"
        elif not oke:
            bad = "e does not start at d and step to op(k, e)"
        elif not okx:
            bad = "the walk does not stop exactly at a chamber that is its own k-neighbour (a mirror)"
    ctx.ob("T4-exact-2d", ob.name, "boundary walk", "ok" if not bad else "violation", "k = i, e = d; while op(k, e) != e: e = op(k, e), k = i + j - k; answer (k, e)" if not bad else bad)
    tb = ctx.body(M + "trace_boundary")
    bad = None
    seeds = {bi for bi, t in tb.calls("Vec::<T, A>::push") if is_call(strip(norm(tb.origin(t["args"][1]), g)), "best_cyclic")}
    first = {bi for bi, t in tb.calls("DSym::v")}
    sites = first or seeds
    for mirror, seen, want in ((1, 0, True), (0, 0, False), (1, 1, False), (0, 1, False)):
        def val(y, mirror=mirror, seen=seen):
            if y[0] == "call" and y[1].endswith("PartialEq::ne") and any(is_call(strip(z), "DSet::op") for z in y[2]):
                return 0 if mirror else 1
            if y[0] == "call" and y[1].endswith("PartialEq::eq") and any(is_call(strip(z), "DSet::op") for z in y[2]):
                return 1 if mirror else 0
            if y[0] == "call" and y[1].endswith("::contains") and contains(y, lambda z: z[0] == "field" and z[2] == "0" and strip(z[1])[0] == "variant"):
                return seen
            return None
        r = reachable_sites(tb, g, sites, val)
        if bool(r) != want and not bad:
            bad = "at a chamber that is %s mirror of index i and %s as (i, d): a boundary component is %s" % ("a" if mirror else "no", "already seen" if seen else "not yet seen", "traced" if r else "not traced")
    if not bad:
        oc = [(bi, [strip(norm(tb.origin(x), g)) for x in t["args"]]) for bi, t in tb.calls(M + "opposite")]
        if len(oc) != 1 or not all(x[0] == "local" for x in oc[0][1][1:]):
            bad = "not one opposite(ds, k, j, e) step on the walk's variables"
        else:
            K, J, E = oc[0][1][1:4]
            res = ("call", M + "opposite", tuple(oc[0][1]))
            lb = set()
            for hh, bl in natural_loops(tb):
                if oc[0][0] in bl:
                    lb = set(bl) if not lb or len(bl) < len(lb) else lb
            ind = lambda l: [strip(norm(d, g)) for dbb, d in tb.all_defs_origins(l[1]) if dbb in lb]
            full = lambda t_: map_term(t_, lambda y: norm(tb.local_origin(y[1]), g) if y[0] == "local" and tb.is_stable_local(y[1]) else None)
            ed = [strip(full(x)) for x in ind(E)]
            jd = [strip(full(x)) for x in ind(J)]
            jd = [strip(full(strip(norm(d, g)))) for x in jd for d in ([x] if x[0] != "local" else [dd for _, dd in tb.all_defs_origins(x[1])])]
            ins = [strip(norm(tb.origin(t["args"][1]), g)) for bi, t in tb.calls("HashSet::<T, S, A>::insert") if bi in lb] or [strip(norm(tb.origin(t["args"][1]), g)) for bi, t in tb.calls("::insert") if bi in lb]
            con = [strip(norm(tb.origin(t["args"][1]), g)) for bi, t in tb.calls("::contains") if bi in lb]
            vv = [[strip(norm(tb.origin(x), g)) for x in t["args"]] for bi, t in tb.calls("DSym::v") if bi in lb]
            if ed != [("field", res, "1")]:
                bad = "the chamber does not continue at the second component of opposite(..): %s" % [show(x, 1)[:40] for x in ed]
            elif ("field", res, "0") not in jd:
                bad = "the mirror index does not continue with the first component of opposite(..)"
            elif ins != [("agg", "tuple", (J, E))] or con != [("agg", "tuple", (J, E))]:
                bad = "the visited mirrors are not recorded and tested as (j, e)"
            elif not (len(vv) == 1 and {vv[0][1], vv[0][2]} == {J, K} and vv[0][3] == E):
                bad = "the corner degree is not v(j, k, e)"
    ctx.ob("T4-exact-2d", tb.name, "components start at unseen mirrors", "ok" if not bad and sites else "violation", "4 combinations" if not bad and sites else (bad or "no tracing site"))
    eb = ctx.body(M + "euler_characteristic")
    ctx.scan(ctx.facts.with_closures(eb.name))
    bad = None
    fl = [cb for cb in ctx.facts.with_closures(eb.name) if "{closure#1}::{closure#0}" in cb.name]
    if len(fl) != 1:
        bad = "the loop count is not a filter over the chambers"
    else:
        r = strip(norm(fl[0].local_origin(0), g))
        okq = (is_call(r, "PartialEq::eq") or (r[0] == "binop" and r[1] == "Eq"))
        args = [strip(x) for x in (r[2] if r[0] == "call" else r[2:4])] if okq else []
        okq = okq and any(is_call(x, "DSet::op") for x in args) and any(x[0] == "agg" and x[1].endswith("Option::Some") for x in args)
        if not okq:
            bad = "the chambers counted are not those with op(i, d) == Some(d): %s" % show(r, 1)[:60]
    ctx.ob("T4-exact-2d", eb.name, "loops counted", "ok" if not bad else "violation", "nr_loops(i) counts the chambers with op(i, d) == Some(d)" if not bad else bad)
    cb_ = ctx.body(M + "cone_degrees")
    ctx.scan(ctx.facts.with_closures(cb_.name))
    fc = [c for c in ctx.facts.with_closures(cb_.name) if c.name.endswith("{closure#0}")]
    bad = None
    if len(fc) != 1:
        bad = "no filter closure"
    else:
        c = fc[0]
        rets = {}
        for cv, vv, want in ((1, 1, False), (1, 2, True), (1, 5, True), (0, 2, False), (0, 1, False)):
            def val(y, cv=cv, vv=vv):
                if y[0] in ("field", "deref") and c.local_ty(0) is not None:
                    t_ = strip(y)
                    if t_[0] == "field" and str(t_[2]) == "1":
                        return cv
                    if t_[0] == "field" and str(t_[2]) == "0":
                        return vv
                return None
            got = bool_results(c, g, val)
            if got != {want}:
                bad = bad or "an orbit that is %s with v = %d is %s as a cone (cones are the loopless orbits with v >= 2)" % ("loopless" if cv else "on a mirror", vv, "kept" if True in got else "not kept")
    ctx.ob("T4-exact-2d", cb_.name, "cones = loopless && v > 1", "ok" if not bad else "violation", "5 combinations" if not bad else bad)
    sb = ctx.body(M + "orbifold_symbol")
    strs = set(str_consts_in(sb))
    for (n_, k_), pb in ctx.facts.promoted.items():
        if n_ == sb.name:
            strs |= set(str_consts_in(pb if hasattr(pb, "live_blocks") else Body(pb, ctx.facts)))
    ok = {"1x", "1*", "1"} <= strs and not ({"2*", "0*", "2", "0", "0x", "2x"} & strs)
    ctx.ob("T4-exact-2d", sb.name, "trivial symbols", "ok" if ok else "violation",
           "the empty, `*` and `x` symbols are written 1, 1* and 1x" if ok else "the trivial symbols are not written 1 / 1* / 1x: string constants %s" % sorted(strs))


def symbol_digits(ctx, g):
    """the orbifold symbol names the orbifold only if it can be read back: a cone/corner degree is written bare only when it is a
    single digit (Conway notation; `10` would read as the two degrees 1 and 0), otherwise in parentheses"""
    ctx.clauses.append("orbifold symbol is unambiguous: a degree is printed bare only if it is at most 9 (T3)")
    fn = M + "degree_list_as_string"
    bodies = ctx.facts.with_closures(fn)
    ctx.scan(bodies)
    n = 0
    for cb in bodies:
        for bi, t in cb.calls("ToString::to_string"):
            a = strip(norm(cb.origin(t["args"][0]), g))
            if not (a[0] == "param" or (a[0] == "field" and a[1][0] == "param")):
                continue
            n += 1
            fa = [atom_norm(x, g) for x in cb.facts_at(bi)]
            fa = [("rel", x[1], strip(x[2]), strip(x[3])) if x[0] == "rel" else x for x in fa]
            ok = any(implies(h, ("rel", "Le", a, ("int", 9))) for h in fa)
            ctx.ob("T3-bare-degree-single-digit", cb.name, "to_string", "ok" if ok else "violation",
                   "a degree is printed without parentheses only under %s <= 9" % show(a, 1) if ok else
                   "a degree can be printed without parentheses although it has more than one digit (dominating facts: %s): the symbol no longer names one orbifold" % [show_atom(x)[:40] for x in fa], cb.span_of(bi))
    ctx.floor("bare degree prints in degree_list_as_string", n, 1)
