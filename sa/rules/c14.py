"""C14 - abelian invariants: factor through exponent sums, ascending output, drop 1s, pad zeros (DESIGN 4/C14)."""
from ..core import *
from ..templates import *

M = "fpgroups::invariants::"
ALLOWED_IN_VECTOR = ("num_traits::Zero::zero", "num_traits::One::one", "std::vec::from_elem", "fpgroups::free_words::FreeWord::iter", "std::iter::IntoIterator::into_iter",
                     "std::iter::Iterator::next", "std::ops::IndexMut::index_mut", "std::ops::SubAssign::sub_assign", "std::ops::AddAssign::add_assign",
                     "std::ops::Index::index", "std::clone::Clone::clone", "std::ops::Deref::deref", "std::ops::DerefMut::deref_mut")

EXPLANATION = (
    "Decided: (1) the result is unchanged by rotating or conjugating relators and by free reduction: abelian_invariants consumes each relator "
    "only through relator_as_vector(nr_gens, w) (the matrix is map(relator_as_vector) over the relators, nothing else reads them), and in "
    "relator_as_vector a letter g is used only in the sign test g < 0 and as the index |g| - 1 of an order-independent `+= one()` / `-= one()` "
    "(the -= on the g < 0 edge with index -g - 1, the += on the other with index g - 1); the body calls nothing that could observe positions or "
    "lengths. The result therefore factors through the exponent-sum vector. (2) the list is ascending: on the non-trivial path the returned "
    "vector is the receiver of sort() and is not touched afterwards; the two early returns are constant-filled (empty / nr_gens zeros, under "
    "nr_gens == 0 resp. no relators). (3) factors equal to 1 are dropped and one 0 is appended per free generator: the collected chain is "
    "filter(x != 1) over the diagonal factors chained with repeat(0).take(nr_gens - n), n = min(rows, nr_gens). Also decided (rounds 3-5): gcdx "
    "satisfies the extended-Euclid contract for every input (loop invariant checked by induction on sampled states), the divisor-chain fix-up "
    "runs for every pair i < j whenever factors[i] does not divide factors[j] (guard evaluated on an integer grid) and stores (gcd, lcm), the "
    "pivot search and the row/column passes cover the whole trailing block, no pass works with a stale pivot, the elimination loop ends on the "
    "count of the last pass applied. NOT decided: that these steps together yield the Smith normal form for every matrix (termination and the "
    "global argument), overflow of machine integers, invariance under reordering/inverting relators, renaming generators, adding products as "
    "such.")
TRUSTED = ["rustc MIR lowering", "std sort sorts ascending"]
ASSUMPTIONS = ["letters lie in 1..=nr_gens in absolute value (otherwise indexing panics: out of scope here)"]


def run(ctx):
    g = ctx.facts.getters()
    ai = ctx.body(M + "abelian_invariants")
    rv = ctx.body(M + "relator_as_vector")
    ctx.scan(ctx.facts.with_closures(ai.name) + [rv])
    ctx.clauses += ["invariant under rotating/conjugating relators: factors through exponent sums (T6b)", "the list is ascending (T9)", "1s dropped, zeros padded (T2)"]
    rels = ("param", 2, ai.debug.get(2, ""))
    nr = ("param", 1, ai.debug.get(1, ""))
    # (1a) the relators flow only into map(relator_as_vector)
    uses = []
    for bi, t in ai.calls():
        for a in t["args"]:
            o = norm(ai.origin(a), g)
            if o == rels:
                uses.append((bi, t["callee"].get("def", "")))
    only_iter = all(n.endswith("IntoIterator::into_iter") for bi, n in uses) and len(uses) == 1
    ctx.require(only_iter, "T6-factor-through", ai.name, "rels:uses", "the relator list is only turned into an iterator", "the relators are also consumed by: %s" % [n for bi, n in uses])
    okmap = False
    for bi, t in ai.calls("Iterator::map"):
        src = norm(ai.origin(t["args"][0]), g)
        if src == ("call", "std::iter::IntoIterator::into_iter", (rels,)):
            calls = closure_calls(ctx.facts, ai.origin(t["args"][1]), g)
            okmap = len(calls) == 1 and calls[0][0] == M + "relator_as_vector" and calls[0][2][0] == nr and calls[0][2][1][0] == "param"
            res = closure_result(ctx.facts, ai.origin(t["args"][1]), g)
            okmap = okmap and res is not None and res[0] == "call" and res[1] == M + "relator_as_vector"
    ctx.ob("T6-factor-through", ai.name, "map(relator_as_vector)", "ok" if okmap else "violation",
           "each relator is consumed only by relator_as_vector(nr_gens, w)" if okmap else
           "the matrix rows are not exactly relator_as_vector(nr_gens, w) of each relator: the result may depend on more than exponent sums")
    # (1b) relator_as_vector
    bad_calls = sorted({t["callee"].get("def", "") for bi, t in rv.calls() if t["callee"].get("def", "") not in ALLOWED_IN_VECTOR})
    ctx.ob("T6-letter-use", rv.name, "callees", "ok" if not bad_calls else "violation",
           "only iteration, indexing and += / -= of one()" if not bad_calls else "relator_as_vector also calls %s: the row may depend on positions/length, not only on exponent sums" % bad_calls)
    adds = list(rv.calls("ops::AddAssign::add_assign"))
    subs = list(rv.calls("ops::SubAssign::sub_assign"))
    ctx.floor("+=/-= sites in relator_as_vector", len(adds) + len(subs), 2)
    def letter_of(idx):
        ls = [l for l in _leaves(idx) if l[0] != "int"]
        return ls
    for kind, sites in (("add", adds), ("sub", subs)):
        for bi, t in sites:
            tgt = norm(rv.origin(t["args"][0]), g)
            val = norm(rv.origin(t["args"][1]), g)
            okv = val == ("call", "num_traits::One::one", ())
            okt = tgt[0] == "call" and tgt[1].endswith("IndexMut::index_mut")
            idx = tgt[2][1] if okt else None
            ls = letter_of(idx) if idx is not None else []
            oki = okt and len(set(ls)) == 1 and iter_source(rv, ls[0], g) is not None
            letter = ls[0] if oki else None
            fa = [atom_norm(a, g) for a in rv.facts_at(bi)]
            if kind == "sub":
                sign = letter is not None and any(implies(h, ("rel", "Lt", letter, ("int", 0))) for h in fa)
                shape = letter is not None and idx == ("field", ("binop", "SubWithOverflow", ("unop", "Neg", letter), ("int", 1)), "0")
            else:
                sign = letter is not None and any(implies(h, ("rel", "Le", ("int", 0), letter)) for h in fa)
                shape = letter is not None and idx == ("field", ("binop", "SubWithOverflow", letter, ("int", 1)), "0")
            ok = okv and oki and sign and shape
            ctx.ob("T6-letter-use", rv.name, "%s_assign(row[|g|-1], one())" % kind, "ok" if ok else "violation",
                   "row[%s] %s= one() under %s" % ("-g-1" if kind == "sub" else "g-1", "-" if kind == "sub" else "+", "g < 0" if kind == "sub" else "g >= 0") if ok else
                   "the %s-update does not have the form row[|g|-1] %s= one() under the matching sign test (value one(): %s, index from the letter only: %s, sign guard: %s, index shape: %s)" % (kind, "-" if kind == "sub" else "+", okv, oki, sign, shape), rv.span_of(bi))
    r = ret_origin(rv, g)
    ctx.require(r[0] == "local", "T6-letter-use", rv.name, "return row", "returns the accumulated row", "relator_as_vector returns " + show(r, 1)[:50])

    # (1c) elimination routines never work with a stale pivot / element snapshot
    elim = [ctx.facts.bodies[d] for d in sorted(ctx.facts.bodies) if d.startswith(M) and "{closure" not in d]
    ctx.scan(elim)
    k = no_stale_elements(ctx, "T3-no-stale-element", elim, g)
    ctx.floor("elimination routines scanned for stale element reads", k, 6)
    # (1d) sibling cross-check: row clearing and column clearing are transposes of each other
    siblings_agree(ctx, "T4-siblings-agree", M + "clear_later_rows_in_place", M + "clear_later_cols_in_place", "row step ~ column step", compare_fields=True)
    divisor_chain(ctx, g, ai)
    elimination_ranges(ctx, g)
    elimination_algebra(ctx, g)
    pivot_rules(ctx, g)
    last_pass_decides(ctx, g)
    ctx.clauses.append("gcdx is extended Euclid: r*A + s*B = +-gcd, t*A + u*B = 0, r*u - s*t = +-1 for every input (loop invariant decided on sampled states)")
    gx = ctx.body(M + "gcdx")
    ctx.scan([gx])
    euclid_contract(ctx, "T7-euclid-contract", gx, g)
    # (2) ascending
    sorts = [(bi, t) for bi, t in ai.calls("slice::<impl [T]>::sort")]
    rets_assign = [(bi, si, norm(ai.rv_origin(s["rv"]), g)) for bi, si, s in ai.assigns() if s["place"]["l"] == 0 and not s["place"]["p"]]
    rets_call = [(bi, t) for bi, t in ai.calls() if t["dest"]["l"] == 0 and not t["dest"]["p"]]
    ctx.floor("return sites of abelian_invariants", len(rets_assign) + len(rets_call), 3)
    for bi, si, v in rets_assign:
        ok = False
        if v[0] == "local":
            for sb, st in sorts:
                recv = norm(ai.origin(st["args"][0]), g)
                if contains(recv, lambda s: s == v) and ai.dominates(sb, bi):
                    region = ai.fwd(ai.succ()[sb][0] if ai.succ().get(sb) else sb) & ai.bwd(bi)
                    if not ai.mutations_in(region, v[1], bi):
                        ok = True
        ctx.ob("T9-sorted-on-return", ai.name, "return result", "ok" if ok else "violation",
               "the returned vector is the receiver of sort() and is not changed afterwards" if ok else
               "the vector returned on the main path is not (still) sorted: no dominating sort() on it, or it is modified after sorting", ai.span_of(bi, si))
    for bi, t in rets_call:
        n = t["callee"].get("def", "")
        args = [norm(ai.origin(a), g) for a in t["args"]]
        fa = [atom_norm(a, g) for a in ai.facts_at(bi)]
        if n.endswith("Vec::<T>::new"):
            ok = any(implies(h, ("rel", "Eq", nr, ("int", 0))) for h in fa)
            ctx.ob("T9-sorted-on-return", ai.name, "return vec![]", "ok" if ok else "violation", "empty list exactly under nr_gens == 0" if ok else "an empty list is returned without nr_gens == 0")
        elif n.endswith("vec::from_elem"):
            ok = args == [("int", 0), nr] and any(a[0] == "rel" and a[1] == "Eq" and a[3] == ("int", 0) and a[2][0] == "call" and a[2][1].endswith("::len") for a in fa)
            ctx.ob("T9-sorted-on-return", ai.name, "return vec![0; nr_gens]", "ok" if ok else "violation",
                   "nr_gens zeros exactly when there are no relators" if ok else "the constant early return is not vec![0; nr_gens] under mat.len() == 0: %s" % [show(a, 1) for a in args])
        else:
            ctx.ob("T9-sorted-on-return", ai.name, "return " + n.split("::")[-1], "undecided", "unrecognised return value")

    # (3) drop ones, pad zeros
    okf = okt = False
    for bi, t in ai.calls("Iterator::filter"):
        res = closure_result(ctx.facts, ai.origin(t["args"][1]), g)
        if res is not None and res[0] == "binop" and res[1] == "Ne" and ("int", 1) in (res[2], res[3]):
            okf = True
    for bi, t in ai.calls("Iterator::take"):
        a = [norm(ai.origin(x), g) for x in t["args"]]
        n_ = a[1]
        if a[0] == ("call", "std::iter::repeat", (("int", 0),)) and n_[0] == "field" and n_[1][0] == "binop" and n_[1][1] == "SubWithOverflow" and n_[1][2] == nr and \
                n_[1][3][0] == "call" and n_[1][3][1].endswith("Ord::min") and nr in n_[1][3][2]:
            okt = True
    chain_ok = any(True for _ in ai.calls("Iterator::chain"))
    ctx.ob("T2-drop-ones", ai.name, "filter(x != 1)", "ok" if okf else "violation", "trivial factors are dropped" if okf else "factors equal to 1 are no longer filtered out")
    ctx.ob("T2-pad-zeros", ai.name, "chain(repeat(0).take(nr_gens - n))", "ok" if okt and chain_ok else "violation",
           "one 0 per generator beyond the rank bound n = min(rows, nr_gens)" if okt and chain_ok else "the list is no longer padded with nr_gens - min(rows, nr_gens) zeros")


LOWS = {"find_pivot": {"rows": (5,), "columns": (5,)},
        "move_pivot_in_place": {"rows": (0, 5), "columns": (0, 5)},
        "clear_later_rows_in_place": {"rows": (6,), "columns": (0, 5)},
        "clear_later_cols_in_place": {"rows": (0, 5), "columns": (6,)}}
LOW_NAMES = {0: "0", 5: "i", 6: "i + 1"}


def elimination_ranges(ctx, g):
    """the pivot search and the row/column steps cover the whole trailing block: a loop whose variable indexes the rows of `mat` ends at
    mat.len(), one whose variable indexes the columns ends at mat[0].len() - not at the minimum of the two (with fewer relators than
    generators the pivot may sit in a column beyond the number of rows)"""
    ctx.clauses.append("pivot search and elimination steps range over all remaining rows and all remaining columns (T4)")
    n = 0
    n_lo = [0]
    for fn in ("find_pivot", "move_pivot_in_place", "clear_later_rows_in_place", "clear_later_cols_in_place"):
        b = ctx.body(M + fn)
        mat = ("param", 1, b.debug.get(1, ""))
        rows_t = ("call", "std::vec::Vec::<T, A>::len", (mat,))
        seen = set()
        for pat in ("Index::index", "IndexMut::index_mut"):
            for bi, t in b.calls(pat):
                a = [strip(norm(b.origin(x), g)) for x in t["args"]]
                r = loop_range_of_payload(b, a[1], g)
                if r is None:
                    continue
                base = a[0]
                is_row_index = base == mat
                is_col_index = (is_call(base, "Index::index") or is_call(base, "IndexMut::index_mut") or base[0] == "index") and contains(base, lambda y: y == mat)
                if not (is_row_index or is_col_index):
                    continue
                hi = strip(expand_single_defs(b, r[1], g))
                want_rows = hi == rows_t
                want_cols = is_call(hi, "::len") and contains(hi, lambda y: y == mat) and hi != rows_t and not contains(hi, lambda y: is_call(y, "Ord::min"))
                # the number of columns is read off row 0, the only row a non-empty matrix is sure to have (a single relator gives a 1-row matrix)
                ai_ = as_index(strip(hi[2][0])) if want_cols and hi[2] else None
                if want_cols and not (ai_ and eval_int(ai_[1]) == 0):
                    want_cols = False
                ok = (want_rows if is_row_index else want_cols) and not r[2]
                key = (fn, "rows" if is_row_index else "columns", show(hi, 1)[:40])
                # where the loop starts, with the step index (second parameter) set to 5: the trailing block starts at 5; the rows / columns
                # before it are already clear below / right of the diagonal, so a swap or a row step may also start at 0 - but nowhere else
                lo = eval_term_env(unov_term(fold_std_ops(strip(expand_single_defs(b, r[0], g)))), {("param", 2, b.debug.get(2, "")): 5})
                allowed = LOWS[fn]["rows" if is_row_index else "columns"]
                lkey = (fn, "rows" if is_row_index else "columns", "from", lo)
                if lkey not in seen:
                    seen.add(lkey)
                    n_lo[0] += 1
                    ctx.ob("T4-elimination-ranges", b.name, "%s from %s" % (key[1], "/".join(LOW_NAMES[a_] for a_ in allowed)), "ok" if lo in allowed else "violation",
                           "the %s loop starts at the first %s of the trailing block%s" % (key[1], key[1][:-1], " (or at 0)" if 0 in allowed else "") if lo in allowed else
                           "with the step index at 5 the loop over the %s starts at %s, not at %s: %s" % (
                               key[1], lo, " or ".join(str(a_) for a_ in allowed),
                               "part of the two lines is left unswapped, the step is no longer a row/column permutation" if fn == "move_pivot_in_place" else
                               "entries of the trailing block are skipped (or finished pivots are looked at again)"), b.span_of(bi))
                if key in seen:
                    continue
                seen.add(key)
                n += 1
                ctx.ob("T4-elimination-ranges", b.name, "%s up to %s" % (key[1], "mat.len()" if is_row_index else "mat[0].len()"), "ok" if ok else "violation",
                       "the %s loop ends at the matrix's own number of %s" % (key[1], key[1]) if ok else
                       "the loop over the %s of the matrix ends at %s instead of %s: part of the trailing block is never looked at (a pivot there is missed, torsion is reported as a free factor)" % (
                           key[1], show(hi, 1)[:50], "mat.len()" if is_row_index else "mat[0].len()"), b.span_of(bi))
    ctx.floor("row/column loops of the elimination routines", n, 8)
    ctx.floor("row/column loop starts of the elimination routines", n_lo[0], 8)


def _gcdx_ref(a, b):
    """reference extended Euclid (truncating division, as the contract rule proves of the crate's gcdx): (g, r, s, t, u) with r*a + s*b = g, t*a + u*b = 0"""
    a0, a1, r0, r1, s0, s1 = a, b, 1, 0, 0, 1
    while a1 != 0:
        q = int(a0 / a1) if abs(a0) < 2 ** 50 else a0 // a1
        a0, a1 = a1, a0 - q * a1
        r0, r1 = r1, r0 - q * r1
        s0, s1 = s1, s0 - q * s1
    return (a0, r0, s0, r1, s1)


class MatEval:
    """evaluates origin terms over a concrete small integer matrix: mat[X][Y] lookups (Index / IndexMut forms), checked arithmetic, abs, and the
    components of gcdx(E, F) (through the reference Euclid above; the crate's gcdx is tied to it by T7-euclid-contract)"""

    def __init__(self, mat_term, mx, env):
        self.mat, self.mx, self.env = mat_term, mx, env

    def cell(self, t):
        a = as_index(t)
        if a:
            inner = as_index(a[0])
            if inner and strip(inner[0]) == self.mat:
                r, c = self.ev(inner[1]), self.ev(a[1])
                if r is None or c is None:
                    return None
                return (r, c)
        if is_call(t, "IndexMut::index_mut") or is_call(t, "Index::index"):
            inner = strip(t[2][0])
            if (is_call(inner, "IndexMut::index_mut") or is_call(inner, "Index::index")) and strip(inner[2][0]) == self.mat:
                r, c = self.ev(inner[2][1]), self.ev(t[2][1])
                return None if r is None or c is None else (r, c)
        return None

    def ev(self, t):
        t = strip(t)
        if t in self.env:
            return self.env[t]
        if t[0] == "int":
            return t[1]
        c = self.cell(t)
        if c is not None:
            return self.mx.get(c)
        if t[0] == "field" and t[1][0] == "binop" and str(t[2]) == "0":
            return self.ev(("binop", t[1][1].replace("WithOverflow", ""), t[1][2], t[1][3]))
        if t[0] == "field" and is_call(strip(t[1]), "invariants::gcdx") and str(t[2]).isdigit():
            e, f = (self.ev(x) for x in strip(t[1])[2])
            return None if e is None or f is None else _gcdx_ref(e, f)[int(t[2])]
        if t[0] == "unop" and t[1] == "Neg":
            v = self.ev(t[2])
            return None if v is None else -v
        if t[0] == "call" and t[1].endswith("::abs") and len(t[2]) == 1:
            v = self.ev(t[2][0])
            return None if v is None else abs(v)
        if t[0] == "binop":
            a, b = self.ev(t[2]), self.ev(t[3])
            if a is None or b is None:
                return None
            op = t[1].replace("WithOverflow", "")
            if op == "Add":
                return a + b
            if op == "Sub":
                return a - b
            if op == "Mul":
                return a * b
            if op == "Div":
                return None if b == 0 else int(a / b)
            if op == "Rem":
                return None if b == 0 else a - b * int(a / b)
            if op in ("Eq", "Ne", "Lt", "Le", "Gt", "Ge"):
                return int({"Eq": a == b, "Ne": a != b, "Lt": a < b, "Le": a <= b, "Gt": a > b, "Ge": a >= b}[op])
            if op == "BitAnd":
                return a & b
            if op == "BitOr":
                return a | b
        t2 = fold_std_ops(t)
        if t2 != t:
            return self.ev(t2)
        return None

    def atom(self, a):
        if a[0] == "rel":
            x, y = self.ev(a[2]), self.ev(a[3])
            if x is None or y is None:
                return None
            return {"Eq": x == y, "Ne": x != y, "Lt": x < y, "Le": x <= y, "Gt": x > y, "Ge": x >= y}.get(a[1])
        if a[0] == "bool":
            v = self.ev(a[1])
            return None if v is None else (bool(v) == a[2])
        return None


def elimination_algebra(ctx, g):
    """the row / column steps of the Smith elimination, decided by EVALUATING their store expressions on small integer matrices (nothing is run):
    whichever branch the guards select for a pivot e = mat[i][i] and an entry f below / right of it, the two lines involved are replaced by an
    integer combination with determinant +-1 (read off two unit probe columns), the entry f becomes 0, and a third column follows the same
    combination.  Hence each step preserves the lattice and clears one entry - independent of how the combination is written"""
    import random
    ctx.clauses.append("elimination steps: for every sampled (pivot, entry) the selected branch applies a unimodular integer combination of the two lines that clears the entry (T7, store expressions evaluated)")
    for fn, rows in (("clear_later_rows_in_place", True), ("clear_later_cols_in_place", False)):
        b = ctx.body(M + fn)
        ctx.scan([b])
        mat, i_ = ("param", 1, b.debug.get(1, "")), ("param", 2, b.debug.get(2, ""))
        stores = []
        for bi, si, s in b.assigns():
            if [e["k"] for e in s["place"]["p"]] == ["deref"]:
                tgt = strip(norm(b.local_origin(s["place"]["l"]), g))
                stores.append((bi, tgt, strip(norm(b.rv_origin(s["rv"]), g))))
        # path conditions (both outcomes of every test on the way, so `else if` branches carry the negation of the first test)
        stores = [(bi, tgt, val, [[atom_norm(a, g) for a in ats if not is_ovf_atom(a) and a[0] in ("rel", "bool")] for tg_, ats in paths_to(b, 0, {bi}, g=g, limit=400)]) for bi, tgt, val in stores]
        # the loop variables: outer = the line being cleared (row resp. column), inner = the position along the lines
        iters = {}
        for bi, tgt, val, fa in stores:
            for y in subterms(tgt):
                if isinstance(y, tuple) and y and y[0] == "field" and y[2] == "0" and strip(y[1])[0] == "variant" and is_call(strip(strip(y[1])[1]), "Iterator::next"):
                    r = loop_range_of_payload(b, y, g)
                    if r is not None:
                        iters[y] = r
        bad = None
        outer = [y for y, r in iters.items() if unov_deep(strip(expand_single_defs(b, r[0], g))) == ("binop", "Add", i_, ("int", 1))]
        inner = [y for y in iters if y not in outer]
        if len(outer) != 1 or not inner or not stores:
            bad = "the step is not a loop over the lines after i with inner loops along the lines"
        n = 0
        rnd = random.Random(17)
        I, L = 1, 3          # pivot index and the line being cleared
        for _ in range(0 if bad else 60):
            e, f = rnd.choice([(4, 6), (6, 4), (3, 7), (5, 0), (2, 8), (-4, 6), (4, -6), (0, 5), (7, 7), (1, 9), (-3, -9), (6, 9)])
            mx = {(r, c): rnd.randint(-5, 5) for r in range(6) for c in range(6)}
            P1, P2, P3 = 2, 4, 5   # probe positions along the lines (beyond the pivot)
            if rows:
                mx[(I, I)], mx[(L, I)] = e, f
                mx[(I, P1)], mx[(L, P1)] = 1, 0
                mx[(I, P2)], mx[(L, P2)] = 0, 1
                cell = lambda line, pos: (line, pos)
            else:
                mx[(I, I)], mx[(I, L)] = e, f
                mx[(P1, I)], mx[(P1, L)] = 1, 0
                mx[(P2, I)], mx[(P2, L)] = 0, 1
                cell = lambda line, pos: (pos, line)
            new = dict(mx)
            applied = 0
            for pos in (I, P1, P2, P3):
                for bi, tgt, val, fa in stores:
                    env = {i_: I, outer[0]: L}
                    for y in inner:
                        env[y] = pos
                    ev = MatEval(mat, mx, env)
                    taken = False
                    for path in fa:
                        ok_path = True
                        for a in path:              # in program order: a later test is only evaluated if the earlier ones held
                            c = ev.atom(a)
                            if c is None:
                                bad = bad or "a branch condition of the step cannot be evaluated: %s" % show_atom(a)[:60]
                                ok_path = False
                                break
                            if not c:
                                ok_path = False
                                break
                        taken = taken or ok_path
                    if not taken:
                        continue
                    where = ev.cell(tgt)
                    v = ev.ev(val)
                    if where is None or v is None:
                        bad = bad or "a store of the step cannot be evaluated: %s" % show(val, 1)[:60]
                        continue
                    new[where] = v
                    applied += 1
            if bad:
                break
            n += 1
            u = ((new[cell(I, P1)], new[cell(I, P2)]), (new[cell(L, P1)], new[cell(L, P2)]))
            det = u[0][0] * u[1][1] - u[0][1] * u[1][0]
            what = "pivot %d, entry %d" % (e, f)
            if f == 0:
                if new != mx:
                    bad = "with %s (nothing to clear) the matrix is changed" % what
            elif new[cell(L, I)] != 0:
                bad = "with %s the entry is not cleared: it becomes %d" % (what, new[cell(L, I)])
            elif abs(det) != 1:
                bad = "with %s the two lines are combined with determinant %d (not +-1): the lattice changes" % (what, det)
            else:
                for pos in (I, P3):
                    vi, vl = mx[cell(I, pos)], mx[cell(L, pos)]
                    if new[cell(I, pos)] != u[0][0] * vi + u[0][1] * vl or new[cell(L, pos)] != u[1][0] * vi + u[1][1] * vl:
                        bad = "with %s position %d of the two lines does not follow the same integer combination as the probe positions" % (what, pos)
            if bad:
                break
        ctx.ob("T7-elimination-algebra", b.name, "unimodular, clears the entry", "ok" if not bad and n else "violation",
               "on %d sampled matrices the selected branch is a determinant +-1 combination of the two lines that clears the entry" % n if not bad and n else (bad or "nothing evaluated"))


def pivot_rules(ctx, g):
    """pivot search and pivot move.  find_pivot: scanning mat[r][c], the running answer (row, col, min) is replaced by (r, c, |mat[r][c]|) exactly for
    a non-zero entry smaller than the minimum so far (guard evaluated on value pairs; ties are free), starting from min = isize::MAX, and (row, col)
    is returned in this order.  move_pivot_in_place(mat, target, (row, col)): rows `row` and `target` are exchanged entry by entry whenever they
    differ, then columns `col` and `target`.  diagonalize_in_place hands the pair of find_pivot on unchanged and tests mat[row][col] != 0"""
    ctx.clauses.append("find_pivot keeps (r, c, |entry|) exactly for smaller non-zero entries and returns (row, col); move_pivot swaps row<->target then col<->target whenever they differ; diagonalize passes the pair on in order (T9, guards evaluated)")
    fp = ctx.body(M + "find_pivot")
    ctx.scan([fp])
    mat = ("param", 1, fp.debug.get(1, ""))
    ret = strip(norm(fp.local_origin(0), g))
    bad = None
    if not (ret[0] == "agg" and len(ret[2]) == 2 and all(strip(x)[0] == "local" for x in ret[2])):
        bad = "the result is not a pair of the running answer"
    else:
        rowl, coll = strip(ret[2][0]), strip(ret[2][1])
        loops = natural_loops(fp)
        lb = set()
        for h_, bl_ in loops:
            lb |= set(bl_)
        ind = lambda l: [(dbb, strip(norm(d, g))) for dbb, d in fp.all_defs_origins(l[1]) if dbb in lb]
        rd, cd = ind(rowl), ind(coll)
        if len(rd) != 1 or len(cd) != 1 or rd[0][0] != cd[0][0]:
            bad = "row and col are not replaced together"
        else:
            ub = rd[0][0]
            R, C = rd[0][1], cd[0][1]
            ent = ("call", "core::num::<impl isize>::abs", (("call", "std::ops::Index::index", (("call", "std::ops::Index::index", (mat, R)), C)),))
            mins = [l for l, nm in fp.debug.items() if fp.local_ty(l) == "isize" and len(fp.all_defs_origins(l)) == 2 and any(dbb == ub for dbb, _ in fp.all_defs_origins(l))]
            okmin = False
            minl = None
            for l in mins:
                ds = [(dbb, strip(norm(d, g))) for dbb, d in fp.all_defs_origins(l)]
                upd = [d for dbb, d in ds if dbb == ub]
                ini = [d for dbb, d in ds if dbb != ub]
                if upd and (upd[0] == ent or (is_call(upd[0], "::abs") and as_index(strip(upd[0][2][0])) and strip(as_index(strip(upd[0][2][0]))[1]) == C)):
                    okmin = bool(ini) and (is_call(ini[0], "max_value") or ini[0][0] in ("constdef", "int") and (eval_int(ini[0]) or 0) >= 2 ** 62 or contains(ini[0], lambda y: isinstance(y, tuple) and "MAX" in str(y)))
                    minl = ("local", l, fp.debug.get(l, ""))
            rR, rC = loop_range_of_payload(fp, R, g), loop_range_of_payload(fp, C, g)
            if minl is None or not okmin:
                bad = "the minimum so far is not |mat[r][c]| of the entry taken, starting from isize::MAX"
            elif not (rR and rC and is_call(strip(expand_single_defs(fp, rR[1], g)), "::len") and strip(expand_single_defs(fp, rR[1], g))[2][0] == mat):
                bad = "the row of the answer is not the loop variable that runs over the rows of mat"
            else:
                # the guard of the update, on (entry, minimum so far)
                v_t = None
                paths = [[atom_norm(a, g) for a in ats if not is_ovf_atom(a) and a[0] in ("rel", "bool")] for tg_, ats in paths_to(fp, 0, {ub}, g=g, limit=200)]
                table = {}
                for v, mn in ((0, 5), (3, 5), (7, 5), (5, 5), (1, 2 ** 63 - 1)):
                    taken = False
                    for path in paths:
                        okp = True
                        for a in path:
                            env = {minl: mn}
                            for y in subterms(("agg", "x", tuple(x for x in a[1:] if isinstance(x, tuple)))):
                                if isinstance(y, tuple) and y and y[0] == "call" and y[1].endswith("::abs"):
                                    env[y] = v
                                elif isinstance(y, tuple) and y and y[0] == "local" and y != minl and fp.local_ty(y[1]) == "isize":
                                    env[y] = v
                            c = eval_atom_env(a, env)
                            if c is None:
                                continue          # loop conditions (ranges) are not functions of the entry
                            if not c:
                                okp = False
                                break
                        taken = taken or okp
                    table[(v, mn)] = taken
                want = {(0, 5): False, (3, 5): True, (7, 5): False, (1, 2 ** 63 - 1): True}
                wrong = [k for k, w in want.items() if table.get(k) != w]
                if wrong:
                    bad = "the answer is replaced for (entry, minimum so far) = %s and kept for %s; it must be replaced exactly for non-zero entries below the minimum" % (
                        [k for k, t_ in table.items() if t_], [k for k, t_ in table.items() if not t_])
    ctx.ob("T9-pivot", fp.name, "(row, col, min) <- (r, c, |mat[r][c]|) iff 0 < |entry| < min", "ok" if not bad else "violation",
           "smallest non-zero entry of the trailing block (guard evaluated on 5 value pairs), returned as (row, col)" if not bad else bad)
    mp = ctx.body(M + "move_pivot_in_place")
    ctx.scan([mp])
    mat, tg = ("param", 1, mp.debug.get(1, "")), ("param", 2, mp.debug.get(2, ""))
    p0, p1 = ("field", ("param", 3, mp.debug.get(3, "")), "0"), ("field", ("param", 3, mp.debug.get(3, "")), "1")
    stores = []
    for bi, si, s in mp.assigns():
        if [e["k"] for e in s["place"]["p"]] == ["deref"]:
            tgt = strip(norm(mp.local_origin(s["place"]["l"]), g))
            stores.append((bi, tgt, strip(norm(mp.rv_origin(s["rv"]), g))))

    def cell(t):
        for nm in ("IndexMut::index_mut", "Index::index"):
            if is_call(t, nm):
                inner = strip(t[2][0])
                if (is_call(inner, "IndexMut::index_mut") or is_call(inner, "Index::index")) and strip(inner[2][0]) == mat:
                    return strip(inner[2][1]), strip(t[2][1])
        return None
    bad = None
    sw = [(bi, cell(t_), cell(v_)) for bi, t_, v_ in stores]
    if len(sw) != 4 or any(x[1] is None or x[2] is None for x in sw):
        bad = "not four entry stores of the form mat[..][..] = mat[..][..]"
    else:
        pairs = {(x[1], x[2]) for x in sw}
        rows = [x for x in sw if x[1][0] in (p0, tg) and x[2][0] in (p0, tg) and x[1][1] == x[2][1]]
        cols = [x for x in sw if x[1][1] in (p1, tg) and x[2][1] in (p1, tg) and x[1][0] == x[2][0]]
        okr = len(rows) == 2 and {(x[1][0], x[2][0]) for x in rows} == {(p0, tg), (tg, p0)}
        okc = len(cols) == 2 and {(x[1][1], x[2][1]) for x in cols} == {(p1, tg), (tg, p1)}
        if not okr:
            bad = "rows `row` (first component of the pair) and `target` are not exchanged entry by entry"
        elif not okc:
            bad = "columns `col` (second component of the pair) and `target` are not exchanged entry by entry"
        else:
            for grp, comp, what in ((rows, p0, "row"), (cols, p1, "col")):
                for bi, _, _ in grp:
                    ok_reach = False
                    for tg_, ats in paths_to(mp, 0, {bi}, g=g, limit=100):
                        vals = [eval_atom_env(atom_norm(a, g), {comp: 2, tg: 5}) for a in ats if not is_ovf_atom(a) and a[0] in ("rel", "bool")]
                        if all(v is None or v for v in vals):
                            ok_reach = True
                    if not ok_reach:
                        bad = bad or "the %s exchange is not reached when %s = 2 differs from target = 5" % (what, what)
            if not bad and not all(rb in mp.bwd(cb) or mp.dominates(rb, cb) for rb, _, _ in rows for cb, _, _ in cols):
                pass
    ctx.ob("T9-pivot", mp.name, "swap rows, swap columns", "ok" if not bad else "violation", "mat[row][c] <-> mat[target][c] for the rows, mat[r][col] <-> mat[r][target] for the columns, whenever they differ" if not bad else bad)
    db = ctx.body(M + "diagonalize_in_place")
    ctx.scan([db])
    mat = ("param", 1, db.debug.get(1, ""))
    bad = None
    fpc = [(bi, [strip(norm(db.origin(x), g)) for x in t["args"]]) for bi, t in db.calls(exact=M + "find_pivot")]
    mvc = [(bi, [strip(norm(db.origin(x), g)) for x in t["args"]]) for bi, t in db.calls(exact=M + "move_pivot_in_place")]
    if len(fpc) != 1 or len(mvc) != 1:
        bad = "not one find_pivot and one move_pivot_in_place per step"
    else:
        step = fpc[0][1][1]
        res = ("call", M + "find_pivot", (mat, step))
        r0, r1 = ("field", res, "0"), ("field", res, "1")
        pr = mvc[0][1][2]
        okp = pr == res or (pr[0] == "agg" and [strip(x) for x in pr[2]] == [r0, r1])
        fa = [atom_norm(a, g) for a in db.facts_at(mvc[0][0])]
        okg = any(a[0] == "rel" and a[1] == "Ne" and eval_int(a[3]) == 0 and cell_of(a[2], mat) == (r0, r1) for a in fa)
        if mvc[0][1][1] != step:
            bad = "the pivot is not moved to the position of the current step"
        elif not okp:
            bad = "move_pivot_in_place does not get the (row, col) pair of find_pivot in its order: %s" % show(pr, 1)[:60]
        elif not okg:
            bad = "the step is not guarded by mat[row][col] != 0 for the (row, col) of find_pivot"
    ctx.ob("T9-pivot", db.name, "find -> test -> move", "ok" if not bad else "violation", "(row, col) = find_pivot(mat, i); if mat[row][col] != 0 move_pivot_in_place(mat, i, (row, col))" if not bad else bad)


def cell_of(t, mat):
    t = strip(t)
    for nm in ("IndexMut::index_mut", "Index::index"):
        if is_call(t, nm):
            inner = strip(t[2][0])
            if (is_call(inner, "IndexMut::index_mut") or is_call(inner, "Index::index")) and strip(inner[2][0]) == mat:
                return strip(inner[2][1]), strip(t[2][1])
    a = as_index(t)
    if a and as_index(a[0]) and strip(as_index(a[0])[0]) == mat:
        return strip(as_index(a[0])[1]), strip(a[1])
    return None


def last_pass_decides(ctx, g):
    """diagonalize_in_place alternates a row pass and a column pass on the pivot until a pass needed no gcd step; the pass whose count ends
    the loop must be the LAST one applied to the matrix - a later pass can re-fill the line the tested pass had cleared, and the loop
    would end on a matrix whose pivot row/column is not clear (the diagonal is then not the Smith form)"""
    ctx.clauses.append("the elimination loop ends on the count of the last pass applied (no later pass touches the matrix before the exit) (T3)")
    b = ctx.body(M + "diagonalize_in_place")
    mat = ("param", 1, b.debug.get(1, ""))
    passes = {bi: t for bi, t in b.calls() if t["callee"].get("def", "").startswith(M + "clear_later_")}
    ctx.floor("elimination passes in diagonalize_in_place", len(passes), 2)
    n = 0
    for h, blocks in natural_loops(b):
        if not any(pb in blocks for pb in passes):
            continue
        inner = [hh for hh, bl in natural_loops(b) if hh != h and hh in blocks and any(pb in bl for pb in passes)]
        if inner:
            continue        # the outer (pivot) loop
        for (a, s_), atoms in loop_exit_atoms(b, h, blocks, g):
            tested = None
            for at in atoms:
                if at[0] == "rel" and at[1] == "Eq" and at[3] == ("int", 0) and at[2][0] == "call" and "::clear_later_" in at[2][1]:
                    tested = at[2]
            if tested is None:
                ctx.ob("T3-last-pass-decides", b.name, "exit", "violation", "the elimination loop is left on %s, not on `a pass needed no gcd step`" % [show_atom(x)[:50] for x in atoms], b.span_of(a))
                continue
            n += 1
            # the block of the tested call: the pass whose callee and args match
            tb = [pb for pb, t in passes.items() if t["callee"]["def"] == tested[1]]
            later = []
            for pb in tb[:1]:
                region = b.fwd(pb) & b.bwd(a) | {a}
                later = [qb for qb in passes if qb != pb and qb in region and b.dominates(pb, qb)]
            ok = bool(tb) and not later
            ctx.ob("T3-last-pass-decides", b.name, "exit<-count of the last pass == 0", "ok" if ok else "violation",
                   "the loop ends when %s, the last pass before the exit, reports no gcd step" % tested[1].split("::")[-1] if ok else
                   "the loop ends on the count of %s although %s runs after it: that pass can re-fill the line just cleared, the pivot's row/column is not clear at the exit" % (
                       tested[1].split("::")[-1], [passes[q]["callee"]["def"].split("::")[-1] for q in later]), b.span_of(a))
    ctx.floor("count-controlled exits of the elimination loop", n, 1)


def divisor_chain(ctx, g, ai):
    """the diagonal entries are turned into a divisor chain: for every pair i < j below the rank bound, unless factors[i] already divides
    factors[j] (or is 0), the pair is replaced by (gcd, lcm).  The guard of that fix-up is decided by evaluating it on a grid of small
    integer pairs: it must be true for EVERY pair (a, b) with a != 0 and b % a != 0."""
    import math
    ctx.clauses.append("invariant factors form a divisor chain: every non-dividing pair i < j is replaced by (gcd, lcm) (T3/T4)")
    nr = ("param", 1, ai.debug.get(1, ""))
    sites = list(ai.calls(exact=M + "gcdx"))
    ctx.floor("gcdx calls in abelian_invariants", len(sites), 1)
    for bi, t in sites:
        A, B = [norm(ai.origin(x), g) for x in t["args"]]
        okix = all(x[0] == "call" and x[1].endswith("Index::index") and x[2][0][0] == "local" for x in (A, B)) and A[2][0] == B[2][0]
        if not okix:
            ctx.ob("T4-divisor-chain", ai.name, "gcdx(factors[i], factors[j])", "violation", "the gcd is not taken of two entries of one vector: %s, %s" % (show(A, 1)[:40], show(B, 1)[:40]), ai.span_of(bi))
            continue
        fac, i_, j_ = A[2][0], A[2][1], B[2][1]
        ri, rj = loop_range_of_payload(ai, i_, g), loop_range_of_payload(ai, j_, g)
        def isn(x):
            return x is not None and x[0] == "call" and x[1].endswith("Ord::min") and nr in x[2] and any(is_call(y, "::len") for y in x[2])
        okr = ri is not None and rj is not None and ri[0] == ("int", 0) and not ri[2] and not rj[2] and isn(ri[1]) and rj[1] == ri[1] and \
            unov1(rj[0]) == ("binop", "Add", i_, ("int", 1))
        ctx.ob("T4-divisor-chain", ai.name, "pairs", "ok" if okr else "violation",
               "all pairs i in 0..n, j in i+1..n with n = min(rows, nr_gens)" if okr else
               "the fix-up does not run over all pairs i in 0..n, j in i+1..n: i in %s, j in %s" % (ri and (show(ri[0], 1), show(ri[1], 1)[:40]), rj and (show(rj[0], 1)[:40], show(rj[1], 1)[:40])), ai.span_of(bi))
        fa = [atom_norm(x, g) for x in ai.facts_at(bi)]
        rel = [x for x in fa if any(isinstance(y, tuple) and contains(y, lambda s_: s_ in (A, B)) for y in x[1:])]
        bad = None
        for a in range(-12, 13):
            for b in range(-12, 13):
                if a == 0 or b % a == 0 or bad:
                    continue
                for x in rel:
                    v = eval_atom_env(x, {A: a, B: b})
                    if v is None and not contains_ovf_flag(x):
                        bad = "the guard %s of the gcd/lcm fix-up is not understood" % show_atom(x)[:70]
                    elif v is False:
                        bad = "for factors[i] = %d, factors[j] = %d (%d does not divide %d) the guard %s skips the gcd/lcm fix-up: the result is not a divisor chain" % (a, b, a, b, show_atom(x)[:60])
        ctx.ob("T3-divisor-chain-guard", ai.name, "gcdx<-(a != 0 && b % a != 0)", "ok" if not bad else "violation",
               "the fix-up runs for every pair with a != 0 that is not already a divisor pair (guard evaluated on 600 integer pairs)" if not bad else bad, ai.span_of(bi))
        # a diagonal entry can be 0 (free factor): `b % a` is only evaluated under a != 0 (`a != 0 || b % a != 0` compiles and panics on the first free factor)
        badr = None
        nrem = 0
        # the MIR carries its own `divisor != 0` assertion in front of every % and /: the facts are taken at THAT assertion, so they are the program's guards
        for b2, blk in ai.live_blocks():
            t2 = blk["term"]
            if t2["k"] != "assert" or t2["msg"]["k"] not in ("DivisionByZero", "RemainderByZero"):
                continue
            cond = strip(norm(ai.origin(t2["cond"]), g))
            if not (contains(cond, lambda y: y == A) and contains(cond, lambda y: y == ("int", 0))):
                continue
            nrem += 1
            if not any(x[0] == "rel" and implies(x, ("rel", "Ne", A, ("int", 0))) for x in (atom_norm(y, g) for y in ai.facts_at(b2))):
                badr = "factors[i] is used as a divisor without a dominating factors[i] != 0: abelian_invariants panics as soon as a diagonal entry is 0 (a free factor)"
        ctx.ob("T3-divisor-chain-guard", ai.name, "b % a <- a != 0", "ok" if nrem and not badr else "violation",
               "every division by factors[i] is dominated by factors[i] != 0" if nrem and not badr else (badr or "no division by factors[i] found"), ai.span_of(bi))
        # the replacement values
        G = ("field", ("call", M + "gcdx", (A, B)), "0")
        st = {}
        for b2, blk in ai.live_blocks():
            for si, s_ in enumerate(blk["stmts"]):
                if s_["k"] == "assign" and any(e["k"] == "deref" for e in s_["place"]["p"]):
                    base = norm(ai.local_origin(s_["place"]["l"]), g)
                    if base[0] == "call" and base[1].endswith("IndexMut::index_mut") and base[2][0] == fac and ai.dominates(bi, b2):
                        st[base[2][1]] = norm(ai.rv_origin(s_["rv"]), g)
        okg = st.get(i_) == G
        okl = j_ in st
        if okl:
            for a, b in ((4, 6), (6, 4), (-4, 6), (6, 9), (10, 15), (3, 5), (12, 8)):
                for sg in (1, -1):
                    gg = sg * math.gcd(a, b)
                    v = eval_term_env(st[j_], {A: a, B: b, G: gg})
                    if v is None or abs(v) != abs(a * b) // abs(gg):
                        okl = False
        ctx.ob("T4-divisor-chain", ai.name, "factors[i] = gcd", "ok" if okg else "violation",
               "factors[i] becomes the gcd" if okg else "factors[i] is not set to gcdx(a, b).0: %s" % (show(st[i_], 1)[:60] if i_ in st else "no store"), ai.span_of(bi))
        ctx.ob("T4-divisor-chain", ai.name, "factors[j] = lcm", "ok" if okl else "violation",
               "factors[j] becomes a / g * b (the lcm; evaluated on 14 sample pairs)" if okl else "factors[j] is not set to the lcm a / g * b: %s" % (show(st[j_], 1)[:80] if j_ in st else "no store"), ai.span_of(bi))


def unov1(t):
    return ("binop", t[1][1].replace("WithOverflow", ""), t[1][2], t[1][3]) if t[0] == "field" and str(t[2]) == "0" and t[1][0] == "binop" else t


def contains_ovf_flag(atom):
    return any(isinstance(y, tuple) and contains(y, lambda s_: s_[0] == "field" and str(s_[2]) == "1" and s_[1][0] == "binop" and s_[1][1].endswith("WithOverflow")) for y in atom[1:])


def _leaves(t, acc=None):
    if acc is None:
        acc = []
    if not isinstance(t, tuple) or not t:
        return acc
    k = t[0]
    if k == "binop":
        _leaves(t[2], acc); _leaves(t[3], acc)
    elif k == "unop":
        _leaves(t[2], acc)
    elif k == "cast":
        _leaves(t[1], acc)
    elif k == "field" and t[1][0] == "binop":
        _leaves(t[1], acc)
    else:
        acc.append(t)
    return acc
