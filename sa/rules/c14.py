"""C14 - abelian invariants: factor through exponent sums, ascending output, drop 1s, pad zeros (DESIGN 4/C14)."""
from ..core import *
from ..templates import *

M = "fpgroups::invariants::"
ALLOWED_IN_VECTOR = ("num_traits::Zero::zero", "num_traits::One::one", "std::vec::from_elem", "fpgroups::free_words::FreeWord::iter", "std::iter::IntoIterator::into_iter",
                     "std::iter::Iterator::next", "std::ops::IndexMut::index_mut", "std::ops::SubAssign::sub_assign", "std::ops::AddAssign::add_assign",
                     "std::ops::Index::index", "std::clone::Clone::clone", "std::ops::Deref::deref", "std::ops::DerefMut::deref_mut")

EXPLANATION = (
    "Decided: (1) the result is unchanged by rotating or conjugating relators and by free reduction: abelian_invariants consumes each relator "
    "only through relator_as_vector(nr_gens, w) (the matrix is map(relator_as_vector) over the relators, nothing else reads them), and in "
    "relator_as_vector a letter g is used only in the sign test g < 0 and as the index |g| - 1 of an order-independent `+= one()` / `-= one()` "
    "(the -= on the g < 0 edge with index -g - 1, the += on the other with index g - 1); the body calls nothing that could observe positions or "
    "lengths. The result therefore factors through the exponent-sum vector. (2) the list is ascending: on the non-trivial path the returned "
    "vector is the receiver of sort() and is not touched afterwards; the two early returns are constant-filled (empty / nr_gens zeros, under "
    "nr_gens == 0 resp. no relators). (3) factors equal to 1 are dropped and one 0 is appended per free generator: the collected chain is "
    "filter(x != 1) over the diagonal factors chained with repeat(0).take(nr_gens - n), n = min(rows, nr_gens). Also decided (rounds 3-5): gcdx "
    "satisfies the extended-Euclid contract for every input (loop invariant checked by induction on sampled states), the divisor-chain fix-up "
    "runs for every pair i < j whenever factors[i] does not divide factors[j] (guard evaluated on an integer grid) and stores (gcd, lcm), the "
    "pivot search and the row/column passes cover the whole trailing block, no pass works with a stale pivot, the elimination loop ends on the "
    "count of the last pass applied. NOT decided: that these steps together yield the Smith normal form for every matrix (termination and the "
    "global argument), overflow of machine integers, invariance under reordering/inverting relators, renaming generators, adding products as "
    "such.")
TRUSTED = ["rustc MIR lowering", "std sort sorts ascending"]
ASSUMPTIONS = ["letters lie in 1..=nr_gens in absolute value (otherwise indexing panics: out of scope here)"]


def run(ctx):
    g = ctx.facts.getters()
    ai = ctx.body(M + "abelian_invariants")
    rv = ctx.body(M + "relator_as_vector")
    ctx.scan(ctx.facts.with_closures(ai.name) + [rv])
    ctx.clauses += ["invariant under rotating/conjugating relators: factors through exponent sums (T6b)", "the list is ascending (T9)", "1s dropped, zeros padded (T2)"]
    rels = ("param", 2, ai.debug.get(2, ""))
    nr = ("param", 1, ai.debug.get(1, ""))
    # (1a) the relators flow only into map(relator_as_vector)
    uses = []
    for bi, t in ai.calls():
        for a in t["args"]:
            o = norm(ai.origin(a), g)
            if o == rels:
                uses.append((bi, t["callee"].get("def", "")))
    only_iter = all(n.endswith("IntoIterator::into_iter") for bi, n in uses) and len(uses) == 1
    ctx.require(only_iter, "T6-factor-through", ai.name, "rels:uses", "the relator list is only turned into an iterator", "the relators are also consumed by: %s" % [n for bi, n in uses])
    okmap = False
    for bi, t in ai.calls("Iterator::map"):
        src = norm(ai.origin(t["args"][0]), g)
        if src == ("call", "std::iter::IntoIterator::into_iter", (rels,)):
            calls = closure_calls(ctx.facts, ai.origin(t["args"][1]), g)
            okmap = len(calls) == 1 and calls[0][0] == M + "relator_as_vector" and calls[0][2][0] == nr and calls[0][2][1][0] == "param"
            res = closure_result(ctx.facts, ai.origin(t["args"][1]), g)
            okmap = okmap and res is not None and res[0] == "call" and res[1] == M + "relator_as_vector"
    ctx.ob("T6-factor-through", ai.name, "map(relator_as_vector)", "ok" if okmap else "violation",
           "each relator is consumed only by relator_as_vector(nr_gens, w)" if okmap else
           "the matrix rows are not exactly relator_as_vector(nr_gens, w) of each relator: the result may depend on more than exponent sums")
    # (1b) relator_as_vector
    bad_calls = sorted({t["callee"].get("def", "") for bi, t in rv.calls() if t["callee"].get("def", "") not in ALLOWED_IN_VECTOR})
    ctx.ob("T6-letter-use", rv.name, "callees", "ok" if not bad_calls else "violation",
           "only iteration, indexing and += / -= of one()" if not bad_calls else "relator_as_vector also calls %s: the row may depend on positions/length, not only on exponent sums" % bad_calls)
    adds = list(rv.calls("ops::AddAssign::add_assign"))
    subs = list(rv.calls("ops::SubAssign::sub_assign"))
    ctx.floor("+=/-= sites in relator_as_vector", len(adds) + len(subs), 2)
    def letter_of(idx):
        ls = [l for l in _leaves(idx) if l[0] != "int"]
        return ls
    for kind, sites in (("add", adds), ("sub", subs)):
        for bi, t in sites:
            tgt = norm(rv.origin(t["args"][0]), g)
            val = norm(rv.origin(t["args"][1]), g)
            okv = val == ("call", "num_traits::One::one", ())
            okt = tgt[0] == "call" and tgt[1].endswith("IndexMut::index_mut")
            idx = tgt[2][1] if okt else None
            ls = letter_of(idx) if idx is not None else []
            oki = okt and len(set(ls)) == 1 and iter_source(rv, ls[0], g) is not None
            letter = ls[0] if oki else None
            fa = [atom_norm(a, g) for a in rv.facts_at(bi)]
            if kind == "sub":
                sign = letter is not None and any(implies(h, ("rel", "Lt", letter, ("int", 0))) for h in fa)
                shape = letter is not None and idx == ("field", ("binop", "SubWithOverflow", ("unop", "Neg", letter), ("int", 1)), "0")
            else:
                sign = letter is not None and any(implies(h, ("rel", "Le", ("int", 0), letter)) for h in fa)
                shape = letter is not None and idx == ("field", ("binop", "SubWithOverflow", letter, ("int", 1)), "0")
            ok = okv and oki and sign and shape
            ctx.ob("T6-letter-use", rv.name, "%s_assign(row[|g|-1], one())" % kind, "ok" if ok else "violation",
                   "row[%s] %s= one() under %s" % ("-g-1" if kind == "sub" else "g-1", "-" if kind == "sub" else "+", "g < 0" if kind == "sub" else "g >= 0") if ok else
                   "the %s-update does not have the form row[|g|-1] %s= one() under the matching sign test (value one(): %s, index from the letter only: %s, sign guard: %s, index shape: %s)" % (kind, "-" if kind == "sub" else "+", okv, oki, sign, shape), rv.span_of(bi))
    r = ret_origin(rv, g)
    ctx.require(r[0] == "local", "T6-letter-use", rv.name, "return row", "returns the accumulated row", "relator_as_vector returns " + show(r, 1)[:50])

    # (1c) elimination routines never work with a stale pivot / element snapshot
    elim = [ctx.facts.bodies[d] for d in sorted(ctx.facts.bodies) if d.startswith(M) and "{closure" not in d]
    ctx.scan(elim)
    k = no_stale_elements(ctx, "T3-no-stale-element", elim, g)
    ctx.floor("elimination routines scanned for stale element reads", k, 6)
    # (1d) sibling cross-check: row clearing and column clearing are transposes of each other
    siblings_agree(ctx, "T4-siblings-agree", M + "clear_later_rows_in_place", M + "clear_later_cols_in_place", "row step ~ column step", compare_fields=True)
    divisor_chain(ctx, g, ai)
    elimination_ranges(ctx, g)
    last_pass_decides(ctx, g)
    ctx.clauses.append("gcdx is extended Euclid: r*A + s*B = +-gcd, t*A + u*B = 0, r*u - s*t = +-1 for every input (loop invariant decided on sampled states)")
    gx = ctx.body(M + "gcdx")
    ctx.scan([gx])
    euclid_contract(ctx, "T7-euclid-contract", gx, g)
    # (2) ascending
    sorts = [(bi, t) for bi, t in ai.calls("slice::<impl [T]>::sort")]
    rets_assign = [(bi, si, norm(ai.rv_origin(s["rv"]), g)) for bi, si, s in ai.assigns() if s["place"]["l"] == 0 and not s["place"]["p"]]
    rets_call = [(bi, t) for bi, t in ai.calls() if t["dest"]["l"] == 0 and not t["dest"]["p"]]
    ctx.floor("return sites of abelian_invariants", len(rets_assign) + len(rets_call), 3)
    for bi, si, v in rets_assign:
        ok = False
        if v[0] == "local":
            for sb, st in sorts:
                recv = norm(ai.origin(st["args"][0]), g)
                if contains(recv, lambda s: s == v) and ai.dominates(sb, bi):
                    region = ai.fwd(ai.succ()[sb][0] if ai.succ().get(sb) else sb) & ai.bwd(bi)
                    if not ai.mutations_in(region, v[1], bi):
                        ok = True
        ctx.ob("T9-sorted-on-return", ai.name, "return result", "ok" if ok else "violation",
               "the returned vector is the receiver of sort() and is not changed afterwards" if ok else
               "the vector returned on the main path is not (still) sorted: no dominating sort() on it, or it is modified after sorting", ai.span_of(bi, si))
    for bi, t in rets_call:
        n = t["callee"].get("def", "")
        args = [norm(ai.origin(a), g) for a in t["args"]]
        fa = [atom_norm(a, g) for a in ai.facts_at(bi)]
        if n.endswith("Vec::<T>::new"):
            ok = any(implies(h, ("rel", "Eq", nr, ("int", 0))) for h in fa)
            ctx.ob("T9-sorted-on-return", ai.name, "return vec![]", "ok" if ok else "violation", "empty list exactly under nr_gens == 0" if ok else "an empty list is returned without nr_gens == 0")
        elif n.endswith("vec::from_elem"):
            ok = args == [("int", 0), nr] and any(a[0] == "rel" and a[1] == "Eq" and a[3] == ("int", 0) and a[2][0] == "call" and a[2][1].endswith("::len") for a in fa)
            ctx.ob("T9-sorted-on-return", ai.name, "return vec![0; nr_gens]", "ok" if ok else "violation",
                   "nr_gens zeros exactly when there are no relators" if ok else "the constant early return is not vec![0; nr_gens] under mat.len() == 0: %s" % [show(a, 1) for a in args])
        else:
            ctx.ob("T9-sorted-on-return", ai.name, "return " + n.split("::")[-1], "undecided", "unrecognised return value")

    # (3) drop ones, pad zeros
    okf = okt = False
    for bi, t in ai.calls("Iterator::filter"):
        res = closure_result(ctx.facts, ai.origin(t["args"][1]), g)
        if res is not None and res[0] == "binop" and res[1] == "Ne" and ("int", 1) in (res[2], res[3]):
            okf = True
    for bi, t in ai.calls("Iterator::take"):
        a = [norm(ai.origin(x), g) for x in t["args"]]
        n_ = a[1]
        if a[0] == ("call", "std::iter::repeat", (("int", 0),)) and n_[0] == "field" and n_[1][0] == "binop" and n_[1][1] == "SubWithOverflow" and n_[1][2] == nr and \
                n_[1][3][0] == "call" and n_[1][3][1].endswith("Ord::min") and nr in n_[1][3][2]:
            okt = True
    chain_ok = any(True for _ in ai.calls("Iterator::chain"))
    ctx.ob("T2-drop-ones", ai.name, "filter(x != 1)", "ok" if okf else "violation", "trivial factors are dropped" if okf else "factors equal to 1 are no longer filtered out")
    ctx.ob("T2-pad-zeros", ai.name, "chain(repeat(0).take(nr_gens - n))", "ok" if okt and chain_ok else "violation",
           "one 0 per generator beyond the rank bound n = min(rows, nr_gens)" if okt and chain_ok else "the list is no longer padded with nr_gens - min(rows, nr_gens) zeros")


LOWS = {"find_pivot": {"rows": (5,), "columns": (5,)},
        "move_pivot_in_place": {"rows": (0, 5), "columns": (0, 5)},
        "clear_later_rows_in_place": {"rows": (6,), "columns": (0, 5)},
        "clear_later_cols_in_place": {"rows": (0, 5), "columns": (6,)}}
LOW_NAMES = {0: "0", 5: "i", 6: "i + 1"}


def elimination_ranges(ctx, g):
    """the pivot search and the row/column steps cover the whole trailing block: a loop whose variable indexes the rows of `mat` ends at
    mat.len(), one whose variable indexes the columns ends at mat[0].len() - not at the minimum of the two (with fewer relators than
    generators the pivot may sit in a column beyond the number of rows)"""
    ctx.clauses.append("pivot search and elimination steps range over all remaining rows and all remaining columns (T4)")
    n = 0
    n_lo = [0]
    for fn in ("find_pivot", "move_pivot_in_place", "clear_later_rows_in_place", "clear_later_cols_in_place"):
        b = ctx.body(M + fn)
        mat = ("param", 1, b.debug.get(1, ""))
        rows_t = ("call", "std::vec::Vec::<T, A>::len", (mat,))
        seen = set()
        for pat in ("Index::index", "IndexMut::index_mut"):
            for bi, t in b.calls(pat):
                a = [strip(norm(b.origin(x), g)) for x in t["args"]]
                r = loop_range_of_payload(b, a[1], g)
                if r is None:
                    continue
                base = a[0]
                is_row_index = base == mat
                is_col_index = (is_call(base, "Index::index") or is_call(base, "IndexMut::index_mut") or base[0] == "index") and contains(base, lambda y: y == mat)
                if not (is_row_index or is_col_index):
                    continue
                hi = strip(expand_single_defs(b, r[1], g))
                want_rows = hi == rows_t
                want_cols = is_call(hi, "::len") and contains(hi, lambda y: y == mat) and hi != rows_t and not contains(hi, lambda y: is_call(y, "Ord::min"))
                ok = (want_rows if is_row_index else want_cols) and not r[2]
                key = (fn, "rows" if is_row_index else "columns", show(hi, 1)[:40])
                # where the loop starts, with the step index (second parameter) set to 5: the trailing block starts at 5; the rows / columns
                # before it are already clear below / right of the diagonal, so a swap or a row step may also start at 0 - but nowhere else
                lo = eval_term_env(unov_term(fold_std_ops(strip(expand_single_defs(b, r[0], g)))), {("param", 2, b.debug.get(2, "")): 5})
                allowed = LOWS[fn]["rows" if is_row_index else "columns"]
                lkey = (fn, "rows" if is_row_index else "columns", "from", lo)
                if lkey not in seen:
                    seen.add(lkey)
                    n_lo[0] += 1
                    ctx.ob("T4-elimination-ranges", b.name, "%s from %s" % (key[1], "/".join(LOW_NAMES[a_] for a_ in allowed)), "ok" if lo in allowed else "violation",
                           "the %s loop starts at the first %s of the trailing block%s" % (key[1], key[1][:-1], " (or at 0)" if 0 in allowed else "") if lo in allowed else
                           "with the step index at 5 the loop over the %s starts at %s, not at %s: %s" % (
                               key[1], lo, " or ".join(str(a_) for a_ in allowed),
                               "part of the two lines is left unswapped, the step is no longer a row/column permutation" if fn == "move_pivot_in_place" else
                               "entries of the trailing block are skipped (or finished pivots are looked at again)"), b.span_of(bi))
                if key in seen:
                    continue
                seen.add(key)
                n += 1
                ctx.ob("T4-elimination-ranges", b.name, "%s up to %s" % (key[1], "mat.len()" if is_row_index else "mat[0].len()"), "ok" if ok else "violation",
                       "the %s loop ends at the matrix's own number of %s" % (key[1], key[1]) if ok else
                       "the loop over the %s of the matrix ends at %s instead of %s: part of the trailing block is never looked at (a pivot there is missed, torsion is reported as a free factor)" % (
                           key[1], show(hi, 1)[:50], "mat.len()" if is_row_index else "mat[0].len()"), b.span_of(bi))
    ctx.floor("row/column loops of the elimination routines", n, 8)
    ctx.floor("row/column loop starts of the elimination routines", n_lo[0], 8)


def last_pass_decides(ctx, g):
    """diagonalize_in_place alternates a row pass and a column pass on the pivot until a pass needed no gcd step; the pass whose count ends
    the loop must be the LAST one applied to the matrix - a later pass can re-fill the line the tested pass had cleared, and the loop
    would end on a matrix whose pivot row/column is not clear (the diagonal is then not the Smith form)"""
    ctx.clauses.append("the elimination loop ends on the count of the last pass applied (no later pass touches the matrix before the exit) (T3)")
    b = ctx.body(M + "diagonalize_in_place")
    mat = ("param", 1, b.debug.get(1, ""))
    passes = {bi: t for bi, t in b.calls() if t["callee"].get("def", "").startswith(M + "clear_later_")}
    ctx.floor("elimination passes in diagonalize_in_place", len(passes), 2)
    n = 0
    for h, blocks in natural_loops(b):
        if not any(pb in blocks for pb in passes):
            continue
        inner = [hh for hh, bl in natural_loops(b) if hh != h and hh in blocks and any(pb in bl for pb in passes)]
        if inner:
            continue        # the outer (pivot) loop
        for (a, s_), atoms in loop_exit_atoms(b, h, blocks, g):
            tested = None
            for at in atoms:
                if at[0] == "rel" and at[1] == "Eq" and at[3] == ("int", 0) and at[2][0] == "call" and "::clear_later_" in at[2][1]:
                    tested = at[2]
            if tested is None:
                ctx.ob("T3-last-pass-decides", b.name, "exit", "violation", "the elimination loop is left on %s, not on `a pass needed no gcd step`" % [show_atom(x)[:50] for x in atoms], b.span_of(a))
                continue
            n += 1
            # the block of the tested call: the pass whose callee and args match
            tb = [pb for pb, t in passes.items() if t["callee"]["def"] == tested[1]]
            later = []
            for pb in tb[:1]:
                region = b.fwd(pb) & b.bwd(a) | {a}
                later = [qb for qb in passes if qb != pb and qb in region and b.dominates(pb, qb)]
            ok = bool(tb) and not later
            ctx.ob("T3-last-pass-decides", b.name, "exit<-count of the last pass == 0", "ok" if ok else "violation",
                   "the loop ends when %s, the last pass before the exit, reports no gcd step" % tested[1].split("::")[-1] if ok else
                   "the loop ends on the count of %s although %s runs after it: that pass can re-fill the line just cleared, the pivot's row/column is not clear at the exit" % (
                       tested[1].split("::")[-1], [passes[q]["callee"]["def"].split("::")[-1] for q in later]), b.span_of(a))
    ctx.floor("count-controlled exits of the elimination loop", n, 1)


def divisor_chain(ctx, g, ai):
    """the diagonal entries are turned into a divisor chain: for every pair i < j below the rank bound, unless factors[i] already divides
    factors[j] (or is 0), the pair is replaced by (gcd, lcm).  The guard of that fix-up is decided by evaluating it on a grid of small
    integer pairs: it must be true for EVERY pair (a, b) with a != 0 and b % a != 0."""
    import math
    ctx.clauses.append("invariant factors form a divisor chain: every non-dividing pair i < j is replaced by (gcd, lcm) (T3/T4)")
    nr = ("param", 1, ai.debug.get(1, ""))
    sites = list(ai.calls(exact=M + "gcdx"))
    ctx.floor("gcdx calls in abelian_invariants", len(sites), 1)
    for bi, t in sites:
        A, B = [norm(ai.origin(x), g) for x in t["args"]]
        okix = all(x[0] == "call" and x[1].endswith("Index::index") and x[2][0][0] == "local" for x in (A, B)) and A[2][0] == B[2][0]
        if not okix:
            ctx.ob("T4-divisor-chain", ai.name, "gcdx(factors[i], factors[j])", "violation", "the gcd is not taken of two entries of one vector: %s, %s" % (show(A, 1)[:40], show(B, 1)[:40]), ai.span_of(bi))
            continue
        fac, i_, j_ = A[2][0], A[2][1], B[2][1]
        ri, rj = loop_range_of_payload(ai, i_, g), loop_range_of_payload(ai, j_, g)
        def isn(x):
            return x is not None and x[0] == "call" and x[1].endswith("Ord::min") and nr in x[2] and any(is_call(y, "::len") for y in x[2])
        okr = ri is not None and rj is not None and ri[0] == ("int", 0) and not ri[2] and not rj[2] and isn(ri[1]) and rj[1] == ri[1] and \
            unov1(rj[0]) == ("binop", "Add", i_, ("int", 1))
        ctx.ob("T4-divisor-chain", ai.name, "pairs", "ok" if okr else "violation",
               "all pairs i in 0..n, j in i+1..n with n = min(rows, nr_gens)" if okr else
               "the fix-up does not run over all pairs i in 0..n, j in i+1..n: i in %s, j in %s" % (ri and (show(ri[0], 1), show(ri[1], 1)[:40]), rj and (show(rj[0], 1)[:40], show(rj[1], 1)[:40])), ai.span_of(bi))
        fa = [atom_norm(x, g) for x in ai.facts_at(bi)]
        rel = [x for x in fa if any(isinstance(y, tuple) and contains(y, lambda s_: s_ in (A, B)) for y in x[1:])]
        bad = None
        for a in range(-12, 13):
            for b in range(-12, 13):
                if a == 0 or b % a == 0 or bad:
                    continue
                for x in rel:
                    v = eval_atom_env(x, {A: a, B: b})
                    if v is None and not contains_ovf_flag(x):
                        bad = "the guard %s of the gcd/lcm fix-up is not understood" % show_atom(x)[:70]
                    elif v is False:
                        bad = "for factors[i] = %d, factors[j] = %d (%d does not divide %d) the guard %s skips the gcd/lcm fix-up: the result is not a divisor chain" % (a, b, a, b, show_atom(x)[:60])
        ctx.ob("T3-divisor-chain-guard", ai.name, "gcdx<-(a != 0 && b % a != 0)", "ok" if not bad else "violation",
               "the fix-up runs for every pair with a != 0 that is not already a divisor pair (guard evaluated on 600 integer pairs)" if not bad else bad, ai.span_of(bi))
        # the replacement values
        G = ("field", ("call", M + "gcdx", (A, B)), "0")
        st = {}
        for b2, blk in ai.live_blocks():
            for si, s_ in enumerate(blk["stmts"]):
                if s_["k"] == "assign" and any(e["k"] == "deref" for e in s_["place"]["p"]):
                    base = norm(ai.local_origin(s_["place"]["l"]), g)
                    if base[0] == "call" and base[1].endswith("IndexMut::index_mut") and base[2][0] == fac and ai.dominates(bi, b2):
                        st[base[2][1]] = norm(ai.rv_origin(s_["rv"]), g)
        okg = st.get(i_) == G
        okl = j_ in st
        if okl:
            for a, b in ((4, 6), (6, 4), (-4, 6), (6, 9), (10, 15), (3, 5), (12, 8)):
                for sg in (1, -1):
                    gg = sg * math.gcd(a, b)
                    v = eval_term_env(st[j_], {A: a, B: b, G: gg})
                    if v is None or abs(v) != abs(a * b) // abs(gg):
                        okl = False
        ctx.ob("T4-divisor-chain", ai.name, "factors[i] = gcd", "ok" if okg else "violation",
               "factors[i] becomes the gcd" if okg else "factors[i] is not set to gcdx(a, b).0: %s" % (show(st[i_], 1)[:60] if i_ in st else "no store"), ai.span_of(bi))
        ctx.ob("T4-divisor-chain", ai.name, "factors[j] = lcm", "ok" if okl else "violation",
               "factors[j] becomes a / g * b (the lcm; evaluated on 14 sample pairs)" if okl else "factors[j] is not set to the lcm a / g * b: %s" % (show(st[j_], 1)[:80] if j_ in st else "no store"), ai.span_of(bi))


def unov1(t):
    return ("binop", t[1][1].replace("WithOverflow", ""), t[1][2], t[1][3]) if t[0] == "field" and str(t[2]) == "0" and t[1][0] == "binop" else t


def contains_ovf_flag(atom):
    return any(isinstance(y, tuple) and contains(y, lambda s_: s_[0] == "field" and str(s_[2]) == "1" and s_[1][0] == "binop" and s_[1][1].endswith("WithOverflow")) for y in atom[1:])


def _leaves(t, acc=None):
    if acc is None:
        acc = []
    if not isinstance(t, tuple) or not t:
        return acc
    k = t[0]
    if k == "binop":
        _leaves(t[2], acc); _leaves(t[3], acc)
    elif k == "unop":
        _leaves(t[2], acc)
    elif k == "cast":
        _leaves(t[1], acc)
    elif k == "field" and t[1][0] == "binop":
        _leaves(t[1], acc)
    else:
        acc.append(t)
    return acc
