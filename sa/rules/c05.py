"""C05 - every cover constructor returns a covering assembled from the base (DESIGN 4/C05)."""
from ..core import *
from ..templates import *

EXPLANATION = (
    "Decided: (1) each cover is assembled from the base's operations and degrees: cover_for_table returns derived::cover(ds, table.len(), "
    "sheet_map) where the sheet map traces edge_to_word[(d, i)] through the table from the current sheet; subgroup_cover returns "
    "cover_for_table(ds, coset_table(g.nr_generators(), &g.relators, subgens), &g.edge_to_word) with g = fundamental_group(ds) of the same ds; "
    "finite_universal_cover is subgroup_cover(ds, no generators); every element pushed by covers() is cover_for_table(ds, table, "
    "&g.edge_to_word) for a table of coset_tables(g.nr_generators(), &g.relators, max_deg); inside derived::cover the closure handed to "
    "build_set reads the base's op and calls the sheet map, the closure handed to build_sym_using_ms reads the base's m, and the size is "
    "nr_sheets * size() with the base's dim(). (2) oriented cover: the true edge of ds.is_oriented() returns as_partial_dsym(ds) (one sheet), "
    "the false edge returns cover(ds, 2, ..) with the sheet-count constant 2 and a sheet map built from partial_orientation(ds). (3) cover algebra: the "
    "closures of derived::cover are evaluated on every d = sheet*size + base chamber for small sizes: base chamber and sheet are recovered "
    "exactly, the sheet map is asked about (sheet, i, base chamber), the image is size * (sheet map value) + op(i, base chamber), degrees are "
    "read at the base chamber - so the projection commutes with all operations, preserves all degrees and every fibre has nr_sheets chambers, "
    "PROVIDED the sheet map returns values below nr_sheets and is consistent with the base's involutions (the callers' part, decided for the "
    "coset-table sheet maps under C11/C12). NOT decided: connectedness, triviality of the universal cover's group, one cover per conjugacy "
    "class (group theory).")
TRUSTED = ["rustc MIR lowering", "C11/C12 (coset tables), C09 (fundamental group) - decided separately, clause-wise"]
ASSUMPTIONS = ["connected complete base symbol"]


def cover_algebra(ctx, g):
    """derived::cover numbers the chamber d0 of the base on sheet k as d = k*sz + d0 and defines op(i, d) = sz * sheet_map(k, i, d0) + op(i, d0),
    m(i, i+1, d) = m(i, i+1, d0).  Decided by evaluating the closures' result expressions on all d = k*sz + d0 for sz in {3, 5}, k < 3:
    the base chamber and the sheet are recovered exactly, the sheet map is asked about (k, i, d0), and the image lies on the sheet the map
    returns, over the base's image - so the projection d -> d0 commutes with every operation and preserves every degree, and every fibre
    has nr_sheets chambers."""
    ctx.clauses.append("cover algebra: d = sheet*size + base chamber; op(i, d) = size * sheet_map(sheet, i, base) + op(i, base); degrees read at the base chamber (T4, closures evaluated on all small d)")
    cv = ctx.body("derived::cover")
    ctx.scan(ctx.facts.with_closures(cv.name))
    F = ctx.facts
    src_b = F.bodies.get("derived::cover::{closure#0}")
    op_b = F.bodies.get("derived::cover::{closure#1}")
    in_b = F.bodies.get("derived::cover::{closure#1}::{closure#0}")
    m_b = F.bodies.get("derived::cover::{closure#2}")
    if None in (src_b, op_b, in_b, m_b):
        raise AnchorMissing("derived::cover closures")
    cap = lambda k: ("field", ("param", 1, ""), str(k))
    P = lambda b, k: ("param", k, b.debug.get(k, ""))
    src_r = norm(src_b.local_origin(0), g)
    in_r = norm(in_b.local_origin(0), g)
    m_r = norm(m_b.local_origin(0), g)
    op_r = norm(op_b.local_origin(0), g)
    # roles of the captured variables of the inner closure, from the aggregate that builds it inside closure#1
    inner_caps = None
    for x in subterms(op_r):
        cp = closure_parts(x)
        if cp and cp[0] == in_b.name:
            inner_caps = [strip(c) for c in cp[1]]
    outer_caps = None
    for bi, si, s in cv.assigns():
        rv = s["rv"]
        if rv["k"] == "aggregate" and rv.get("def") == op_b.name:
            outer_caps = [strip(norm(cv.origin(o), g)) for o in rv["ops"]]
    if inner_caps is None or outer_caps is None:
        ctx.ob("T4-cover-algebra", cv.name, "closures", "violation", "the closures of cover() are not built as expected")
        return
    ds, sheet_map = P(cv, 1), P(cv, 3)
    size_t = ("call", "dsets::DSet::size", (ds,))

    def role(t, depth=0):
        """what a captured value of the inner closure stands for"""
        t = strip(t)
        if t[0] == "field" and t[1] == ("param", 1, "") and depth == 0:
            return role(outer_caps[int(t[2])], 1) if int(t[2]) < len(outer_caps) else None
        if t == size_t:
            return "sz"
        if t == sheet_map:
            return "sheet_map"
        if t == ds:
            return "ds"
        cp = closure_parts(t)
        if cp and cp[0] == src_b.name:
            return "src"
        if t[0] == "param" and depth == 0:
            return {2: "i", 3: "d"}.get(t[1])
        return None
    roles = {cap(k): role(c) for k, c in enumerate(inner_caps)}
    need = {"sz", "sheet_map", "src", "i", "d"}
    if set(roles.values()) & need != need:
        ctx.ob("T4-cover-algebra", cv.name, "captures", "violation", "the image closure does not capture size, sheet map, base-chamber function, i and d: %s" % sorted(str(v) for v in roles.values()))
        return
    by_role = {v: k for k, v in roles.items()}
    bad = None
    n = 0
    for sz in (3, 5):
        srcf = lambda x, sz=sz: eval_term_env(src_r, {cap(0): sz, P(src_b, 2): x})
        for k in range(3):
            for d0 in range(1, sz + 1):
                d = k * sz + d0
                if srcf(d) != d0:
                    bad = bad or "the base chamber of d = %d (size %d) is computed as %s, not %d" % (d, sz, srcf(d), d0)
                    continue
                mt = subst_env(m_r, {P(m_b, 3): d, ("call", "dsets::DSet::size", (cap(0),)): sz})
                margs = [eval_int(a) for a in mt[2][1:]] if is_call(mt, "DSet::m") else None
                for i in range(3):
                    mi = [eval_term_env(a, {P(m_b, 2): i}) for a in mt[2][1:]] if is_call(mt, "DSet::m") else None
                    if mi != [i, i + 1, d0]:
                        bad = bad or "the degree of the cover at (i, d) = (%d, %d) is read at %s, not at m(%d, %d, %d) of the base" % (i, d, mi, i, i + 1, d0)
                    for s_val in (0, 2):
                        for di in (1, sz):
                            asked = []

                            def f(x):
                                if is_call(x, "Fn::call") and strip(x[2][0]) in by_role.values() or (is_call(x, "Fn::call") and strip(x[2][0]) in (by_role.get("src"), by_role.get("sheet_map"))):
                                    callee = strip(x[2][0])
                                    args = strip(x[2][1])
                                    vals = [eval_int(a) for a in args[2]] if args[0] == "agg" else None
                                    if vals is None or any(v is None for v in vals):
                                        return None
                                    if callee == by_role["src"]:
                                        return ("int", srcf(vals[0]))
                                    if callee == by_role["sheet_map"]:
                                        asked.append(tuple(vals))
                                        return ("int", s_val)
                                return None
                            t = subst_env(in_r, {by_role["sz"]: sz, by_role["d"]: d, by_role["i"]: i, P(in_b, 2): di})
                            for _ in range(4):
                                t = map_term(t, f)
                            v = eval_int(t)
                            n += 1
                            if v is None:
                                bad = bad or "the image expression cannot be evaluated: " + show(t, 1)[:80]
                            elif asked and asked[-1] != (k, i, d0):
                                bad = bad or "for d = %d (sheet %d, base chamber %d) and i = %d the sheet map is asked about %s, not (%d, %d, %d)" % (d, k, d0, i, asked[-1], k, i, d0)
                            elif v != sz * s_val + di:
                                bad = bad or "for size %d, sheet map value %d and base image %d the image is %d, not %d * %d + %d: the projection no longer commutes with op %d" % (sz, s_val, di, v, sz, s_val, di, i)
    ctx.ob("T4-cover-algebra", cv.name, "op(i, d) = sz * sheet_map(k, i, d0) + op(i, d0)", "ok" if not bad and n else "violation",
           "base chamber, sheet, sheet-map arguments, image and degree lookup are exact on %d evaluated cases" % n if not bad and n else (bad or "nothing evaluated"))
    # the base operation is looked up at the base chamber, and the set has nr_sheets * size chambers of the base's dimension
    okop = is_call(op_r, "Option::<T>::map") and is_call(strip(op_r[2][0]), "DSet::op")
    if okop:
        o = strip(op_r[2][0])
        okop = role(o[2][0]) == "ds" and strip(o[2][1]) == P(op_b, 2) and is_call(strip(o[2][2]), "Fn::call") and role(strip(o[2][2])[2][0]) == "src" and strip(strip(strip(o[2][2])[2][1])[2][0]) == P(op_b, 3)
    ctx.ob("T4-cover-algebra", cv.name, "base image = ds.op(i, base chamber of d)", "ok" if okop else "violation",
           "the base's operation is applied to the base chamber of d" if okop else "the image is not derived from ds.op(i, src(d)): " + show(op_r, 1)[:90])


def oriented_sheet_map(ctx, g):
    """oriented_cover: on the two sheets the map crosses to the OTHER sheet (k ^ 1) exactly when the partial orientation gives d and op(i, d)
    the same sign (the edge does not reverse the orientation in the base), and stays (k) otherwise - so in the cover every edge joins
    chambers of opposite sign"""
    ctx.clauses.append("oriented cover: sheet flips (k ^ 1) iff ori[d] == ori[op(i, d)], stays otherwise (T4)")
    cb = ctx.facts.bodies.get("derived::oriented_cover::{closure#0}")
    if cb is None:
        raise AnchorMissing("derived::oriented_cover::{closure#0}")
    ctx.scan([cb])
    k_, i_, d_ = (("param", n, cb.debug.get(n, "")) for n in (2, 3, 4))
    res = {}
    bad = None
    for dbb, dterm in cb.all_defs_origins(0):
        dterm = norm(dterm, g)
        pol = None
        for a in cb.facts_at(dbb):
            a = atom_norm(a, g)
            if a[0] == "rel" and a[1] in ("Eq", "Ne") and all(is_call(x, "Index::index") or x[0] == "index" for x in (strip(a[2]), strip(a[3]))):
                l, r = strip(a[2]), strip(a[3])
                il = strip(l[2][1]) if l[0] == "call" else strip(l[2])
                ir = strip(r[2][1]) if r[0] == "call" else strip(r[2])
                if il != d_:
                    il, ir = ir, il
                okidx = il == d_ and contains(ir, lambda y: is_call(y, "DSet::op") and strip(y[2][1]) == i_ and strip(y[2][2]) == d_)
                if not okidx:
                    bad = bad or "the signs compared are not ori[d] and ori[op(i, d)]: " + show_atom(a)[:80]
                pol = a[1] == "Eq"
        vals = [eval_term_env(dterm, {k_: kk}) for kk in (0, 1)]
        res[pol] = vals
    want = {True: [1, 0], False: [0, 1]}
    if not bad and res != want:
        bad = "the sheet map gives %s for k = 0, 1 when the signs agree and %s when they differ; expected [1, 0] and [0, 1]" % (res.get(True), res.get(False))
    ctx.ob("T4-oriented-sheet-map", cb.name, "k ^ 1 iff equal signs", "ok" if not bad else "violation",
           "equal signs -> other sheet, different signs -> same sheet" if not bad else bad)


def sheet_trace(ctx, g):
    """covers::trace_word(table, start, word): the sheet reached from `start` by the word - a fold of table.get(row, letter) over the letters of
    `word` in order, starting at `start`"""
    b = ctx.body("covers::trace_word")
    ctx.scan(ctx.facts.with_closures(b.name))
    table, start, word = (("param", k, b.debug.get(k, "")) for k in (1, 2, 3))
    r = strip(norm(b.local_origin(0), g))
    bad = None
    if not (is_call(r, "Iterator::fold") and strip(r[2][1]) == start and contains(r[2][0], lambda y: y == word) and not contains(r[2][0], lambda y: is_call(y, "Iterator::rev"))):
        bad = "not word.iter().fold(start, ..): %s" % show(r, 1)[:70]
    else:
        st = apply_closure(ctx.facts, strip(r[2][2]), [("local", -1, "row"), ("local", -2, "g")], g)
        st = strip(st) if st is not None else None
        ok = st is not None and is_call(st, "Option::<T>::unwrap") and is_call(strip(st[2][0]), "CosetTable::get") and \
            [strip(y) for y in strip(st[2][0])[2]] == [table, ("local", -1, "row"), ("local", -2, "g")]
        if not ok:
            bad = "a letter does not move the sheet by table.get(row, letter): %s" % (show(st, 1)[:60] if st else None)
    ctx.ob("T2-sheet-map-traces-edge-word", b.name, "fold", "ok" if not bad else "violation", "the sheet reached is word.iter().fold(start, |row, g| table.get(row, g))" if not bad else bad)


def run(ctx):
    g = ctx.facts.getters()
    sheet_trace(ctx, g)
    cover_algebra(ctx, g)
    oriented_sheet_map(ctx, g)
    # covers are built from coset tables of the fundamental group: the enumeration must work with exactly the given relators (all non-empty
    # ones, every rotation and inverse) - a dropped one-letter relator makes covers of a larger group (shared with C11 / C12; seed C05-h)
    from . import c12
    c12.relators_unmodified(ctx, g)
    ctx.clauses += ["each cover is assembled from the base's operations and degrees (T9/T2)", "oriented cover: one sheet if oriented, two otherwise (T3/T4)"]
    cft = ctx.body("covers::cover_for_table")
    sc = ctx.body("covers::subgroup_cover")
    fu = ctx.body("covers::finite_universal_cover")
    cv = ctx.body("covers::covers")
    dc = ctx.body("derived::cover")
    oc = ctx.body("derived::oriented_cover")
    ctx.scan(ctx.facts.with_closures(cft.name) + [sc, fu, cv] + ctx.facts.with_closures(dc.name) + ctx.facts.with_closures(oc.name))
    p = lambda b, i: ("param", i, b.debug.get(i, ""))

    # cover_for_table
    r = ret_origin(cft, g)
    ok = r[0] == "call" and r[1] == "derived::cover" and r[2][0] == p(cft, 1) and r[2][1] == ("call", "fpgroups::cosets::CosetTable::len", (p(cft, 2),))
    ctx.ob("T9-cover-constructed", cft.name, "return", "ok" if ok else "violation",
           "returns derived::cover(ds, table.len(), sheet_map)" if ok else "cover_for_table does not return derived::cover(ds, table.len(), ..): " + show(r, 1)[:100])
    if ok:
        calls = closure_calls(ctx.facts, r[2][2], g)
        tw = [c for c in calls if c[0] == "covers::trace_word"]
        okm = False
        if tw:
            a = tw[0][2]
            # trace_word(table, sheet, word) ; word = edge_to_word.get(&(d, i)) ; closure params: 2=sheet, 3=i, 4=d
            word = a[2]
            gets = [s for s in subterms(word) if isinstance(s, tuple) and s and s[0] == "call" and s[1].endswith("BTreeMap::<K, V, A>::get")]
            okm = a[0] == p(cft, 2) and a[1][0] == "param" and a[1][1] == 2 and bool(gets) and gets[0][2][0] == p(cft, 3) and \
                gets[0][2][1][0] == "agg" and [x[1] for x in gets[0][2][1][2] if x[0] == "param"] == [4, 3]
        ctx.ob("T2-sheet-map-traces-edge-word", cft.name, "closure", "ok" if okm else "violation",
               "sheet_map(sheet, i, d) = trace_word(table, sheet, edge_to_word[(d, i)])" if okm else
               "the sheet map does not trace the word of edge (d, i) through the table from the current sheet")
    # subgroup_cover
    r = ret_origin(sc, g)
    fg = ("call", "fundamental_group::fundamental_group", (p(sc, 1),))
    want = ("call", "covers::cover_for_table", (p(sc, 1), ("call", "fpgroups::cosets::coset_table", (("call", "fundamental_group::FundamentalGroup::nr_generators", (fg,)), ("field", fg, "relators"), p(sc, 2))),
                                                ("field", fg, "edge_to_word")))
    ctx.ob("T9-cover-constructed", sc.name, "return", "ok" if r == want else "violation",
           "returns cover_for_table(ds, coset_table(gens, relators, subgens), edge_to_word) of fundamental_group(ds)" if r == want else
           "subgroup_cover does not build the cover of ds from the coset table of the subgroup in ds's own fundamental group: " + show(r, 1)[:140])
    # finite_universal_cover
    r = ret_origin(fu, g)
    ok = r[0] == "call" and r[1] == "covers::subgroup_cover" and r[2][0] == p(fu, 1) and vec_literal(fu, [fu.origin(t["args"][1]) for bi, t in fu.calls(exact="covers::subgroup_cover")][0]) == []
    ctx.ob("T9-cover-constructed", fu.name, "return", "ok" if ok else "violation",
           "returns subgroup_cover(ds, no generators) (trivial subgroup)" if ok else "finite_universal_cover is not subgroup_cover(ds, &vec![]): " + show(r, 1)[:80])
    # covers
    pushes = [(bi, norm(cv.origin(t["args"][1]), g), t) for bi, t in cv.calls("Vec::<T, A>::push")]
    ctx.floor("pushes in covers()", len(pushes), 1)
    fg = ("call", "fundamental_group::fundamental_group", (p(cv, 1),))
    for bi, v, t in pushes:
        every_iteration_reaches(ctx, "T3-every-table-gives-a-cover", cv, bi, "table-loop->push", "some coset table of the enumeration does not give an entry of covers(): a conjugacy class of subgroups is missing")
        ok = v[0] == "call" and v[1] == "covers::cover_for_table" and v[2][0] == p(cv, 1) and v[2][2] == ("field", fg, "edge_to_word")
        src = iter_source(cv, v[2][1], g) if ok else None
        oks = src == ("call", "fpgroups::cosets::coset_tables", (("call", "fundamental_group::FundamentalGroup::nr_generators", (fg,)), ("field", fg, "relators"), p(cv, 2)))
        ctx.ob("T9-cover-constructed", cv.name, "push", "ok" if ok and oks else "violation",
               "every listed cover is cover_for_table(ds, table, edge_to_word) for a table of coset_tables(gens, relators, max_deg) of fundamental_group(ds)" if ok and oks else
               "an element of covers() is not the cover of ds for a table of the low-index enumeration of ds's fundamental group up to max_deg: " + show(v, 1)[:100], cv.span_of(bi))
    r = norm(cv.local_origin(0), g)
    # derived::cover
    r = ret_origin(dc, g)
    ds = p(dc, 1)
    ok = r[0] == "call" and r[1] == "derived::build_sym_using_ms" and r[2][0][0] == "call" and r[2][0][1] == "derived::build_set"
    ctx.ob("T9-cover-assembly", dc.name, "return", "ok" if ok else "violation", "cover = build_sym_using_ms(build_set(..), ..)" if ok else "derived::cover is not build_sym_using_ms(build_set(..), ..): " + show(r, 1)[:100])
    if ok:
        bs = r[2][0]
        size_ok = bs[2][0] in (("field", ("binop", "MulWithOverflow", p(dc, 2), ("call", "dsets::DSet::size", (ds,))), "0"), ("field", ("binop", "MulWithOverflow", ("call", "dsets::DSet::size", (ds,)), p(dc, 2)), "0"))
        dim_ok = bs[2][1] == ("call", "dsets::DSet::dim", (ds,))
        ctx.require(size_ok and dim_ok, "T4-cover-extent", dc.name, "build_set(nr_sheets * size, dim, ..)", "the cover has nr_sheets * size() chambers and the base's dimension",
                    "the cover's extent is not (nr_sheets * ds.size(), ds.dim()): %s, %s" % (show(bs[2][0], 1)[:50], show(bs[2][1], 1)[:30]))
        def reach_calls(clo):
            cp = closure_parts(clo)
            out = []
            if cp:
                for d in ctx.facts.reachable(cp[0], fanout=False):
                    for bi, t in ctx.facts.bodies[d].calls():
                        out.append((t["callee"].get("def", ""), (t["callee"].get("args") or [""])[0]))
            return out
        oc_ = reach_calls(bs[2][2])
        reads_op = any(n == "dsets::DSet::op" and a.startswith("T/") for n, a in oc_)
        calls_map = any(n.endswith("ops::Fn::call") and a.startswith("F/") for n, a in oc_)
        ctx.ob("T2-cover-reads-base-op", dc.name, "build_set closure", "ok" if reads_op and calls_map else "violation",
               "operations of the cover are computed from the base's op and the sheet map" if reads_op and calls_map else
               "the cover's operations do not depend on %s" % ("the base's operations" if not reads_op else "the sheet map"))
        mc = reach_calls(r[2][1])
        reads_m = any(n == "dsets::DSet::m" and a.startswith("T/") for n, a in mc)
        ctx.ob("T2-cover-reads-base-m", dc.name, "build_sym_using_ms closure", "ok" if reads_m else "violation",
               "degrees of the cover are read from the base's m" if reads_m else "the cover's degrees do not depend on the base's degrees")
    # oriented_cover
    rets = [(bi, t) for bi, t in oc.calls() if t["dest"]["l"] == 0 and not t["dest"]["p"]]
    ctx.floor("return sites of oriented_cover", len(rets), 2)
    ds = p(oc, 1)
    ori = ("bool", ("call", "dsets::DSet::is_oriented", (ds,)), True)
    nori = ("bool", ("call", "dsets::DSet::is_oriented", (ds,)), False)
    for bi, t in rets:
        fa = [atom_norm(a, g) for a in oc.facts_at(bi)]
        n = t["callee"].get("def", "")
        args = [norm(oc.origin(a), g) for a in t["args"]]
        if ori in fa:
            ok = n == "derived::as_partial_dsym" and args == [ds]
            ctx.ob("T3-oriented-cover-sheets", oc.name, "oriented->one sheet", "ok" if ok else "violation",
                   "an oriented base is returned as a copy of itself" if ok else "for an oriented base oriented_cover returns %s(..), not a one-sheeted copy" % n, oc.span_of(bi))
        elif nori in fa:
            ok = n == "derived::cover" and args[0] == ds and args[1] == ("int", 2)
            uses_ori = False
            cp = closure_parts(args[2]) if ok else None
            if cp:
                cb = ctx.facts.bodies.get(cp[0])
                caps = [norm(c, g) for c in cp[1]]
                def f(n):
                    if n[0] == "field" and n[1][0] == "param" and n[1][1] == 1 and str(n[2]).isdigit() and int(n[2]) < len(caps):
                        return caps[int(n[2])]
                    return None
                for (e_, ps) in (cb.edge_preds().items() if cb else []):
                    for term, val in ps:
                        tt = map_term(norm(term, g), f)
                        if contains(tt, lambda s: isinstance(s, tuple) and s and s[0] == "call" and s[1] == "dsets::DSet::partial_orientation" and s[2] == (ds,)) and \
                                contains(tt, lambda s: isinstance(s, tuple) and s and s[0] == "call" and s[1] == "dsets::DSet::op"):
                            uses_ori = True
            ctx.ob("T3-oriented-cover-sheets", oc.name, "non-oriented->two sheets", "ok" if ok and uses_ori else "violation",
                   "a non-oriented base gets cover(ds, 2, sheet map that switches sheets depending on partial_orientation(ds) across op(i, d))" if ok and uses_ori else
                   "for a non-oriented base oriented_cover does not return the 2-sheeted cover(ds, 2, ..) driven by partial_orientation(ds): %s(%s)" % (n, ", ".join(show(a, 1)[:30] for a in args)), oc.span_of(bi))
        else:
            ctx.ob("T3-oriented-cover-sheets", oc.name, "return", "violation", "a return of oriented_cover is not decided by ds.is_oriented()", oc.span_of(bi))
