"""C19 - minimum cuts: structural necessary conditions of separation, minimality bookkeeping and the vertex-splitting reduction."""
from ..core import *
from ..templates import *

M = "util::cutsets::"
EXPLANATION = (
    "Decided (partial; the optimisation argument itself - max-flow/min-cut - is NOT decided): (1) a cut is only produced when no augmenting path "
    "exists: EdgeCut{..} is built on the None edge of the last augment(..) call, and its two fields are read off the `seen` set returned by "
    "that same call: cut_edges = the edges (v, w) of the input edge set with seen.contains(v) && !seen.contains(w) (edges leaving the "
    "reachable set, in that orientation), inside_vertices = seen (so the inside vertices, with the source, are exactly what the last search "
    "reached). (2) no repeated elements: the edges are collected into a BTreeSet before anything else and the cut is a filter of it. (3) "
    "flow bookkeeping: the path set is replaced by the set returned on the Some edge, the same set is handed to the next augment call; in "
    "augment a step v -> w is taken only if w is unseen, (v, w) carries no flow, and (v, w) is an input edge or (w, v) carries flow; "
    "back-tracing cancels (w, v) if present and otherwise adds (v, w). (4) vertex cuts are the vertex-splitting reduction: x_edges = "
    "{(v + offset, w)} u {(v, v + offset)} with offset = max vertex + 1, the edge cut is computed from source + offset to sink, cut vertices "
    "are min(v, w) of the cut edges (the split edges (v, v + offset)), inside vertices are those of the edge cut below offset that are not "
    "cut vertices. (5) the undirected variants insert both orientations and delegate. NOT decided: that the result has minimum size for "
    "every graph, termination, behaviour for source == sink or adjacent source/sink (excluded by the property).")
TRUSTED = ["rustc MIR lowering", "BTreeSet/BTreeMap semantics", "max-flow/min-cut theorem for the shape checked (not mechanised)"]
ASSUMPTIONS = ["distinct source and sink; for vertex cuts not joined by an edge"]


def cap_subst(caps):
    def f(n):
        if n[0] == "field" and n[1][0] == "param" and n[1][1] == 1 and str(n[2]).isdigit() and int(n[2]) < len(caps):
            return caps[int(n[2])]
        return None
    return f


def search_shape(ctx, g):
    """the residual breadth-first search of augment(): queue and `seen` both start from the SOURCE; a vertex w admitted from the popped vertex v is
    recorded as back[w] = v (child -> parent), marked seen and queued - all three for the same w and v; the neighbours scanned are those of the
    popped vertex; the path is traced back from the sink along `back` until the source.  The adjacency handed in by min_edge_cut lists every
    edge in both directions (residual steps run against the flow), and by_first keeps every second component, the first one included"""
    ctx.clauses.append("augment: search seeded at the source (queue and seen); back[w] = v, seen and queue updated together; trace-back from the sink; adjacency symmetric and complete (T9)")
    b = ctx.body(M + "augment")
    ctx.scan([b])
    nb, source, sink = (("param", k, b.debug.get(k, "")) for k in (2, 3, 4))
    A = lambda bb, pat: [(bi, [strip(norm(bb.origin(x), g)) for x in t["args"]]) for bi, t in bb.calls(pat)]
    froms = [a for bi, a in A(b, "From::from")]
    pops = A(b, "VecDeque::<T, A>::pop_front")
    bad = None
    if len(pops) != 1:
        bad = "not one pop_front"
    else:
        q = pops[0][1][0]
        v = ("field", ("variant", ("call", "std::collections::VecDeque::<T, A>::pop_front", (q,)), "Some"), "0")
        qd = [strip(norm(d, g)) for dbb, d in b.all_defs_origins(q[1])] if q[0] == "local" else []
        seed = ("call", "std::convert::From::from", (("agg", "array", (source,)),))
        pb = A(b, "VecDeque::<T, A>::push_back")
        ins = A(b, "::insert")
        idx = [a for bi, a in A(b, "Index::index") if a[0] == nb]
        if qd != [seed]:
            bad = "the queue does not start with the source alone: %s" % [show(x, 1)[:40] for x in qd]
        elif len(pb) != 1 or pb[0][1][0] != q:
            bad = "not one push_back on the search queue"
        else:
            w = pb[0][1][1]
            wsrc = iter_source(b, w, g)
            same = [(bi, a) for bi, a in ins if len(a) >= 2 and a[1] == w]
            seen_ins = [a for bi, a in same if len(a) == 2]
            back_ins = [a for bi, a in same if len(a) == 3]
            if not (len(idx) == 1 and idx[0][1] == v and isinstance(wsrc, tuple) and contains(norm(wsrc, g), lambda y: y == ("call", "std::ops::Index::index", (nb, v)) or (is_call(y, "Index::index") and strip(y[2][0]) == nb and strip(y[2][1]) == v))):
                bad = "the vertices scanned are not the neighbours of the popped vertex"
            elif len(seen_ins) != 1 or len(back_ins) != 1:
                bad = "an admitted vertex is not marked seen, recorded in `back` and queued together"
            elif back_ins[0][2] != v:
                bad = "back[w] is not the popped vertex it was reached from (child -> parent): back.insert(%s, %s)" % (show(back_ins[0][1], 1)[:20], show(back_ins[0][2], 1)[:20])
            else:
                seen = seen_ins[0][0]
                sd = [strip(norm(d, g)) for dbb, d in b.all_defs_origins(seen[1])] if seen[0] == "local" else []
                back = back_ins[0][0]
                if sd != [seed]:
                    bad = "`seen` does not start with the source alone: %s" % [show(x, 1)[:40] for x in sd]
                else:
                    # trace-back
                    tw = [a for bi, a in A(b, "Index::index") if a[0] == back]
                    okt = len(tw) == 1 and tw[0][1][0] == "local"
                    if okt:
                        wl = tw[0][1]
                        wd = sorted((strip(norm(d, g)) for dbb, d in b.all_defs_origins(wl[1])), key=repr)
                        okt = sorted([sink, ("call", "std::ops::Index::index", (back, wl))], key=repr) == [x if x[0] != "call" else (x[0], x[1], tuple(strip(y) for y in x[2])) for x in wd]
                        ex = [atom_norm(a_, g) for hh, bl in natural_loops(b) for e_, ats in loop_exit_atoms(b, hh, bl, g) for a_ in ats]
                        okt = okt and any(x[0] == "rel" and x[1] == "Eq" and {strip(x[2]), strip(x[3])} == {wl, source} for x in ex)
                    if not okt:
                        bad = "the path is not traced from the sink along back[.] until the source"
    ctx.ob("T9-search-shape", b.name, "breadth-first search", "ok" if not bad else "violation",
           "queue = seen = {source}; for w in neighbors[v]: back[w] = v, seen, queued together; trace-back sink -> source" if not bad else bad)
    me = ctx.body(M + "min_edge_cut")
    ctx.scan(ctx.facts.with_closures(me.name))
    bad = None
    bf = A(me, M + "by_first")
    if len(bf) != 1 or not is_call(bf[0][1][0], "Iterator::flat_map"):
        bad = "the adjacency is not by_first(edges.iter().flat_map(..))"
    else:
        fm = bf[0][1][0]
        res = apply_closure(ctx.facts, strip(fm[2][1]), [("agg", "tuple", (("local", -1, "v"), ("local", -2, "w")))], g)
        res = strip(simplify_proj(res)) if res is not None else None
        want = {(("local", -1, "v"), ("local", -2, "w")), (("local", -2, "w"), ("local", -1, "v"))}
        got = {tuple(strip(z) for z in strip(x)[2]) for x in res[2]} if res is not None and res[0] == "agg" and res[1] == "array" and all(strip(x)[0] == "agg" for x in res[2]) else None
        if got != want:
            bad = "the adjacency does not list every edge in both directions: %s" % (show(res, 1)[:60] if res else None)
        elif not contains(fm[2][0], lambda y: y == ("param", 1, me.debug.get(1, ""))):
            bad = "the adjacency is not built from the given edges"
    ctx.ob("T9-search-shape", me.name, "adjacency", "ok" if not bad else "violation", "by_first over (v, w) and (w, v) of every edge" if not bad else bad)
    bf = ctx.body(M + "by_first")
    ctx.scan(ctx.facts.with_closures(bf.name))
    bad = None
    ent, am, oi = A(bf, "::entry"), A(bf, "::and_modify"), A(bf, "::or_insert")
    if not (len(ent) == 1 and len(am) == 1 and len(oi) == 1):
        bad = "not entry(v).and_modify(..).or_insert(..)"
    else:
        item = strip(ent[0][1][1])
        first = item if item[0] == "field" and item[2] == "0" else None
        second = ("field", first[1], "1") if first else None
        cc = closure_calls(ctx.facts, am[0][1][1], g)
        okm = any(c[0].endswith("::insert") and strip(c[2][1]) == second for c in cc)
        okn = oi[0][1][1] == ("call", "std::convert::From::from", (("agg", "array", (second,)),))
        if first is None or not okm or not okn:
            bad = "a pair (v, w) does not put w into the set of v in both cases (set exists: insert(w): %s; new set: {w}: %s)" % (okm, okn)
    ctx.ob("T9-search-shape", bf.name, "grouping", "ok" if not bad else "violation", "entry(v): insert(w) into the existing set, or start the set with {w}" if not bad else bad)


def run(ctx):
    g = ctx.facts.getters()
    search_shape(ctx, g)
    edge_cut(ctx, g)
    augment(ctx, g)
    vertex_cut(ctx, g)
    undirected(ctx, g)


def edge_cut(ctx, g):
    ctx.clauses += ["cut produced only when no augmenting path exists, from the last search's seen set (T3)", "cut = edges leaving the seen set; no repeats (T4/T8)"]
    b = ctx.body(M + "min_edge_cut")
    ctx.scan(ctx.facts.with_closures(b.name))
    ags = [(bi, si, s) for bi, si, s in b.assigns() if s["rv"]["k"] == "aggregate" and s["rv"].get("agg") == "adt" and s["rv"]["adt"] == M + "EdgeCut"]
    ctx.floor("EdgeCut constructions", len(ags), 1)
    augs = [norm(b.local_origin(t["dest"]["l"]), g) for bi, t in b.calls(exact=M + "augment") if not t["dest"]["p"]]
    for bi, si, s in ags:
        fa = [atom_norm(a, g) for a in b.facts_at(bi)]
        none = [a for a in fa if a[0] in ("variant", "notvariant") and a[1][0] == "field" and str(a[1][2]) == "0" and a[1][1] in augs and
                ((a[0] == "variant" and a[2] == 0) or (a[0] == "notvariant" and a[2] == (1,)))]
        ctx.ob("T3-cut-after-last-search", b.name, "EdgeCut<-augment(..).0 is None", "ok" if none else "violation",
               "the cut is built only when the search found no augmenting path" if none else "an EdgeCut can be built although an augmenting path still exists (not separating / not minimal)", b.span_of(bi, si))
        if not none:
            continue
        aug = none[0][1][1]
        seen = ("field", aug, "1")
        ce = norm(b.def_origin(b.origin(s["rv"]["ops"][s["rv"]["fields"].index("cut_edges")])), g)
        iv = norm(b.def_origin(b.origin(s["rv"]["ops"][s["rv"]["fields"].index("inside_vertices")])), g)
        edges_set = aug[2][0]
        flt = [x for x in subterms(ce) if isinstance(x, tuple) and x and x[0] == "call" and x[1].endswith("Iterator::filter")]
        okf = False
        why = "cut_edges is not a filter of the edge set"
        if flt and contains(flt[0][2][0], lambda x: x == edges_set):
            cp = closure_parts(flt[0][2][1])
            cb = ctx.facts.bodies.get(cp[0]) if cp else None
            if cb is not None:
                caps = [norm(c, g) for c in cp[1]]
                f = cap_subst(caps)
                rl = strip(cb.local_origin(0))
                if rl[0] == "local":
                    disj = bool_join_disjuncts(cb, rl[1], g)
                else:
                    disj = [(0, [atom_norm(a, g) for a in atoms_of(cb.local_origin(0), ("eq", 1))])]
                pv, pw = ("field", ("param", 2, cb.debug.get(2, "")), "0"), ("field", ("param", 2, cb.debug.get(2, "")), "1")
                def has(atoms, who, truth):
                    for a in atoms:
                        if a[0] == "bool" and a[2] is truth and a[1][0] == "call" and a[1][1].endswith("BTreeSet::<T, A>::contains"):
                            args = [map_term(x, f) for x in a[1][2]]
                            if args[0] == seen and args[1] == who:
                                return True
                    return False
                okf = bool(disj) and all(has(at, pv, True) and has(at, pw, False) for _, at in disj)
                why = "the filter is not `seen.contains(v) && !seen.contains(w)` on the seen set of the last search"
        # ... and are reported as they are: nothing but cloned()/copied()/collect() (or an identity map) between the filter and the result
        if okf:
            for x in subterms(ce):
                if isinstance(x, tuple) and x and x[0] == "call":
                    last = x[1].split("::")[-1]
                    if last in ("collect", "cloned", "copied", "filter", "iter", "into_iter", "deref", "as_ref", "borrow"):
                        continue
                    if last == "map" and len(x[2]) == 2:
                        res = closure_result(ctx.facts, x[2][1], g)
                        if res is not None and strip(res)[0] == "param" and strip(res)[1] == 2:
                            continue
                    if contains(x, lambda y: y == flt[0]):
                        okf = False
                        why = "the filtered edges are transformed by `%s` before they are reported (an edge of the cut must be reported as the directed pair (v, w) that leaves the seen set)" % last
        ctx.ob("T4-cut-edges-leave-seen", b.name, "cut_edges", "ok" if okf else "violation",
               "cut_edges = {(v, w) in edges : v in seen, w not in seen} for the last search's seen set" if okf else why + ": " + show(ce, 1)[:100], b.span_of(bi, si))
        oki = contains(iv, lambda x: x == seen) and not any(isinstance(x, tuple) and x and x[0] == "call" and x[1].endswith("Iterator::filter") for x in subterms(iv))
        ctx.ob("T4-inside-is-seen", b.name, "inside_vertices", "ok" if oki else "violation",
               "inside_vertices = the seen set of the last search" if oki else "inside_vertices is not the (unfiltered) seen set of the last search: " + show(iv, 1)[:100], b.span_of(bi, si))
        # edges are a set
        tys = [b.local_ty(l) for l in range(len(b.f["locals"])) if b.debug.get(l) == "edges" and l > b.argc]
        okset = edges_set[0] == "call" and edges_set[1].endswith("Iterator::collect") and any("BTreeSet<(usize, usize)" in t or "HashSet<(usize, usize)" in t for t in tys)
        ctx.ob("T8-edges-deduplicated", b.name, "edges: set", "ok" if okset else "violation",
               "the input edges are collected into a set before use (no repeated cut elements)" if okset else "the edge collection is not a set: repeated input edges can be reported twice in the cut")
    # flow bookkeeping
    ctx.clauses.append("flow bookkeeping: the augmented path set replaces the old one and is handed to the next search (T3)")
    pe_locals = set()
    for bi, t in b.calls(exact=M + "augment"):
        pe = strip(b.origin(t["args"][4]))
        if pe[0] == "local":
            pe_locals.add(pe[1])
        args = [norm(b.origin(a), g) for a in t["args"]]
        okargs = args[2] == ("param", 2, b.debug.get(2, "")) and args[3] == ("param", 3, b.debug.get(3, ""))
        ctx.require(okargs, "T4-augment-args", b.name, "augment(.., source, sink, ..)", "searches run from source to sink", "augment is not called with (source, sink) in that order", b.span_of(bi))
    okrep = False
    for bi, si, s in b.assigns():
        if s["place"]["l"] in pe_locals and not s["place"]["p"] and loop_or_natural(b, bi):
            v = norm(b.rv_origin(s["rv"]), g)
            if v[0] == "field" and v[1][0] == "variant" and v[1][2] == "Some" and v[1][1][0] == "field" and str(v[1][1][2]) == "0" and v[1][1][1] in augs:
                okrep = True
    ctx.require(okrep, "T3-path-set-updated", b.name, "path_edges = next", "on success the returned path set replaces the old one", "the augmented path set is not stored back: the flow never grows / the loop does not terminate")


def loop_or_natural(b, bi):
    return any(bi in blocks for h, blocks in natural_loops(b)) or loop_containing(b, bi) is not None


def augment(ctx, g):
    ctx.clauses.append("residual-graph step condition and flow cancellation in augment (T3)")
    b = ctx.body(M + "augment")
    ctx.scan([b])
    p = lambda i: ("param", i, b.debug.get(i, ""))
    edges, path = p(1), p(5)
    ins = [(bi, t) for bi, t in b.calls("BTreeSet::<T, A>::insert")]
    # the `seen.insert(w)` of the search loop
    n = 0
    for bi, t in ins:
        recv = strip(b.origin(t["args"][0]))
        if not (recv[0] == "local" and b.debug.get(recv[1]) is not None and "BTreeSet<usize" in b.local_ty(recv[1])):
            continue
        w = norm(b.origin(t["args"][1]), g)
        fa = [atom_norm(a, g) for a in b.facts_at(bi)]
        def cont(atoms, coll, key, truth):
            for a in atoms:
                if a[0] == "bool" and a[2] is truth and a[1][0] == "call" and a[1][1].endswith("::contains") and a[1][2][0] == coll and a[1][2][1] == key:
                    return True
            return False
        seen_l = ("local", recv[1], recv[2])
        # v: the popped vertex
        vs = [x for a in fa for x in subterms(a[1] if a[0] == "bool" else ("x",)) if isinstance(x, tuple) and x and x[0] == "agg" and x[1] == "tuple" and len(x[2]) == 2 and w in x[2]]
        v = None
        for x in vs:
            oth = [y for y in x[2] if y != w]
            if oth:
                v = oth[0]
        n += 1
        if v is None:
            ctx.ob("T3-residual-step", b.name, "seen.insert(w)", "violation", "the search step is not guarded by tests on the edge (v, w)", b.span_of(bi))
            continue
        fwd_e, bwd_e = ("agg", "tuple", (v, w)), ("agg", "tuple", (w, v))
        unseen = cont(fa, seen_l, w, False)
        noflow = cont(fa, path, fwd_e, False)
        # edges.contains((v,w)) || path.contains((w,v)): the insert is reached from two edges; accept if every predecessor path has one of them:
        # use the atoms of all edges entering the chain of blocks that lead to bi after the `noflow` test
        # both alternatives must be present: reached either because (v, w) is an input edge or because (w, v) carries flow
        either = False
        if not (cont(fa, edges, fwd_e, True) or cont(fa, path, bwd_e, True)):
            cur = bi
            seenb = set()
            while cur not in seenb:
                seenb.add(cur)
                ps = b.pred().get(cur, [])
                if len(ps) == 2:
                    alts = set()
                    for pb in ps:
                        at = [atom_norm(a, g) for a in b.edge_atoms((pb, cur))] + [atom_norm(a, g) for a in b.facts_at(pb)]
                        if cont(at, edges, fwd_e, True):
                            alts.add("edge")
                        elif cont(at, path, bwd_e, True):
                            alts.add("reverse-flow")
                        else:
                            alts.add("?")
                    either = alts == {"edge", "reverse-flow"}
                    break
                if len(ps) != 1:
                    break
                cur = ps[0]
        ok = unseen and noflow and either
        ctx.ob("T3-residual-step", b.name, "seen.insert(w)", "ok" if ok else "violation",
               "a step v -> w needs: w unseen, (v, w) carries no flow, and (v, w) is an edge or (w, v) carries flow" if ok else
               "the residual-graph step condition is incomplete (w unseen: %s; (v,w) not in path_edges: %s; (v,w) in edges or (w,v) in path_edges: %s): the search can use saturated or non-existent edges" % (unseen, noflow, either), b.span_of(bi))
    ctx.floor("search steps in augment", n, 1)
    # back-tracing: remove (w, v) under result.contains((w, v)), else insert (v, w)
    rem = [(bi, norm(b.origin(t["args"][1]), g)) for bi, t in b.calls("BTreeSet::<T, A>::remove")]
    okb = False
    for bi, key in rem:
        fa = [atom_norm(a, g) for a in b.facts_at(bi)]
        guarded = any(a[0] == "bool" and a[2] is True and a[1][0] == "call" and a[1][1].endswith("::contains") and a[1][2][1] == key for a in fa)
        if guarded and key[0] == "agg" and len(key[2]) == 2:
            rev = ("agg", "tuple", (key[2][1], key[2][0]))
            for bj, t in ins:
                k2 = norm(b.origin(t["args"][1]), g)
                fb = [atom_norm(a, g) for a in b.facts_at(bj)]
                if k2 == rev and any(a[0] == "bool" and a[2] is False and a[1][0] == "call" and a[1][1].endswith("::contains") and a[1][2][1] == key for a in fb):
                    okb = True
    ctx.ob("T3-flow-cancellation", b.name, "remove((w, v)) / insert((v, w))", "ok" if okb else "violation",
           "back-tracing cancels flow on (w, v) if present and otherwise adds (v, w)" if okb else "back-tracing does not cancel reverse flow / add forward flow as a residual path requires")


def vertex_cut(ctx, g):
    ctx.clauses.append("vertex cuts are the vertex-splitting reduction with consistent slots (T4)")
    b = ctx.body(M + "min_vertex_cut")
    ctx.scan(ctx.facts.with_closures(b.name))
    calls = [(bi, t) for bi, t in b.calls(exact=M + "min_edge_cut")]
    ctx.floor("min_edge_cut calls in min_vertex_cut", len(calls), 1)
    src, snk = ("param", 2, b.debug.get(2, "")), ("param", 3, b.debug.get(3, ""))
    for bi, t in calls:
        a = [norm(b.def_origin(b.origin(x)), g) for x in t["args"]]
        s_arg = a[1]
        off = None
        if s_arg[0] == "field" and s_arg[1][0] == "binop" and s_arg[1][1] == "AddWithOverflow" and s_arg[1][2] == src:
            off = s_arg[1][3]
        okoff = off is not None and contains(off, lambda x: isinstance(x, tuple) and x and x[0] == "call" and x[1].endswith("Iterator::max")) and \
            (off[0] == "call" and off[1].endswith("ops::Add::add") and off[2][1] == ("int", 1) or contains(off, lambda x: x == ("int", 1)))
        ctx.ob("T4-split-slots", b.name, "min_edge_cut(x_edges, source + offset, sink)", "ok" if okoff and a[2] == snk else "violation",
               "the edge cut runs from the out-copy of the source (source + offset, offset = max vertex + 1) to the sink" if okoff and a[2] == snk else
               "the reduction does not start at source + offset (offset = max vertex + 1) / end at sink: %s, %s" % (show(a[1], 1)[:60], show(a[2], 1)[:30]), b.span_of(bi))
        xe = a[0]
        maps = [x for x in subterms(xe) if isinstance(x, tuple) and x and x[0] == "call" and x[1].endswith("Iterator::map")]
        shapes = []
        for m in maps:
            res = closure_result(ctx.facts, m[2][1], g)
            if res is not None and res[0] == "agg" and len(res[2]) == 2:
                def plus_off(x, base):
                    return x[0] == "field" and x[1][0] == "binop" and x[1][1] == "AddWithOverflow" and x[1][2] == base and off is not None and norm(x[1][3], g) == norm(off, g)
                p2 = ("param", 2, "")
                x0, x1 = res[2]
                def is_f(x, k):
                    return x[0] == "field" and x[1][0] == "param" and x[1][1] == 2 and str(x[2]) == k
                if x0[0] == "field" and x0[1][0] == "binop" and is_f(x0[1][2], "0") and is_f(x1, "1"):
                    shapes.append("edge")        # (v + offset, w)
                elif x0[0] == "param" and x0[1] == 2 and x1[0] == "field" and x1[1][0] == "binop" and x1[1][2][0] == "param" and x1[1][2][1] == 2:
                    shapes.append("split")       # (v, v + offset)
        # ... and the arithmetic is decided by evaluation: offset = (largest vertex) + 1; an edge (3, 5) becomes (3 + offset, 5), a vertex 3 becomes (3, 3 + offset)
        if sorted(shapes) == ["edge", "split"] and off is not None:
            offn = norm(off, g)
            mx = [x for x in subterms(offn) if isinstance(x, tuple) and x and x[0] == "call" and x[1].endswith("unwrap_or") and contains(x, lambda y: is_call(y, "Iterator::max"))]
            val = eval_term_env(unov_deep(fold_std_ops(map_term(offn, lambda y: ("int", 41) if mx and y == mx[0] else None))), {}) if mx else None
            if val != 42:
                shapes.append("offset is not (largest vertex) + 1: evaluates to %s for a largest vertex 41" % val)
            for m in maps:
                for item, want in ((("agg", "tuple", (("int", 3), ("int", 5))), (103, 5)), (("int", 3), (3, 103))):
                    r_ = apply_closure(ctx.facts, m[2][1], [item], g)
                    r_ = strip(simplify_proj(r_)) if r_ is not None else None
                    if r_ is None or r_[0] != "agg" or len(r_[2]) != 2:
                        continue
                    got = tuple(eval_term_env(unov_deep(fold_std_ops(map_term(x, lambda y: ("int", 100) if norm(y, g) == offn else None))), {}) for x in r_[2])
                    if None in got:
                        continue
                    if got not in ((103, 5), (3, 103)):
                        shapes.append("with offset 100 an item %s becomes %s" % ("(3, 5)" if item[0] == "agg" else "3", got))
        ctx.ob("T4-split-edges", b.name, "x_edges", "ok" if sorted(shapes) == ["edge", "split"] else "violation",
               "x_edges = {(v + offset, w) : (v, w) an edge} u {(v, v + offset) : v a vertex}" if sorted(shapes) == ["edge", "split"] else
               "the split graph is not {(v + offset, w)} u {(v, v + offset)}: found %s" % shapes, b.span_of(bi))
    ags = [(bi, si, s) for bi, si, s in b.assigns() if s["rv"]["k"] == "aggregate" and s["rv"].get("agg") == "adt" and s["rv"]["adt"] == M + "VertexCut"]
    for bi, si, s in ags:
        cv = norm(b.def_origin(b.origin(s["rv"]["ops"][s["rv"]["fields"].index("cut_vertices")])), g)
        iv = norm(b.def_origin(b.origin(s["rv"]["ops"][s["rv"]["fields"].index("inside_vertices")])), g)
        okc = False
        for m in [x for x in subterms(cv) if isinstance(x, tuple) and x and x[0] == "call" and x[1].endswith("Iterator::map")]:
            res = closure_result(ctx.facts, m[2][1], g)
            if res is not None and res[0] == "call" and res[1].endswith("Ord::min") and contains(m[2][0], lambda x: isinstance(x, tuple) and x and x[0] == "field" and x[2] == "cut_edges"):
                okc = True
        ctx.ob("T4-cut-vertices", b.name, "cut_vertices", "ok" if okc else "violation", "cut vertices = min(v, w) of the cut edges (the split edges)" if okc else
               "cut vertices are not min(v, w) over the cut edges of the reduction: " + show(cv, 1)[:80], b.span_of(bi, si))
        oki = False
        for f_ in [x for x in subterms(iv) if isinstance(x, tuple) and x and x[0] == "call" and x[1].endswith("Iterator::filter")]:
            cp = closure_parts(f_[2][1])
            cb = ctx.facts.bodies.get(cp[0]) if cp else None
            if cb is None or not contains(f_[2][0], lambda x: isinstance(x, tuple) and x and x[0] == "field" and x[2] == "inside_vertices"):
                continue
            rl = strip(cb.local_origin(0))
            disj = bool_join_disjuncts(cb, rl[1], g) if rl[0] == "local" else []
            below = excl = bool(disj)
            for _, at in disj:
                below = below and any(a[0] == "rel" and a[1] == "Lt" for a in at)
                excl = excl and any(a[0] == "bool" and a[2] is False and a[1][0] == "call" and a[1][1].endswith("::contains") for a in at)
            oki = below and excl
        ctx.ob("T4-inside-vertices", b.name, "inside_vertices", "ok" if oki else "violation",
               "inside vertices = those of the edge cut below offset that are not cut vertices" if oki else "inside vertices are not filtered by `v < offset && !cut_vertices.contains(&v)`", b.span_of(bi, si))
    ctx.floor("VertexCut constructions", len(ags), 1)


def undirected(ctx, g):
    ctx.clauses.append("undirected variants insert both orientations and delegate (T9)")
    for fn, tgt in (("min_edge_cut_undirected", "min_edge_cut"), ("min_vertex_cut_undirected", "min_vertex_cut")):
        b = ctx.body(M + fn)
        ctx.scan(ctx.facts.with_closures(b.name))
        r = ret_origin(b, g)
        ok = r[0] == "call" and r[1] == M + tgt and r[2][1] == ("param", 2, b.debug.get(2, "")) and r[2][2] == ("param", 3, b.debug.get(3, ""))
        both = False
        for fm in [x for x in subterms(r) if isinstance(x, tuple) and x and x[0] == "call" and x[1].endswith("Iterator::flat_map")]:
            res = closure_result(ctx.facts, fm[2][1], g)
            if res is not None and res[0] == "agg" and len(res[2]) == 2 and all(x[0] == "agg" and len(x[2]) == 2 for x in res[2]) and res[2][0][2] == (res[2][1][2][1], res[2][1][2][0]):
                both = True
        ctx.ob("T9-undirected-delegates", b.name, "return", "ok" if ok and both else "violation",
               "both orientations of every edge are inserted and the directed routine is called with (source, sink)" if ok and both else
               "the undirected variant does not insert (v, w) and (w, v) and delegate to %s(.., source, sink): %s" % (tgt, show(r, 1)[:80]))
