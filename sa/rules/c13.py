"""C13 - stabiliser presentation, core and intersection tables: operand slots and coverage (partial)."""
from ..core import *
from ..templates import *

S = "fpgroups::stabilizer::"
C = "fpgroups::cosets::"
CT = C + "CosetTable"

EXPLANATION = (
    "Decided (partial; exactness of the presentation is NOT decided): structural necessary conditions of the Reidemeister-Schreier "
    "construction and of the two product/quotient tables. (1) Schreier transversal: spanning_tree records (point, gen) exactly when the "
    "image was unseen and queues it; point_to_word[ct.get(pt, gen)] = point_to_word[pt] * gen for every tree edge, in tree order. (2) "
    "Schreier generators: a generator wx * g * wy^-1 is created exactly for edges (px, g) that carry no word yet, with wx the word of px "
    "and wy the word of ct.get(px, g) for the same px and g, over all rows 0..len() and all letters +-1..+-nr_gens; the new edge gets the "
    "one-letter word of the generator's own number (its index after the push), and its consequences are closed at once. (3) edge words: "
    "close_relations_in_place stores w at (point, gen) and w.inverse() at (ct.get(point, gen), -gen), and propagates exactly when one edge "
    "of a relator cycle is still unlabelled. (4) rewritten relators: every relator is traced from every row (no skipping), only non-empty "
    "representatives not seen before are kept. (5) core table: the regular action on the tuple of all rows 0..len() with image "
    "base.get(e, g) component-wise, built by induced_table (which numbers new images consecutively, joins (i, image, g) and compacts). "
    "(6) intersection table: starts at the pair of base rows (0, 0), the image pair of (a, b) under g is (ta.get(a, g), tb.get(b, g)) in "
    "that order, new pairs are numbered by the current table length, join(i, number, g), compacted on return. NOT decided: that the "
    "generators generate the full stabiliser, that the relators present it, row counts of core/intersection.")
TRUSTED = ["rustc MIR lowering", "C11/C12 coset tables, C10 reduced words"]
ASSUMPTIONS = ["valid transitive coset table (as the property states)"]


def first_letter_guarded(ctx, g):
    """relators_by_start_gen files every rotation / inverse of every relator under its first letter; a relator that freely reduces to the empty word
    has the empty word as its only 'rotation' and no first letter - it constrains nothing and must be skipped, not indexed"""
    ctx.clauses.append("relators are filed under their first letter only if they have one: a trivial (empty) relator is skipped (T5)")
    b = ctx.body("fpgroups::stabilizer::relators_by_start_gen")
    ctx.scan(ctx.facts.with_closures(b.name))
    n = 0
    bad = []
    for bi, t in b.calls("Index::index"):
        a = [strip(norm(b.origin(x), g)) for x in t["args"]]
        if "FreeWord" not in t["callee"].get("resolved", "") and "FreeWord" not in str(t["callee"].get("args", "")):
            continue
        n += 1
        ln = ("call", "fpgroups::free_words::FreeWord::len", (a[0],))
        fa = [atom_norm(x, g) for x in b.facts_at(bi)]
        # rotations and inverses have the length of the relator they come from: a non-emptiness fact about `rel` covers every w of
        # relator_permutations(rel)
        src = iter_source(b, a[0], g)
        srcs = [strip(y[2][0]) for y in subterms(norm(src, g))] if False else []
        if isinstance(src, tuple):
            srcs = [strip(y[2][0]) for y in subterms(norm(src, g)) if is_call(y, "free_words::relator_permutations")]
        for rel_t in srcs:
            lr = ("call", "fpgroups::free_words::FreeWord::len", (rel_t,))
            fa += [("rel", x[1], ln if strip(x[2]) == lr else x[2], ln if strip(x[3]) == lr else x[3]) for x in fa if x[0] == "rel" and lr in (strip(x[2]), strip(x[3]))]
        ok = any(x[0] == "rel" and (implies(x, ("rel", "Lt", a[1], ln)) or (a[1] == ("int", 0) and (implies(x, ("rel", "Ne", ln, ("int", 0))) or implies(x, ("rel", "Lt", ("int", 0), ln))))) for x in fa) or \
            any(x[0] == "bool" and x[2] is False and is_call(x[1], "is_empty") for x in fa)
        if not ok:
            bad.append(show(a[1], 1)[:20])
    ctx.floor("first-letter reads in relators_by_start_gen", n, 1)
    # ... and ONLY the empty relators are skipped: a one-letter relator `a` does constrain the group (guard evaluated for lengths 0, 1, 2, 5)
    ents = list(b.calls("BTreeMap::<K, V, A>::entry")) or list(b.calls("::entry"))
    ctx.floor("relators filed under their first letter", len(ents), 1)
    for bi, t in ents:
        tab = reach_table_by_length(b, bi, g)
        okt = tab == {0: False, 1: True, 2: True, 5: True}
        ctx.ob("T3-every-relator-filed", b.name, "entry(w[0]) <- rel.len() > 0", "ok" if okt else "violation",
               "every relator of length >= 1 is filed, exactly the empty ones are skipped" if okt else
               "relators are not filed exactly when non-empty (reached for lengths %s): relators of the dropped lengths no longer constrain the stabiliser's presentation" % (
                   tab if tab is None else [L for L, v in tab.items() if v]), b.span_of(bi))
    ctx.ob("T5-first-letter-guarded", b.name, "w[0] <- w.len() > 0", "ok" if not bad else "violation",
           "the first letter is read only of non-empty words" if not bad else
           "w[%s] is read of every rotation of every relator: stabilizer() panics on a presentation with a trivial relator such as a a^-1 (its only rotation is the empty word)" % ", ".join(bad))


def trace_word_shape(ctx, g):
    """stabilizer::trace_word(point, w, edge_to_word, ct) rewrites w, read from row `point`, in the Schreier generators: for every letter g, in
    order, the word of the edge (p, g) at the CURRENT row is appended, then p moves on to ct.get(p, g).  The lookup must see the row before
    the step (decided by dominance: the product comes before the step inside one round, and the step's result feeds the next round)"""
    ctx.clauses.append("trace_word: for every letter g of w in order: result *= word(p, g) at the current row, then p := ct.get(p, g) (T9)")
    b = ctx.body(S + "trace_word")
    ctx.scan([b])
    point, w, e2w, ct = (("param", k, b.debug.get(k, "")) for k in (1, 2, 3, 4))
    loops = natural_loops(b)
    bad = None
    if len(loops) != 1:
        bad = "%d loops" % len(loops)
    else:
        h, blocks = loops[0]
        blocks = set(blocks)
        muls = [(bi, strip(norm(b.origin(t["args"][1]), g))) for bi, t in b.calls("MulAssign::mul_assign")]
        if len(muls) != 1 or muls[0][0] not in blocks:
            bad = "not one product per letter"
        else:
            mb, mv = muls[0]
            gets = [x for x in subterms(mv) if isinstance(x, tuple) and x and x[0] == "call" and x[1].endswith("::get") and strip(x[2][0]) == e2w]
            key = strip(gets[0][2][1]) if len(gets) == 1 else None
            if key is None or key[0] != "agg" or len(key[2]) != 2 or strip(key[2][0])[0] != "local":
                bad = "the word appended is not edge_to_word.get(&(p, g)): %s" % show(mv, 1)[:70]
            else:
                p, gl = strip(key[2][0]), strip(key[2][1])
                src = iter_source(b, gl, g)
                defs = [(dbb, strip(norm(t_, g))) for dbb, t_ in b.all_defs_origins(p[1])]
                ini = [t_ for dbb, t_ in defs if dbb not in blocks]
                stp = [(dbb, t_) for dbb, t_ in defs if dbb in blocks]
                okstep = len(stp) == 1 and is_call(stp[0][1], "Option::<T>::unwrap") and is_call(strip(stp[0][1][2][0]), "CosetTable::get") and \
                    [strip(y) for y in strip(stp[0][1][2][0])[2]] == [ct, p, gl]
                if ini != [point] or not okstep:
                    bad = "the row is not `p = point; p = ct.get(p, g).unwrap()` once per letter"
                elif not (isinstance(src, tuple) and contains(norm(src, g), lambda y: y == w)):
                    bad = "the letters are not those of w"
                elif not (b.dominates(mb, stp[0][0]) and mb != stp[0][0]):
                    bad = "the edge word is looked up AFTER the row has moved on (it must be the word of the edge leaving the current row)"
                elif strip(norm(b.local_origin(0), g)) != strip(norm(b.origin(b.blocks[mb]["term"]["args"][0]), g)):
                    bad = "the word returned is not the product accumulated"
    ctx.ob("T9-trace-word", b.name, "rewrite", "ok" if not bad else "violation", "result *= word(p, g); p := ct.get(p, g) for every letter of w, from row `point`" if not bad else bad)


def run(ctx):
    g = ctx.facts.getters()
    first_letter_guarded(ctx, g)
    trace_word_shape(ctx, g)
    stab(ctx, g)
    close_rel(ctx, g)
    tree(ctx, g)
    core_and_intersection(ctx, g)


def stab(ctx, g):
    b = ctx.body(S + "stabilizer")
    ctx.scan([b])
    ct = ("param", 3, b.debug.get(3, ""))
    ctx.clauses += ["Schreier transversal words follow the spanning tree (T4)", "Schreier generators wx*g*wy^-1 for exactly the unlabelled edges, all rows and letters (T3/T4)",
                    "rewritten relators: every relator from every row, empty/duplicate dropped (T3/T4)"]
    # (1) point_to_word along the tree
    ok1 = False
    for bi, t in [(bi_, t_) for bi_, t_ in b.calls("collections::HashMap::<K, V, S") if t_["callee"].get("def", "").endswith("::insert")]:
        a = [norm(b.origin(x), g) for x in t["args"]]
        if len(a) == 3 and a[2][0] == "call" and a[2][1].endswith("ops::Mul::mul"):
            pt_gen = iter_source(b, a[2][2][1], g)
            key = a[1]
            inner = key[2][0] if key[0] == "call" and key[1].endswith("::unwrap") else key
            w = a[2][2][0]
            if inner[0] == "call" and inner[1] == CT + "::get" and inner[2][0] == ct and w[0] == "call" and w[1].endswith("ops::Index::index") and w[2][1] == inner[2][1] and a[2][2][1] == inner[2][2]:
                pay = inner[2][1]
                while pay[0] == "field" and pay[1][0] == "field":
                    pay = pay[1]
                src = iter_source(b, pay, g)
                ok1 = src is not None and src[0] == "call" and src[1] == S + "spanning_tree" and src[2] == (("param", 1, b.debug.get(1, "")), ct)
                every_iteration_reaches(ctx, "T3-no-skipped-tree-edge", b, bi, "tree-loop->point_to_word.insert", "some tree edge does not extend the transversal")
    ctx.ob("T4-transversal", b.name, "point_to_word[get(pt, gen)] = point_to_word[pt] * gen", "ok" if ok1 else "violation",
           "transversal words are extended along the spanning tree of the base point" if ok1 else "the transversal is not built as word(pt) * gen for the tree edges (pt, gen) of spanning_tree(base_point, ct)")
    # (2) generators
    pushes = [(bi, t) for bi, t in b.calls("Vec::<T, A>::push") if "FreeWord" in t["callee"].get("path_with_args", "")]
    gens = []
    for bi, t in pushes:
        v = norm(b.origin(t["args"][1]), g)
        if v[0] == "call" and v[1].endswith("ops::Mul::mul") and v[2][0][0] == "call" and v[2][0][1].endswith("ops::Mul::mul"):
            gens.append((bi, t, v))
    ctx.floor("Schreier generator pushes", len(gens), 1)
    for bi, t, v in gens:
        wx, gl = v[2][0][2]
        wyi = v[2][1]
        px = wx[2][1] if wx[0] == "call" and wx[1].endswith("ops::Index::index") else None
        ok = px is not None and wyi[0] == "call" and wyi[1].endswith("FreeWord::inverse")
        if ok:
            wy = wyi[2][0]
            tgt = wy[2][1] if wy[0] == "call" and wy[1].endswith("ops::Index::index") else None
            tgt = tgt[2][0] if tgt is not None and tgt[0] == "call" and tgt[1].endswith("::unwrap") else tgt
            ok = tgt == ("call", CT + "::get", (ct, px, gl)) and wx[2][0] == wy[2][0]
        ctx.ob("T4-schreier-generator", b.name, "wx * g * wy.inverse()", "ok" if ok else "violation",
               "generator = word(px) * g * word(ct.get(px, g))^-1 for one px and g" if ok else "the Schreier generator is not word(px) * g * word(ct.get(px, g))^-1 with consistent px, g: " + show(v, 1)[:100], b.span_of(bi))
        fa = [atom_norm(a, g) for a in b.facts_at(bi, deep=True)]
        unl = any(a[0] == "bool" and a[2] is True and a[1][0] == "call" and a[1][1].endswith("is_none") and a[1][2][0][0] == "call" and a[1][2][0][1].endswith("::get") and
                  a[1][2][0][2][1] == ("agg", "tuple", (px, gl)) for a in fa) if px is not None else False
        ctx.ob("T3-generator-only-for-unlabelled-edge", b.name, "push<-edge_to_word.get(&(px, g)).is_none()", "ok" if unl else "violation",
               "a generator is created only for an edge that has no word yet (test still valid at the push)" if unl else "a generator is created without a still-valid test that the edge (px, g) is unlabelled", b.span_of(bi))
        rp = loop_range_of_payload(b, px, g) if px is not None and px[0] == "field" else None
        okp = rp is not None and rp[0] == ("int", 0) and not rp[2] and rp[1] == ("call", CT + "::len", (ct,))
        ctx.require(okp, "T4-all-rows-and-letters", b.name, "px in 0..ct.len()", "all rows are examined", "rows examined for Schreier generators are not 0..ct.len()", b.span_of(bi))
        src = iter_source(b, gl, g) if gl[0] == "field" else None
        okl = src is not None and contains(src, lambda x: isinstance(x, tuple) and x and x[0] == "call" and x[1].endswith("Iterator::flat_map")) and \
            contains(src, lambda x: isinstance(x, tuple) and x and ((x[0] == "call" and x[1] == CT + "::nr_gens") or (x[0] == "field" and x[2] == "nr_gens" and x[1] == ct)))
        ctx.require(okl, "T4-all-rows-and-letters", b.name, "g in +-1..+-nr_gens", "all letters and inverse letters are examined", "letters examined are not all of +-1..+-nr_gens: " + (show(src, 1)[:60] if src else "?"), b.span_of(bi))
        # the new edge word is the generator's own number and consequences are closed
        okn = False
        for cb, c in b.calls(exact=S + "close_relations_in_place"):
            a = [norm(b.origin(x), g) for x in c["args"]]
            if a[1] == ("agg", "tuple", (px, gl)) and b.dominates(bi, cb) and cb != bi:
                w = a[2]
                if w[0] == "call" and w[1].endswith("convert::From::from") and w[2][0][0] == "agg" and w[2][0][2][0][0] == "call" and w[2][0][2][0][1].endswith("::len"):
                    # the length must be read after the push (the generator's own 1-based number)
                    raw = b.origin(c["args"][2])
                    lens = [x for x in subterms(raw) if isinstance(x, tuple) and len(x) > 4 and x[0] == "call" and x[1].endswith("::len")]
                    okn = bool(lens) and all(b.dominates(bi, x[4]) and x[4] != bi for x in lens)
        ctx.ob("T4-new-edge-word", b.name, "close_relations_in_place(.., (px, g), [generators.len()], ..)", "ok" if okn else "violation",
               "after the push the edge gets the one-letter word of the new generator's number and relations are closed" if okn else
               "the new generator's edge is not labelled with [generators.len()] after the push / relations are not closed from it")
    # (4) subrelators
    sp = [(bi, t) for bi, t in pushes if (bi, t) not in [(x[0], x[1]) for x in gens]]
    okr = False
    for bi, t in sp:
        v = norm(b.origin(t["args"][1]), g)
        if v[0] == "call" and v[1].endswith("relator_representative") and v[2][0][0] == "call" and v[2][0][1] == S + "trace_word":
            tw = v[2][0]
            rp = loop_range_of_payload(b, tw[2][0], g) if tw[2][0][0] == "field" else None
            rs = iter_source(b, tw[2][1], g) if tw[2][1][0] == "field" else None
            rows = rp is not None and rp[0] == ("int", 0) and not rp[2] and rp[1] == ("call", CT + "::len", (ct,))
            rels = rs is not None and contains(rs, lambda x: x == ("param", 2, b.debug.get(2, "")))
            fa = b.facts_at(bi)
            nonempty = holds(fa, ("rel", "Lt", ("int", 0), ("call", "fpgroups::free_words::FreeWord::len", (v,))), g)
            okr = rows and rels and nonempty and tw[2][3] == ct
            for tb_, tt in b.calls(exact=S + "trace_word"):
                every_iteration_reaches(ctx, "T3-no-skipped-relator-row", b, tb_, "row x relator loop->trace_word", "some (row, relator) pair is not rewritten: relators of the subgroup are missing")
    ctx.ob("T4-rewritten-relators", b.name, "subrels.push(rep(trace_word(p, r, ..)))", "ok" if okr else "violation",
           "every relator is traced from every row 0..len(); non-empty representatives are kept" if okr else "the rewritten relators are not rep(trace_word(p, r)) over all rows and all given relators with the non-empty test")


def close_rel(ctx, g):
    ctx.clauses.append("edge words: w at (point, gen), w^-1 at (ct.get(point, gen), -gen); propagate on exactly one unlabelled edge (T3/T4)")
    b = ctx.body(S + "close_relations_in_place")
    ctx.scan([b])
    ct = ("param", 5, b.debug.get(5, ""))
    ins = [[norm(b.origin(x), g) for x in t["args"]] for bi, t in [(bi_, t_) for bi_, t_ in b.calls("collections::HashMap::<K, V, S") if t_["callee"].get("def", "").endswith("::insert")]]
    fwd = [a for a in ins if a[1][0] == "agg" and a[2][0] != "call"]
    inv = [a for a in ins if a[2][0] == "call" and a[2][1].endswith("FreeWord::inverse")]
    ok = False
    for f in fwd:
        pt, gn = f[1][2]
        for i_ in inv:
            k0, k1 = i_[1][2] if i_[1][0] == "agg" else (None, None)
            k0i = k0[2][0] if k0 is not None and k0[0] == "call" and k0[1].endswith("::unwrap") else k0
            if k0i == ("call", CT + "::get", (ct, pt, gn)) and k1 in (("unop", "Neg", gn), ("call", "std::ops::Neg::neg", (gn,))) and i_[2][2][0] == f[2]:
                ok = True
    ctx.ob("T4-edge-word-pair", b.name, "insert((point, gen), w) / insert((get(point, gen), -gen), w.inverse())", "ok" if ok else "violation",
           "both directions of an edge get mutually inverse words" if ok else "the two directions of an edge are not labelled with w and w.inverse() at (point, gen) and (ct.get(point, gen), -gen)")
    okp = False
    for bi, t in b.calls("VecDeque::<T, A>::push_back"):
        fa = [atom_norm(a, g) for a in b.facts_at(bi)]
        if any(a[0] == "rel" and a[1] == "Eq" and a[3] == ("int", 1) and a[2][0] == "call" and a[2][1].endswith("::len") for a in fa):
            okp = True
    ctx.ob("T3-propagate-single-cut", b.name, "push_back<-cuts.len() == 1", "ok" if okp else "violation",
           "a relator cycle propagates a word exactly when one of its edges is unlabelled" if okp else "propagation is not guarded by cuts.len() == 1")
    # ... counted WITH MULTIPLICITY: a relator such as (ab)^k can cross the same unlabelled edge several times; only if it crosses it exactly
    # once (and everything else on the walk is known) can the edge's word be solved for.  The unlabelled occurrences are therefore kept in a
    # sequence that grows by one per occurrence, not in a map or set keyed by the edge.
    okseq = False
    why = "no length test found"
    for bi, t in b.calls("VecDeque::<T, A>::push_back"):
        for a in b.facts_at(bi):
            a = atom_norm(a, g)
            if a[0] == "rel" and a[1] == "Eq" and a[3] == ("int", 1) and a[2][0] == "call" and a[2][1].endswith("::len"):
                coll = strip(a[2][2][0])
                ty = b.local_ty(coll[1]) if coll[0] == "local" else ""
                isvec = a[2][1].endswith("Vec::<T, A>::len") or "Vec<" in ty and "Map" not in ty and "Set" not in ty
                pushes = [pb for pb, pt in b.calls("Vec::<T, A>::push") if strip(norm(b.origin(pt["args"][0]), g)) == coll]
                guarded = all(any(atom_norm(x, g)[0] == "bool" and is_call(atom_norm(x, g)[1], "contains_key") and atom_norm(x, g)[2] is False for x in b.facts_at(pb)) for pb in pushes)
                okseq = isvec and len(pushes) >= 1 and guarded
                why = "the collection is %s with %d per-occurrence pushes under !contains_key" % (ty[:40] or a[2][1].split("::")[-2], len(pushes))
                # ... and under nothing else: every condition that holds at the push but not yet at the contains_key test must BE that test
                # (a second conjunct such as `not already in cuts` drops repeated occurrences again)
                for pb in pushes:
                    cks = [cb for cb, ct_ in b.calls("contains_key") if b.dominates(cb, pb)]
                    if not cks:
                        continue
                    before = {repr(atom_norm(x, g)) for x in b.facts_at(cks[-1])}
                    extra = []
                    # facts established by the program's tests only: conditions of MIR assertions (overflow of `-h`, bounds) are not guards
                    tested = []
                    for edge, (term_, val_) in b.dominating_edges(pb):
                        if b.blocks[edge[0]]["term"]["k"] == "assert":
                            continue
                        tested += atoms_of(term_, val_)
                    for x in tested:
                        x = atom_norm(x, g)
                        if repr(x) in before or is_ovf_atom(x):
                            continue
                        if contains(("agg", "x", tuple(y for y in x[1:] if isinstance(y, tuple))), lambda y: is_call(y, "contains_key")):
                            continue
                        extra.append(x)
                    if extra:
                        okseq = False
                        why = "an unlabelled occurrence is recorded only if additionally %s" % show_atom(extra[0])[:70]
    ctx.ob("T3-propagate-single-cut", b.name, "cuts counts occurrences", "ok" if okseq else "violation",
           "unlabelled occurrences are pushed one by one into a Vec and the propagation needs exactly one of them" if okseq else
           "the unlabelled edges of a relator walk are not counted with multiplicity (%s): a relator that crosses one unlabelled edge several times (a power relator at a row with torsion) "
           "wrongly 'deduces' a word for it instead of leaving it to become a stabiliser generator" % why)


def tree(ctx, g):
    b = ctx.body(S + "spanning_tree")
    ctx.scan([b])
    ct = ("param", 2, b.debug.get(2, ""))
    ok = False
    for bi, t in b.calls("Vec::<T, A>::push"):
        v = norm(b.origin(t["args"][1]), g)
        fa = [atom_norm(a, g) for a in b.facts_at(bi)]
        if v[0] == "agg" and len(v[2]) == 2:
            img = ("call", "std::option::Option::<T>::unwrap", (("call", CT + "::get", (ct, v[2][0], v[2][1])),))
            unseen = any(a[0] == "bool" and a[2] is False and a[1][0] == "call" and a[1][1].endswith("::contains") and a[1][2][1] == img for a in fa)
            popped = contains(v[2][0], lambda x: isinstance(x, tuple) and x and x[0] == "call" and x[1].endswith("pop_front"))
            queued = any(norm(b.origin(t2["args"][1]), g) == img for bj, t2 in b.calls("VecDeque::<T, A>::push_back"))
            ok = unseen and popped and queued
    ctx.ob("T3-spanning-tree", b.name, "edges.push((point, gen))<-!seen.contains(get(point, gen))", "ok" if ok else "violation",
           "a tree edge is recorded exactly when it reaches an unseen row, which is then queued" if ok else "spanning_tree does not record (point, gen) under !seen.contains(ct.get(point, gen)) with BFS queueing")


def core_and_intersection(ctx, g):
    ctx.clauses += ["core table = regular action on the tuple of all rows (T4/T9)", "intersection table = orbit of (0, 0) under the product action, slots in order (T4/T9)"]
    b = ctx.body(C + "core_table")
    ctx.scan(ctx.facts.with_closures(b.name))
    base = ("param", 1, b.debug.get(1, ""))
    r = ret_origin(b, g)
    ok = r[0] == "call" and r[1] == C + "induced_table" and r[2][0] == ("field", base, "nr_gens")
    start_ok = ok and contains(r[2][2], lambda x: x == ("agg", "adt:std::ops::Range::Range", (("int", 0), ("call", CT + "::len", (base,)))))
    img_ok = False
    if ok:
        cp = closure_parts(r[2][1])
        for d in ctx.facts.reachable(cp[0], fanout=False) if cp else []:
            res = norm(ctx.facts.bodies[d].local_origin(0), g)
            inner = res[2][0] if res[0] == "call" and res[1].endswith("::unwrap") and res[2] else res
            if inner[0] == "call" and inner[1] == CT + "::get":
                img_ok = True
    ctx.ob("T4-core-table", b.name, "induced_table(nr_gens, es -> es.map(base.get(e, g)), 0..len())", "ok" if ok and start_ok and img_ok else "violation",
           "the core is the action on the tuple of all rows with component-wise images" if ok and start_ok and img_ok else
           "core_table is not induced_table over the tuple (0..base.len()) with images base.get(e, g) (induced: %s, start all rows: %s, image: %s)" % (ok, start_ok, img_ok))
    ib = ctx.body(C + "induced_table")
    ctx.scan([ib])
    joins = [[norm(ib.origin(x), g) for x in t["args"]] for bi, t in ib.calls(exact=CT + "::join")]
    okj = False
    for a in joins:
        num = a[2]
        okj = contains(num, lambda x: isinstance(x, tuple) and x and x[0] == "call" and x[1].endswith("or_insert") and x[2][1] == ("call", CT + "::len", (a[0],))) and \
            contains(num, lambda x: isinstance(x, tuple) and x and x[0] == "call" and x[1].endswith("ops::Fn::call") and a[1] in [y for y in subterms(x)] and a[3] in [y for y in subterms(x)])
    rr = ret_origin(ib, g)
    ctx.ob("T4-induced-table", ib.name, "join(i, number(img(point_i, g)), g); compact()", "ok" if okj and rr[0] == "call" and rr[1].endswith("CosetTable::compact") else "violation",
           "new images are numbered consecutively (table length), joined under the same row and letter; compacted on return" if okj else
           "induced_table does not join (i, or_insert(len) number of img(point_i, g), g) / compact")
    tb = ctx.body(C + "intersection_table")
    ctx.scan([tb])
    ta_, tb_ = ("param", 1, tb.debug.get(1, "")), ("param", 2, tb.debug.get(2, ""))
    joins = [(bi, [norm(tb.origin(x), g) for x in t["args"]]) for bi, t in tb.calls(exact=CT + "::join")]
    ok = False
    why = ""
    for bi, a in joins:
        gl = a[3]
        gets = [x for x in subterms(a[2]) if isinstance(x, tuple) and x and x[0] == "call" and x[1] == CT + "::get"]
        ga = [x for x in gets if x[2][0] == ta_]
        gb = [x for x in gets if x[2][0] == tb_]
        if ga and gb:
            pa, pb = ga[0][2][1], gb[0][2][1]
            same_pair = pa[0] == "field" and pb[0] == "field" and pa[1] == pb[1] and str(pa[2]) == "0" and str(pb[2]) == "1" and contains(pa[1], lambda x: x == a[1])
            same_g = ga[0][2][2] == gl and gb[0][2][2] == gl
            # index order o2n[ag][bg]
            order = a[2]
            order = order[1] if order[0] == "cast" else order
            ok = same_pair and same_g
            why = "pair components (a from ta, b from tb) of row i: %s; same letter: %s" % (same_pair, same_g)
    seeds = [norm(tb.origin(t["args"][1]), g) for bi, t in tb.calls("Vec::<T, A>::push")]
    seed_ok = ("agg", "tuple", (("int", 0), ("int", 0))) in seeds
    rr = ret_origin(tb, g)
    ctx.ob("T4-intersection-table", tb.name, "join(i, number(ta.get(a, g), tb.get(b, g)), g)", "ok" if ok and seed_ok and rr[0] == "call" and rr[1].endswith("CosetTable::compact") else "violation",
           "orbit of (0, 0): the image of the pair (a, b) of row i under g is (ta.get(a, g), tb.get(b, g)); compacted" if ok and seed_ok else
           "intersection_table does not follow (ta.get(a, g), tb.get(b, g)) from the base pair (0, 0) (%s; seed (0,0): %s)" % (why, seed_ok))
